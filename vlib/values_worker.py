"""Runs the REAL pyrtma descriptors / ctypes / codecs (fresh interpreter, PYTHONPATH=/repo/src).

    python values_worker.py < job.json > result.json

job: {"classes": [classspec...], "compiled": [indices of classes to build through the real compiler],
      "layout": bool, "ops": [...], "flags": [...], "withs": [...], "codec": [...]}

classspec: {"name": str, "base": "data"|"struct", "type_id": int, "fields": [[fname, tspec], ...]}
tspec: ["Int8"] .. ["Uint64"] ["Float"] ["Double"] ["Byte"] ["Char"] ["String", n] ["ByteArray", n]
       ["IntArray", "Int8", n] ["FloatArray", "Float", n] ["Struct", classindex] ["StructArray", classindex, n]

Values (valspec) are JSON objects {"t": ...}; see mkval.  Observations are plain ints / hex strings.
"""
from __future__ import annotations

import contextvars
import ctypes
import importlib.util
import io
import json
import contextlib
import logging
import os
import queue
import shutil
import struct
import sys
import tempfile
import threading
from fractions import Fraction
from pathlib import Path

EXC = {"TypeError": 1, "ValueError": 2, "OverflowError": 3, "IndexError": 4, "AttributeError": 5,
       "UnicodeEncodeError": 6, "UnicodeDecodeError": 7, "JSONDecodingError": 10,
       "InvalidMessageDefinition": 11, "UnknownMessageType": 12, "KeyError": 13}


def exc_code(e: BaseException) -> int:
    return EXC.get(type(e).__name__, 99)


CT = {(0, 1): ctypes.c_int8, (1, 1): ctypes.c_uint8, (0, 2): ctypes.c_int16, (1, 2): ctypes.c_uint16,
      (0, 4): ctypes.c_int32, (1, 4): ctypes.c_uint32, (0, 8): ctypes.c_int64, (1, 8): ctypes.c_uint64,
      (2, 4): ctypes.c_float, (2, 8): ctypes.c_double, (3, 1): ctypes.c_char}

YAML_NATIVE = {"Int8": "int8", "Int16": "int16", "Int32": "int32", "Int64": "int64", "Uint8": "uint8",
               "Uint16": "uint16", "Uint32": "uint32", "Uint64": "uint64", "Float": "float", "Double": "double",
               "Byte": "unsigned char", "Char": "char"}


def f64_from_bits(b: int) -> float:
    return struct.unpack("<d", struct.pack("<Q", b & (2 ** 64 - 1)))[0]


def f64_bits(x: float) -> int:
    return struct.unpack("<Q", struct.pack("<d", x))[0]


# ---------------------------------------------------------------------------------------------
# classes

def build_direct(specs, idx, classes):
    from pyrtma.message_base import MessageBase, MessageMeta
    from pyrtma.message_data import MessageData
    from pyrtma import validators as V
    spec = specs[idx]
    ns = {}
    for fname, ts in spec["fields"]:
        k = ts[0]
        if k in ("Int8", "Int16", "Int32", "Int64", "Uint8", "Uint16", "Uint32", "Uint64", "Float", "Double",
                 "Byte", "Char"):
            ns[fname] = getattr(V, k)()
        elif k == "String":
            ns[fname] = V.String(ts[1])
        elif k == "ByteArray":
            ns[fname] = V.ByteArray(ts[1])
        elif k == "IntArray":
            ns[fname] = V.IntArray(getattr(V, ts[1]), ts[2])
        elif k == "FloatArray":
            ns[fname] = V.FloatArray(getattr(V, ts[1]), ts[2])
        elif k == "Struct":
            ns[fname] = V.Struct(classes[ts[1]])
        elif k == "StructArray":
            ns[fname] = V.StructArray(classes[ts[1]], ts[2])
        else:
            raise ValueError(f"unknown tspec {ts}")
    if spec["base"] == "data":
        ns.update(type_id=spec.get("type_id", 0), type_name=spec["name"], type_hash=spec.get("type_hash", 0),
                  type_size=-1, type_source="", type_def="")
        c = MessageMeta(spec["name"], (MessageData,), ns)
        c.type_size = ctypes.sizeof(c)          # as the definition compiler does (0 for a signal)
        return c
    return MessageMeta(spec["name"], (MessageBase,), ns)


def yaml_for(specs, indices):
    """definition file for the selected classes (structs first, in index order)"""
    sd, md = [], []

    def ftext(ts):
        k = ts[0]
        if k in YAML_NATIVE:
            return YAML_NATIVE[k]
        if k == "String":
            return f"char[{ts[1]}]"
        if k == "ByteArray":
            return f"unsigned char[{ts[1]}]"
        if k in ("IntArray", "FloatArray"):
            return f"{YAML_NATIVE[ts[1]]}[{ts[2]}]"
        if k == "Struct":
            return specs[ts[1]]["name"]
        if k == "StructArray":
            return f"{specs[ts[1]]['name']}[{ts[2]}]"
        raise ValueError(ts)

    for i in indices:
        s = specs[i]
        lines = [f"  {s['name']}:"]
        if s["base"] == "data":
            lines.append(f"    id: {s['type_id']}")
        if s["fields"]:
            lines.append("    fields:")
            for fname, ts in s["fields"]:
                lines.append(f"      {fname}: {ftext(ts)}")
        else:
            lines.append("    fields: null")
        (md if s["base"] == "data" else sd).append("\n".join(lines))
    out = ""
    if sd:
        out += "struct_defs:\n" + "\n".join(sd) + "\n"
    if md:
        out += "message_defs:\n" + "\n".join(md) + "\n"
    return out


def build_compiled(specs, indices, workdir: Path):
    """real Parser + PyDefCompiler -> import the generated module"""
    from pyrtma.parser import Parser
    from pyrtma.compilers.python import PyDefCompiler
    src = workdir / "vdefs.yaml"
    src.write_text(yaml_for(specs, indices))
    logging.disable(logging.CRITICAL)
    with contextlib.redirect_stdout(io.StringIO()), contextlib.redirect_stderr(io.StringIO()):
        parser = Parser(debug=False, validate_alignment=True, auto_pad=True, import_coredefs=False)
        parser.parse(src)
        out = workdir / "vdefs_gen.py"
        comp = PyDefCompiler(parser)
        comp.generate(out)
        spec = importlib.util.spec_from_file_location("vdefs_gen", out)
        mod = importlib.util.module_from_spec(spec)
        sys.modules["vdefs_gen"] = mod
        spec.loader.exec_module(mod)
    res = {}
    for i in indices:
        nm = specs[i]["name"]
        cls = getattr(mod, nm, None) or getattr(mod, "MDF_" + nm)
        res[i] = cls
    return res


def spec_of(cls, index_of):
    """class spec of an existing message/struct class, read off its descriptors"""
    import inspect
    from pyrtma.message_data import MessageData
    fields = []
    for fname, _ in cls._fields_:
        pub = fname[1:] if fname.startswith("_") else fname
        d = inspect.getattr_static(cls, pub)
        k = type(d).__name__
        if k in ("Int8", "Int16", "Int32", "Int64", "Uint8", "Uint16", "Uint32", "Uint64", "Float", "Double",
                 "Byte", "Char"):
            ts = [k]
        elif k == "String":
            ts = ["String", d.len]
        elif k == "ByteArray":
            ts = ["ByteArray", d._len]
        elif k in ("IntArray", "FloatArray"):
            ts = [k, type(d._validator).__name__, d._len]
        elif k == "Struct":
            ts = ["Struct", index_of[d._ctype]]
        elif k == "StructArray":
            ts = ["StructArray", index_of[d._validator._ctype], d._len]
        else:
            raise ValueError(f"{cls.__name__}.{pub}: unsupported descriptor {k}")
        fields.append([pub, ts])
    base = "data" if issubclass(cls, MessageData) else "struct"
    return dict(name=cls.__name__, base=base, type_id=getattr(cls, "type_id", -1), fields=fields, imported=True)


def import_classes(modnames, first_index):
    """message/struct classes defined in the given modules (sorted by name), plus MessageHeader"""
    import importlib
    from pyrtma.message_base import MessageBase
    found = []
    for mn in modnames:
        if mn == "header":
            from pyrtma.header import MessageHeader
            found.append(MessageHeader)
            continue
        try:
            if mn.startswith("file:"):
                import importlib.util as iu
                path = mn[5:]
                name = "vimp_" + os.path.basename(path).replace(".py", "")
                with contextlib.redirect_stdout(io.StringIO()), contextlib.redirect_stderr(io.StringIO()):
                    sp = iu.spec_from_file_location(name, path)
                    mod = iu.module_from_spec(sp)
                    sys.modules[name] = mod
                    sp.loader.exec_module(mod)
            else:
                mod = importlib.import_module(mn)
        except Exception:  # shipped definitions that do not import are another property's business
            continue
        cs = [c for _, c in sorted(vars(mod).items()) if isinstance(c, type) and issubclass(c, MessageBase)
              and c.__module__ == mod.__name__]
        found += cs
    index_of = {c: first_index + i for i, c in enumerate(found)}
    specs = []
    keep = []
    for c in found:
        try:
            specs.append(spec_of(c, index_of))
            keep.append(c)
        except (KeyError, ValueError) as e:
            specs.append(dict(name=c.__name__, base="struct", type_id=-1, fields=[], imported=True, skipped=str(e)))
            keep.append(c)
    return keep, specs


def build_classes(job, workdir):
    specs = [s for s in job["classes"] if not s.get("imported")]
    compiled = sorted(job.get("compiled", []))
    classes = {}
    if compiled:
        try:
            classes.update(build_compiled(specs, compiled, workdir))
        except Exception as e:  # the definition compiler is not under test here: fall back to direct construction
            job["_compile_error"] = f"{type(e).__name__}: {e}"[:300]
            classes = {}
    for i in range(len(specs)):
        if i not in classes:
            classes[i] = build_direct(specs, i, classes)
    out = [classes[i] for i in range(len(specs))]
    if compiled and not job.get("_compile_error"):
        # what the definition compiler really emitted (e.g. a length-1 array becomes a scalar, padding fields
        # are added): the harness works from the descriptors of the real classes, not from its request
        index_of = {c: i for i, c in enumerate(out)}
        specs = list(specs)
        for i in compiled:
            try:
                sp = spec_of(out[i], index_of)
                sp.pop("imported", None)
                sp["name"] = specs[i]["name"]
                sp["type_hash"] = getattr(out[i], "type_hash", 0)
                specs[i] = sp
            except (KeyError, ValueError):
                pass
    if job.get("imports"):
        cs, ispecs = import_classes(job["imports"], len(specs))
        out += cs
        job["_all_specs"] = specs + ispecs
    else:
        job["_all_specs"] = specs
    return out


def layout(cls):
    fs = []
    for fname, ftype in cls._fields_:
        meta = getattr(cls, fname)
        fs.append([fname[1:] if fname.startswith("_") else fname, meta.offset, meta.size])
    return dict(size=ctypes.sizeof(cls), fields=fs, type_hash=getattr(cls, "type_hash", 0),
                type_id=getattr(cls, "type_id", -1))


# ---------------------------------------------------------------------------------------------
# values

def mkval(v, classes, msg=None):
    t = v["t"]
    if t == "int":
        return int(v["v"])
    if t == "bool":
        return bool(v["v"])
    if t == "float":
        return f64_from_bits(int(v["bits"]))
    if t == "numlike":
        return Fraction(f64_from_bits(int(v["bits"])))
    if t == "str":
        return "".join(chr(c) for c in v["cs"])
    if t == "bytes":
        return bytes(v["bs"])
    if t == "bytearray":
        return bytearray(v["bs"])
    if t == "none":
        return None
    if t == "list":
        return [mkval(x, classes) for x in v["items"]]
    if t == "tuple":
        return tuple(mkval(x, classes) for x in v["items"])
    if t == "cinst":
        return CT[(v["ck"], v["cw"])].from_buffer_copy(bytes(v["raw"]))
    if t == "carr":
        return (CT[(v["ck"], v["cw"])] * v["n"]).from_buffer_copy(bytes(v["raw"]))
    if t == "struct":
        return classes[v["cls"]].from_buffer_copy(bytes(v["raw"]))
    if t in ("arr", "sarr"):
        # the bound array object of a field: of the message being assigned to ("self") or of another instance
        donor = msg if (v.get("self") and msg is not None) else classes[v["cls"]].from_buffer_copy(bytes(v["raw"]))
        return getattr(donor, v["field"])
    raise ValueError(f"unknown valspec {v}")


def enc_obs(x):
    """flat int encoding of a value read back (mirrored by enc_val in the Coq header)"""
    if isinstance(x, bool):
        return [1, int(x)]
    if isinstance(x, int):
        return [1, x]
    if isinstance(x, float):
        return [2, f64_bits(x)]
    if isinstance(x, str):
        return [3, len(x)] + [ord(c) for c in x]
    if isinstance(x, (bytes, bytearray)):
        return [4, len(x)] + list(x)
    if isinstance(x, (list, tuple)):
        out = [5, len(x)]
        for y in x:
            out += enc_obs(y)
        return out
    if isinstance(x, ctypes.Structure):
        b = bytes(x)
        return [6, len(b)] + list(b)
    return [8, 0]


def navigate(msg, path):
    obj = msg
    for p in path:
        obj = getattr(obj, p[0])
        if len(p) > 1:
            obj = obj[p[1]]
    return obj


def mkkey(k):
    if k is None:
        return None
    if k[0] == "i":
        return k[1]
    return slice(k[1], k[2], k[3])


def run_op(op, classes):
    from pyrtma.validators import disable_message_validation
    cls = classes[op["cls"]]
    msg = cls.from_buffer_copy(bytes.fromhex(op["init"]))
    before = bytes(msg)
    val = mkval(op["val"], classes, msg)
    key = mkkey(op.get("key"))
    leaf = navigate(msg, op.get("path", []))
    fname = op["field"]
    off = ctypes.addressof(leaf) - ctypes.addressof(msg) + getattr(type(leaf), "_" + fname).offset
    size = getattr(type(leaf), "_" + fname).size
    exc = None

    class _ViewBoom(Exception):
        pass

    view = None
    vm = op.get("view")
    if vm and key is not None:
        # the bound array view (what `msg.arr` returns) is obtained under ANOTHER validation state than the one
        # in force at the store: the state at the store must decide
        if vm == "off-normal":
            with disable_message_validation():
                view = getattr(leaf, fname)
        elif vm == "off-nested":
            with disable_message_validation():
                with disable_message_validation():
                    view = getattr(leaf, fname)
        elif vm == "off-exc":
            try:
                with disable_message_validation():
                    view = getattr(leaf, fname)
                    raise _ViewBoom()
            except _ViewBoom:
                pass
        else:   # "on": taken with validation on (used inside a disable block when enabled is false)
            view = getattr(leaf, fname)

    def do():
        if key is None:
            setattr(leaf, fname, val)
        elif view is not None:
            view[key] = val
        else:
            getattr(leaf, fname)[key] = val

    try:
        if op.get("enabled", True):
            do()
        else:
            with disable_message_validation():
                do()
    except Exception as e:  # noqa
        exc = e
    after = bytes(msg)
    res = dict(exc=None if exc is None else type(exc).__name__, code=0 if exc is None else exc_code(exc),
               after=after.hex(), off=off, size=size)
    if before.hex() != op["init"]:
        res["init_mismatch"] = True
    if exc is None:
        try:
            a = getattr(leaf, fname)
            if key is not None:
                rb = a[key]
            elif hasattr(a, "_bound_obj"):
                rb = a[:]
            else:
                rb = a
            res["rb"] = enc_obs(rb)
        except Exception as e:  # noqa
            res["rb"] = [9, exc_code(e)]
    return res


# ---------------------------------------------------------------------------------------------
# validation flag

class _Boom(Exception):
    pass


def _probe_cls():
    from pyrtma.message_base import MessageMeta
    from pyrtma.message_data import MessageData
    from pyrtma import validators as V
    return MessageMeta("FLAG_PROBE", (MessageData,), dict(x=V.Int8(), type_id=0, type_name="FLAG_PROBE", type_hash=0))


def probe_enabled(pc) -> int:
    """1 = validation refused an out-of-range int (flag on), 0 = accepted"""
    m = pc()
    try:
        m.x = 1000
        return 0
    except ValueError:
        return 1


def run_flag_script(script, nthreads):
    """script: [[tid, code]] executed strictly in order, each command by its own thread.
    codes: 0 Enter 1 Enter(ignore=True) 2 ExitNormal 3 ExitExc 4 Probe.  Manual __enter__/__exit__ calls
    on the real context manager (the exception is thrown into the generator exactly as `with` does)."""
    from pyrtma.validators import disable_message_validation
    pc = _probe_cls()
    qs = [queue.Queue() for _ in range(nthreads)]
    done = queue.Queue()

    def worker(i):
        stack = []
        while True:
            c = qs[i].get()
            if c is None:
                return
            r = None
            try:
                if c in (0, 1):
                    cm = disable_message_validation(ignore=(c == 1))
                    cm.__enter__()
                    stack.append(cm)
                elif c == 2:
                    stack.pop().__exit__(None, None, None)
                elif c == 3:
                    cm = stack.pop()
                    try:
                        raise _Boom()
                    except _Boom as e:
                        swallowed = cm.__exit__(type(e), e, e.__traceback__)
                        if swallowed:
                            r = -2
                elif c == 4:
                    r = probe_enabled(pc)
            except Exception as e:  # noqa
                r = -1
            done.put(r)

    ths = [threading.Thread(target=worker, args=(i,), daemon=True) for i in range(nthreads)]
    for t in ths:
        t.start()
    out = []
    for tid, c in script:
        qs[tid].put(c)
        r = done.get(timeout=20)
        if c == 4 or (r is not None and r < 0):
            out.append(r)
    for q in qs:
        q.put(None)
    for t in ths:
        t.join(timeout=5)
    return out


def run_with_prog(prog):
    """prog: nested program executed with genuine `with` statements in a fresh context.
    node: ["probe"] | ["raise"] | ["with", ignore, [nodes]] | ["try", [nodes]]"""
    from pyrtma.validators import disable_message_validation
    pc = _probe_cls()
    out = []

    def ex(nodes):
        for n in nodes:
            if n[0] == "probe":
                out.append(probe_enabled(pc))
            elif n[0] == "raise":
                raise _Boom()
            elif n[0] == "with":
                with disable_message_validation(ignore=bool(n[1])):
                    ex(n[2])
            elif n[0] == "try":
                try:
                    ex(n[1])
                except _Boom:
                    pass

    def top():
        try:
            ex(prog)
        except _Boom:
            pass

    contextvars.Context().run(top)
    return out


# ---------------------------------------------------------------------------------------------
# codecs (C10)

def run_codec(c, classes):
    """c: {"cls": i, "sets": [op-like assignments applied in order to a zero message], "hdr": {...}|None}"""
    import pyrtma.message as pm
    from pyrtma.message import Message
    from pyrtma.header import MessageHeader
    cls = classes[c["cls"]]
    msg = cls()
    res = dict(set_excs=[])
    for op in c["sets"]:
        try:
            leaf = navigate(msg, op.get("path", []))
            key = mkkey(op.get("key"))
            val = mkval(op["val"], classes)
            if key is None:
                setattr(leaf, op["field"], val)
            else:
                getattr(leaf, op["field"])[key] = val
            res["set_excs"].append(0)
        except Exception as e:  # noqa
            res["set_excs"].append(exc_code(e))
    orig = bytes(msg)
    res["orig"] = orig.hex()

    def attempt(fn):
        try:
            m2 = fn()
            return dict(code=0, bytes=bytes(m2).hex())
        except Exception as e:  # noqa
            return dict(code=exc_code(e), exc=type(e).__name__, msg=str(e)[:160])

    res["bytes_rt"] = attempt(lambda: cls.from_buffer_copy(bytes(msg)))
    res["dict_rt"] = attempt(lambda: cls.from_dict(msg.to_dict()))
    res["json_rt"] = attempt(lambda: cls.from_json(msg.to_json()))
    res["json_min_rt"] = attempt(lambda: cls.from_json(msg.to_json(minify=True)))
    try:
        res["json_text"] = msg.to_json(minify=True)[:4000]
    except Exception as e:  # noqa
        res["json_text"] = "EXC " + type(e).__name__
    # copy: equal bytes, disjoint storage (mutate the copy, re-read the original, and vice versa)
    try:
        cp = cls.copy(msg)
        r = dict(code=0, bytes=bytes(cp).hex())
        ctypes.memset(ctypes.addressof(cp), 0xA5, ctypes.sizeof(cp))
        r["orig_after_copy_mutation"] = bytes(msg).hex()
        cp2 = cls.copy(msg)
        ctypes.memset(ctypes.addressof(msg), 0x5A, ctypes.sizeof(msg))
        r["copy_after_orig_mutation"] = bytes(cp2).hex()
        ctypes.memmove(ctypes.addressof(msg), orig, len(orig))
        res["copy"] = r
    except Exception as e:  # noqa
        res["copy"] = dict(code=exc_code(e), exc=type(e).__name__)
    hd = c.get("hdr")
    if hd is not None and hasattr(cls, "type_id"):
        saved = pm._get_msg_defs() if False else dict(pm._msg_defs)
        try:
            pm._msg_defs.clear()
            for i in hd.get("registry", []):
                pm._msg_defs[classes[i].type_id] = classes[i]
            from pyrtma.header import get_header_cls
            hdr = get_header_cls(bool(hd.get("timecode")))()      # each shipped header class: plain / timecode
            res["hdr_cls"] = type(hdr).__name__
            hexc = []
            for name, v in hd["fields"]:
                try:
                    setattr(hdr, name, mkval(v, classes))
                    hexc.append(0)
                except Exception as e:  # noqa
                    hexc.append(exc_code(e))
            res["hdr_set_excs"] = hexc
            res["hdr_orig"] = bytes(hdr).hex()
            full = Message(hdr, msg)

            def rt():
                m2 = Message.from_json(full.to_json(minify=bool(hd.get("minify"))))
                return m2

            try:
                m2 = rt()
                res["msg_rt"] = dict(code=0, hdr=bytes(m2.header).hex(), data=bytes(m2.data).hex(),
                                     cls=type(m2.data).__name__, hdr_cls=type(m2.header).__name__)
            except Exception as e:  # noqa
                res["msg_rt"] = dict(code=exc_code(e), exc=type(e).__name__, msg=str(e)[:160])
            # the same JSON without its "data" member (what a web client may send for a signal)
            try:
                j = json.loads(full.to_json(minify=True))
                j.pop("data", None)
                m3 = Message.from_json(json.dumps(j))
                res["msg_rt_nodata"] = dict(code=0, hdr=bytes(m3.header).hex(), data=bytes(m3.data).hex())
            except Exception as e:  # noqa
                res["msg_rt_nodata"] = dict(code=exc_code(e), exc=type(e).__name__)
            try:
                cp = Message.copy(full)
                r = dict(code=0, hdr=bytes(cp.header).hex(), data=bytes(cp.data).hex(),
                         hdr_cls=type(cp.header).__name__, data_cls=type(cp.data).__name__)
                ctypes.memset(ctypes.addressof(cp.data), 0xA5, ctypes.sizeof(cp.data))
                ctypes.memset(ctypes.addressof(cp.header), 0xA5, ctypes.sizeof(cp.header))
                r["orig_after"] = bytes(full.header).hex() + "|" + bytes(full.data).hex()
                res["msg_copy"] = r
            except Exception as e:  # noqa
                res["msg_copy"] = dict(code=exc_code(e), exc=type(e).__name__)
        finally:
            pm._msg_defs.clear()
            pm._msg_defs.update(saved)
    return res


def main():
    job = json.load(sys.stdin)
    workdir = Path(tempfile.mkdtemp(prefix="vvalues_"))
    out = {}
    try:
        classes = build_classes(job, workdir) if (job.get("classes") or job.get("imports")) else []
        if job.get("layout"):
            out["layout"] = [layout(c) for c in classes]
            out["specs"] = job.get("_all_specs", [])
            out["compile_error"] = job.get("_compile_error")
        # every op in a fresh context, so that a leaked flag cannot contaminate later observations
        out["ops"] = [contextvars.Context().run(run_op, op, classes) for op in job.get("ops", [])]
        out["flags"] = [run_flag_script(s["script"], s["threads"]) for s in job.get("flags", [])]
        out["withs"] = [run_with_prog(p) for p in job.get("withs", [])]
        out["codec"] = [contextvars.Context().run(run_codec, c, classes) for c in job.get("codec", [])]
    finally:
        shutil.rmtree(workdir, ignore_errors=True)
    json.dump(out, sys.stdout)


if __name__ == "__main__":
    main()
