"""Shared helpers for the definition-compiler family (C04 C11 C12 C13 C15 C16)."""
from __future__ import annotations

import json
import os
import random
import subprocess
import sys
from concurrent.futures import ThreadPoolExecutor
from pathlib import Path
from typing import Dict, List, Optional, Sequence, Tuple

from .framework import VERIF, PY, NCPU, impl_env, CoqFamily, coq_bool, coq_zlist
from . import gen_defs

FAM = CoqFamily("defs", "Defs")


def run_impl(cases: List[dict], nproc: int = NCPU, timeout: int = 1800) -> List[dict]:
    """Run the real parser/compiler on the cases (subprocess workers, in order)."""
    if not cases:
        return []
    nproc = max(1, min(nproc, len(cases)))
    chunks = [cases[i::nproc] for i in range(nproc)]

    def work(ch):
        p = subprocess.run([PY, str(VERIF / "vlib" / "defs_worker.py")], input=json.dumps(ch),
                           capture_output=True, text=True, env=impl_env(), timeout=timeout, cwd="/")
        if p.returncode != 0:
            raise RuntimeError("defs_worker failed: " + p.stderr[-1500:])
        return json.loads(p.stdout)

    with ThreadPoolExecutor(nproc) as ex:
        rs = list(ex.map(work, chunks))
    out: List[Optional[dict]] = [None] * len(cases)
    for k, r in enumerate(rs):
        for j, x in enumerate(r):
            out[k + j * nproc] = x
    return out  # type: ignore


# native type names by size, from the real parser table (read via the translator,
# so the generator follows the code)
def native_names() -> Dict[int, List[str]]:
    from .translate import tables
    d: Dict[int, List[str]] = {}
    for key, name, size, fmt in tables.parser_supported_types():
        d.setdefault(size, []).append(key)
    return d


def yaml_struct(name: str, fields) -> str:
    """fields: list of (fname, type_text, length|None) or a str (reuse)"""
    lines = [f"  {name}:"]
    if isinstance(fields, str):
        lines.append(f"    fields: {fields}")
    else:
        lines.append("    fields:")
        for fn, ty, ln in fields:
            lines.append(f"      {fn}: {ty}" + (f"[{ln}]" if ln is not None else ""))
    return "\n".join(lines)


def regen_or_report(chk) -> bool:
    errs = gen_defs.regen()
    for f, e in errs:
        chk.broken_obligation(f"translator failed closed for Gen/{f}", e)
    return not errs
