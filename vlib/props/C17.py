"""C17 - the data logger loses, duplicates and reorders nothing; files complete after stop.

proof:          coq/logger  Props/C17.v: C17_holds - the full statement for every configuration, every recorder program,
                            EVERY schedule, any number of steps, over Model/LoggerFixed.v = the CURRENT hand-off (since
                            510a13f); C17_token; format theorems.  (Props/C17Before.v: the racy hand-off of the code
                            before 510a13f, historical - compiled and audited, nothing of it is claimed.)
translator:     vlib/gen_logger.py -> coq/logger/Gen/LoggerConsts.v: constants, header layouts and, fail-closed, the SHAPE
                of the hand-off in data_collection.py (set() in __init__, the write_finished gate in update(), the
                unconditional wait in stop(), stage/clear/set in trigger_write, clear-before-set in write()).
correspondence: the REAL DataCollection / DataSet / formatters under a cooperative deterministic scheduler
                (vlib/logger_worker.py) vs Model/LoggerFixed.v evaluated by vm_compute on the same program and schedule:
                per data set and sub-file the message ids written, warnings, exceptions, the executed thread trace,
                the stale flag; on a subset also the file BYTES vs Model/Formats.v `render` and the reader models.
spec oracle:    on the real files only: exactly the selected arrivals, once, in order, contents equal.  No suppression:
                a loss / writer crash (the defect fixed by 510a13f, known_findings.d/logger.txt `fixed:` lines) is a
                VIOLATION again if it ever returns.
"""
from __future__ import annotations

import json
import random
from typing import Dict, List, Optional, Tuple

from ..framework import Check, coq_zlist
from ..logger_common import (FAM, ALL_TYPES, HEADER, run_impl, explore_many, oracle, coq_case, coq_cfgs, coq_prog, coq_sched,
                             impl_flat, selected)
from .. import gen_logger

THEOREMS = ["C17_gen_consts", "C17_holds", "C17_holds_run", "C17_token", "C17_nonvacuous", "C17_on_old_witness",
            "C17_raw_file", "C17_json_file", "C17_ql_file", "C17_ql_file_single_write", "C17_ql_file_multi_write",
            "C17_files"]
KEY = "stale-write-finished"     # the class fixed by 510a13f; only used to NAME a failure, never to suppress it

# byte-level: model with full messages; expected = per data set, per file: the bytes on disk and the ids the package's
# reader returned
HEADER_BYTES = """From Coq Require Import ZArith List Bool.
From Logr Require Import Gen.LoggerConsts Model.Formats Model.Logger Model.LoggerFixed.
Import ListNotations. Open Scope Z_scope.
Fixpoint zl_eqb (a b : list Z) : bool :=
  match a, b with [], [] => true | x :: r, y :: s => (x =? y) && zl_eqb r s | _, _ => false end.
Fixpoint zll_eqb (a b : list (list Z)) : bool :=
  match a, b with [], [] => true | x :: r, y :: s => zl_eqb x y && zll_eqb r s | _, _ => false end.
Definition hdr_count (h : list Z) : Z := de32 (firstn 4 (skipn 4 h)).
(* ids recovered by the MODEL readers from the REAL bytes *)
Definition read_ids (k : fmt) (bs : list Z) (nlines : Z) : option (list Z) :=
  match k with
  | FRaw => match read_raw bs with Some l => Some (map (fun hd => hdr_count (fst hd)) l) | None => None end
  | FQL => match read_ql bs with Some l => Some (map (fun hd => hdr_count (fst hd)) l) | None => None end
  | FJson => match read_json bs with Some l => Some (map (fun _ => 0) l) | None => None end
  end.
Definition opt_eqb (a : option (list Z)) (b : list Z) : bool := match a with Some x => zl_eqb x b | None => false end.
Definition check_ds (d : dstate) (exp : list (list Z * list Z)) : bool :=
  let k := c_fmt (d_cfg d) in
  zll_eqb (map (render k) (d_files d)) (map fst exp) &&
  forallb (fun e => opt_eqb (read_ids k (fst e) 0) (match k with FJson => map (fun _ => 0) (snd e) | _ => snd e end)) exp.
Fixpoint check_all (ds : list dstate) (exp : list (list (list Z * list Z))) : bool :=
  match ds, exp with [], [] => true | d :: r, e :: s => check_ds d e && check_all r s | _, _ => false end.
Definition check_case (c : list cfg * list op * list tid * list (list (list Z * list Z))) : bool :=
  let '(cfgs, prog, sched, exp) := c in
  let s := runF cfgs prog sched in
  negb (crashed s) && finished s && check_all (s_ds s) exp.
"""


# ---- generators ------------------------------------------------------------------------------------------------

def ds(name: str, fmt: str, interval: int = 0, types: Optional[List[int]] = None) -> dict:
    return dict(name=name, fmt=fmt, interval=interval, types=[ALL_TYPES] if types is None else types)


FMTS = ["raw", "json", "quicklogger"]
MT = [1001, 1002, 1003, 1004]


def fixed_cases() -> List[Tuple[str, dict]]:
    """sequences of length 0, 1, single flush, multi flush, subdivision, pause/resume, stop -> start -> record again"""
    out = []
    for f in FMTS:
        d1 = [ds("d0", f)]
        out.append((f"len0-{f}", dict(datasets=d1, prog=[["start"], ["stop"]])))
        out.append((f"len1-{f}", dict(datasets=d1, prog=[["start"], ["upd", 1, 1002], ["stop"]])))
        out.append((f"zero-size-{f}", dict(datasets=d1, prog=[["start"], ["upd", 1, 1004], ["upd", 2, 1004], ["stop"]])))
        out.append((f"single-flush-{f}", dict(datasets=d1, prog=[["start"], ["upd", 1, 1001], ["tick", 16], ["upd", 2, 1003],
                                                                 ["upd", 3, 1002], ["stop"]])))
        out.append((f"multi-flush-{f}", dict(datasets=d1, prog=[["start"], ["upd", 1, 1001], ["tick", 16], ["upd", 2, 1003],
                                                                ["tick", 16], ["upd0"], ["upd", 3, 1002], ["tick", 16],
                                                                ["upd", 4, 1004], ["stop"]])))
        d2 = [ds("d0", f, 30)]
        out.append((f"subdivide-{f}", dict(datasets=d2, prog=[["start"], ["upd", 1, 1001], ["tick", 31], ["upd", 2, 1003],
                                                              ["tick", 31], ["upd", 3, 1002], ["upd", 4, 1001], ["stop"]])))
        out.append((f"subdivide-clamp-{f}", dict(datasets=[ds("d0", f, 7), ds("d1", f, 5000, [1001])],
                                                 prog=[["start"], ["upd", 1, 1001], ["tick", 29], ["upd", 2, 1001], ["tick", 2],
                                                       ["upd", 3, 1001], ["tick", 600], ["upd", 4, 1001], ["stop"]])))
        out.append((f"pause-{f}", dict(datasets=d1, prog=[["start"], ["upd", 1, 1001], ["pause"], ["upd", 2, 1001], ["tick", 20],
                                                          ["resume"], ["upd", 3, 1001], ["tick", 16], ["upd", 4, 1001], ["stop"]])))
        out.append((f"restart-{f}", dict(datasets=d1, prog=[["start"], ["upd", 1, 1001], ["tick", 16], ["upd", 2, 1002], ["stop"],
                                                            ["upd", 3, 1001], ["start"], ["upd", 4, 1003], ["tick", 16],
                                                            ["upd", 5, 1001], ["stop"]])))
        out.append((f"readd-between-recordings-{f}", dict(datasets=d1, prog=[["start"], ["upd", 1, 1001], ["upd", 2, 1002], ["tick", 16],
                                                                               ["upd", 3, 1003], ["stop"], ["readd"], ["start"],
                                                                               ["upd", 4, 1001], ["upd", 5, 1004], ["tick", 16],
                                                                               ["upd", 6, 1002], ["upd", 7, 1003], ["stop"], ["readd"],
                                                                               ["start"], ["upd", 8, 1001], ["stop"]])))
        out.append((f"restart-after-pause-{f}", dict(datasets=d2, prog=[["start"], ["tick", 10], ["pause"], ["resume"], ["upd", 1, 1001],
                                                                        ["stop"], ["start"], ["tick", 6], ["upd", 2, 1001],
                                                                        ["upd", 3, 1001], ["stop"]])))
    out.append(("three-sets", dict(datasets=[ds("d0", "raw"), ds("d1", "quicklogger", 30, [1001, 1004, -5]), ds("d2", "json", 0, [1002])],
                                   prog=[["start"], ["upd", 1, 1001], ["upd", 2, 1002], ["tick", 16], ["upd", 3, 1004], ["tick", 16],
                                         ["upd", 4, 1001], ["stop"]])))
    out.append(("no-selection", dict(datasets=[ds("d0", "quicklogger", 0, []), ds("d1", "raw", 0, [0, -1])],
                                     prog=[["start"], ["upd", 1, 1001], ["tick", 16], ["upd", 2, 1002], ["stop"]])))
    out.append(("guards", dict(datasets=[ds("d0", "raw")], prog=[["stop"], ["upd", 1, 1001], ["start"], ["start"], ["upd", 2, 1001],
                                                                 ["stop"], ["stop"]])))
    return out


def rand_program(rng: random.Random, maxlen: int = 10) -> List[list]:
    n = rng.randint(3, maxlen)
    prog: List[list] = [["start"]]
    mid = 1
    rec = True
    while len(prog) < n - 1:
        r = rng.random()
        if r < 0.45:
            prog.append(["upd", mid, rng.choice(MT)])
            mid += 1
        elif r < 0.70:
            prog.append(["tick", rng.choice([1, 5, 16, 16, 16, 31, 40])])
        elif r < 0.78:
            prog.append(["upd0"])
        elif r < 0.84:
            prog.append(["pause"])
        elif r < 0.90:
            prog.append(["resume"])
        elif r < 0.96:
            prog.append(["stop"] if rec else ["start"])
            rec = not rec
            if not rec and rng.random() < 0.35:
                prog.append(["readd"])      # reconfigured between recordings with the same settings
        else:
            prog.append(["start"] if rng.random() < 0.5 else ["stop"])
    prog.append(["stop"])
    return prog


def rand_datasets(rng: random.Random) -> List[dict]:
    k = rng.choice([1, 1, 2, 2, 3])
    out = []
    for i in range(k):
        out.append(ds(f"d{i}", rng.choice(FMTS), rng.choice([0, 0, 30, 10, 45, 700, -3]),
                      rng.choice([[ALL_TYPES], [ALL_TYPES], [1001], [1002, 1003], [1001, 1004, -5], [1003, ALL_TYPES], []])))
    return out


def rand_schedule(rng: random.Random, n: int = 70) -> List[int]:
    out: List[int] = []
    pw = rng.choice([0.2, 0.35, 0.5, 0.65])
    while len(out) < n:
        t = 1 if rng.random() < pw else 0
        out += [t] * rng.randint(1, 5)
    return out[:n]


# ---- byte-level cases -------------------------------------------------------------------------------------------------

def coq_msg(i: int, t: int, sent: dict) -> str:
    h, d, j = sent[str(i)]
    return f"(mkMsg {i} {t} {coq_zlist(h)} {coq_zlist(d)} {coq_zlist(j)})"


def coq_prog_bytes(prog: List[list], sent: dict) -> str:
    out = []
    for op in prog:
        k = op[0]
        if k == "upd":
            out.append(f"Upd (Some {coq_msg(op[1], op[2], sent)})")
        elif k == "upd0":
            out.append("Upd None")
        elif k == "tick":
            out.append(f"Tick {op[1]}")
        elif k == "readd":
            continue
        else:
            out.append(dict(start="Start", stop="Stop", pause="Pause", resume="Resume")[k])
    return "[" + "; ".join(out) + "]"


def coq_case_bytes(case: dict, res: dict) -> str:
    exp = []
    for d in case["datasets"]:
        fl = res["files"].get(d["name"], [])
        exp.append("[" + "; ".join(f"({coq_zlist(f['bytes'])}, {coq_zlist(f['ids'])})" for f in fl) + "]")
    return (f"({coq_cfgs(case['datasets'])}, {coq_prog_bytes(case['prog'], res['sent'])}, {coq_sched(res['trace'])}, "
            f"[{'; '.join(exp)}])")


# ---- the check ----------------------------------------------------------------------------------------------------------

def classify(case: dict, res: dict) -> Optional[Tuple[str, str]]:
    """(key, description) of a C17 violation visible in the real run, else None"""
    o = oracle(case, res)
    if o is None:
        return None
    kind, desc = o
    key = f"{KEY}:{kind}" if res.get("stale") else kind
    return key, desc


def run(chk: Check):
    rng = random.Random(chk.seed)
    thorough = chk.tier == "thorough"
    errs = gen_logger.regen()
    for f, e in errs:
        chk.broken_obligation(f"translator failed closed for Gen/{f}", e)
    # a failed translation is a broken obligation, not the end of the run: the theorems are then checked against the last
    # generated constants and the failing-input search (correspondence + spec oracle on the real code) still runs
    chk.prove(FAM, "Props.C17", THEOREMS, extra_targets=["Props/C17Before.vo"])
    chk.cov["checker_cmd"] = "cd coq/logger && make Props/C17.vo Props/C17Before.vo  (coqc 8.16.1, full .vo)"
    if thorough:
        for mod in ("Props.C17",):
            okc, outc = FAM.coqchk(mod)
            if not okc:
                chk.broken_obligation(f"coqchk rejected {mod}", outc[-600:])
            else:
                chk.cov["trusted_base"].append(f"coqchk -o {mod}: " + " ".join(outc.split())[-400:])

    dist: Dict[str, int] = {}
    cases: List[dict] = []
    results: List[dict] = []
    tags: List[str] = []

    def add(tag, cs, rs):
        for c, r in zip(cs, rs):
            cases.append(c)
            results.append(r)
            tags.append(tag)
        dist[tag] = dist.get(tag, 0) + len(cs)

    # (1) fixed shapes: default schedule, writer-first schedule, alternating
    fx = fixed_cases()
    fcs = []
    ftags = []
    for name, c in fx:
        for sname, sched in (("seq", []), ("wfirst", [1] * 80), ("alt", [1, 0] * 60), ("alt3", [1, 0, 0] * 40)):
            fcs.append(dict(c, sched=sched, bytes=False))
            ftags.append("fixed")
    frs = run_impl(fcs)
    add("fixed", [dict(c, sched=r["trace"]) for c, r in zip(fcs, frs)], frs)

    # (2) exhaustive schedules (complete trees): <= 3 updates with one flush and one stop; two flushes incl. the program
    #     whose schedules lost a message / crashed the writer before 510a13f; restart; two data sets
    one_flush = [
        [["start"], ["tick", 16], ["upd", 1, 1001], ["upd", 2, 1002], ["upd", 3, 1001], ["stop"]],
        [["start"], ["upd", 1, 1001], ["tick", 16], ["upd", 2, 1003], ["upd", 3, 1004], ["stop"]],
        [["start"], ["upd", 1, 1002], ["upd", 2, 1001], ["tick", 16], ["upd", 3, 1001], ["stop"]],
    ]
    bases1 = []
    for f in FMTS:
        for k, prog in enumerate(one_flush):
            bases1.append(dict(datasets=[ds("d0", f, 30 if k == 1 else 0)], prog=prog, bytes=False))
    bases1.append(dict(datasets=[ds("d0", "raw", 30), ds("d1", "quicklogger", 0, [1001])],
                       prog=[["start"], ["tick", 31], ["upd", 1, 1001], ["upd", 2, 1002], ["stop"]], bytes=False))
    two_flush = [
        ("raw", 0, [["start"], ["tick", 16], ["upd", 1, 1001], ["tick", 16], ["upd", 2, 1001], ["upd", 3, 1001], ["stop"]]),
        ("quicklogger", 30, [["start"], ["upd", 1, 1001], ["tick", 31], ["upd", 2, 1002], ["tick", 16], ["upd", 3, 1001], ["stop"]]),
        ("json", 0, [["start"], ["tick", 16], ["upd", 1, 1001], ["tick", 16], ["upd", 2, 1003], ["stop"], ["start"], ["upd", 3, 1001],
                     ["tick", 16], ["upd", 4, 1001], ["stop"]]),
    ]
    bases2 = [dict(datasets=[ds("d0", f, iv)], prog=prog, bytes=False) for f, iv, prog in two_flush]
    if thorough:
        bases2.append(dict(datasets=[ds("d0", "quicklogger", 0), ds("d1", "json", 30, [1001])],
                           prog=[["start"], ["tick", 16], ["upd", 1, 1001], ["tick", 16], ["upd", 2, 1001], ["upd", 3, 1002],
                                 ["stop"]], bytes=False))
        bases2.append(dict(datasets=[ds("d0", "raw", 30)],
                           prog=[["start"], ["tick", 16], ["upd", 1, 1001], ["tick", 16], ["upd", 2, 1001], ["tick", 16],
                                 ["upd", 3, 1001], ["stop"]], bytes=False))
    ex = explore_many(bases1 + bases2, 80000 if thorough else 12000)
    exh_complete = all(x[2] for x in ex[:len(bases1)])
    two_complete = all(x[2] for x in ex[len(bases1):])
    for x in ex[:len(bases1)]:
        add("exhaustive-one-flush", x[0], x[1])
    for x in ex[len(bases1):]:
        add("exhaustive-two-flush", x[0], x[1])

    # (3) seeded random programs (length <= 10), data sets and schedules
    nrand = 4000 if thorough else 700
    rcs = [dict(datasets=rand_datasets(rng), prog=rand_program(rng), sched=rand_schedule(rng), bytes=False) for _ in range(nrand)]
    rrs = run_impl(rcs)
    add("random", [dict(c, sched=r["trace"]) for c, r in zip(rcs, rrs)], rrs)

    # (4) byte-level: same, with the file bytes
    nbytes = 240 if thorough else 60
    bcs = []
    for i in range(nbytes):
        prog = [op for op in rand_program(rng, 9)]
        nm = sum(1 for op in prog if op[0] == "upd")
        if nm > 6:
            continue
        bcs.append(dict(datasets=rand_datasets(rng)[:2], prog=prog, sched=rand_schedule(rng, 50), bytes=True))
    brs = run_impl(bcs)

    # harness sanity
    for c, r in zip(cases + bcs, results + brs):
        cr = r.get("crash")
        if (cr and cr["tid"] == -1) or r.get("leak"):
            chk.broken_obligation("harness failure running the implementation", json.dumps(cr)[:500])
            return
    consts = results[0]["consts"]
    if consts.get("header_size") != 48:
        chk.broken_obligation("MessageHeader size differs from the model's 48", str(consts))

    # spec oracle on every real run (independent of the model)
    nviol = 0
    stale_runs = 0
    kinds: Dict[str, int] = {}
    for c, r in zip(cases + bcs, results + brs):
        if r.get("stale"):
            stale_runs += 1
        v = classify(c, r)
        if v:
            nviol += 1
            kinds[v[0]] = kinds.get(v[0], 0) + 1
            if kinds[v[0]] > 1:
                continue            # one replay per failing class (the shortest-prefix one comes first); counts in evidence
            chk.spec_failure(key=v[0], desc=v[1],
                             replay=dict(datasets=c["datasets"], prog=c["prog"], sched=r["trace"], stale=r.get("stale"),
                                         observed=impl_flat(c, r)))

    # correspondence: model vs real code
    coq_cases = [coq_case(c, r) + f"(* {t} *)" for c, r, t in zip(cases, results, tags)]
    bad, log = FAM.eval_cases(HEADER, coq_cases, per_file=250)
    bc_ok = [(c, r) for c, r in zip(bcs, brs) if not r.get("crash") and not r.get("deadlock")]
    bad_b, log_b = FAM.eval_cases(HEADER_BYTES, [coq_case_bytes(c, r) for c, r in bc_ok], per_file=8, tag="b")

    nontrivial = set()
    for c, r in zip(cases, results):
        wr = sum(1 for x in r["trace"] if x == 1)
        switches = sum(1 for a, b in zip(r["trace"], r["trace"][1:]) if a != b)
        nfiles = sum(len(v) for v in r["files"].values())
        if wr >= 5 and switches >= 4 and (len(r["arrivals"]) >= 2):
            nontrivial.add(json.dumps([c["datasets"], c["prog"], r["trace"]]))
    chk.cov["evaluations"] = len(cases) + len(bc_ok)
    chk.cov["traces_validated_against_impl"] = (len(cases) - len([b for b in bad if b >= 0])) + \
        (len(bc_ok) - len([b for b in bad_b if b >= 0]))
    chk.cov["distinct_nontrivial"] = len(nontrivial)
    chk.cov["rule"] = ("recorder program + data-set configs + schedule run on the real DataCollection under the cooperative "
                       "scheduler and on Model/LoggerFixed.v (vm_compute); compared: per data set and sub-file (session, sub index, "
                       "message ids), warning count, exception (which thread), executed thread trace, stale flag; byte cases: "
                       "file bytes vs Formats.render and model readers on the real bytes; non-trivial = >=5 writer steps, >=4 "
                       "thread switches and >=2 recorded messages (distinct by configs+program+trace)")
    dist["byte-level"] = len(bc_ok)
    dist["stale_runs"] = stale_runs
    dist["oracle_failures"] = nviol
    for k, v in kinds.items():
        dist["kind:" + k] = v
    dist["crashed_runs"] = sum(1 for r in results if r.get("crash"))
    dist["max_trace_len"] = max(len(r["trace"]) for r in results)
    dist["formats"] = {f: sum(1 for c in cases for d in c["datasets"] if d["fmt"] == f) for f in FMTS}
    chk.cov["input_distribution"] = dist
    chk.cov["exhaustive"] = bool(exh_complete and two_complete)
    chk.cov["exhaustive_scope"] = ("all schedules (at switch-point granularity) of the one-flush and two-flush programs "
                                   "listed in vlib/props/C17.py (incl. the program and schedules that lost a message / "
                                   "crashed the writer before 510a13f); one_flush_complete=%s two_flush_complete=%s"
                                   % (exh_complete, two_complete))
    if not (exh_complete and two_complete):
        chk.note("schedule tree exploration hit its budget: not exhaustive this run")
    chk.add_samples([dict(datasets=cases[i]["datasets"], prog=cases[i]["prog"], trace="".join(map(str, results[i]["trace"])),
                          observed=impl_flat(cases[i], results[i]), stale=results[i].get("stale"))
                     for i in (0, len(cases) // 3, len(cases) // 2, len(cases) - 1)])
    chk.assumptions += [
        "granularity: interleavings at the synchronisation operations (Event.is_set/set/clear/wait, Thread.join), "
        "DataSet.stage_for_write / DataSet.write and the outermost formatter.write / finalize entry; code between two "
        "switch points is atomic (GIL-level preemption inside a formatter call or inside stage_for_write is not modelled)",
        "Event.wait(timeout) is modelled as blocking until the flag is set (writer: or until the collection closes)",
        "time.time() is a virtual integral clock; WRITE_PERIOD / MIN / MAX intervals are read from the code on every run",
        "start while recording / stop while not recording are skipped (DataLogger.start_logging / stop_logging guards)",
        "use_thread=False is out of scope: the constructor only sets the attribute when it is true (AttributeError otherwise)",
        "file system durability, DataSetExistsError (fresh directories are used), Uint32 overflow of quicklogger header "
        "counters (>4 GiB files) are not modelled; JSON line -> message decoding is C10's subject (checked here on the real "
        "files by Message.from_json equality only)",
        "the hand-off shape modelled by Model/LoggerFixed.v is located in data_collection.py by the translator on every run "
        "(fail closed); the stale write_finished.set() of the code before 510a13f is proved impossible (C17_token) and "
        "recomputed independently from every real run by the harness (must be false)",
    ]

    for b in bad[:3]:
        if b >= 0:
            chk.broken_obligation("correspondence Model/LoggerFixed.v vs DataCollection differs",
                                  f"tag={tags[b]} case={coq_cases[b][:700]} crash={results[b].get('crash')}")
        else:
            chk.broken_obligation("correspondence shard failed to evaluate", log[-600:])
    for b in bad_b[:2]:
        if b >= 0:
            c, r = bc_ok[b]
            chk.broken_obligation("byte-level correspondence Model/Formats.v vs formatter output / reader differs",
                                  json.dumps(dict(datasets=c["datasets"], prog=c["prog"], trace=r["trace"]))[:600])
        else:
            chk.broken_obligation("byte-level shard failed to evaluate", log_b[-600:])


def replay(path: str) -> int:
    d = json.load(open(path))
    r = d["replay"]
    case = dict(datasets=r["datasets"], prog=r["prog"], sched=r["sched"], bytes=False)
    res = run_impl([case])[0]
    v = classify(case, res)
    print(json.dumps(dict(trace=res["trace"], crash=res["crash"], stale=res.get("stale"), files=res["files"],
                          arrivals=res["arrivals"], verdict=v), indent=1, default=str))
    return 1 if v else 0
