"""C11 - accepted layouts are naturally aligned with only explicit padding."""
from __future__ import annotations

import itertools
import json
import random
import re
from typing import Dict, List, Optional, Tuple

import os
import shutil
import subprocess
import tempfile
from concurrent.futures import ThreadPoolExecutor
from pathlib import Path

from ..framework import Check, coq_bool, coq_zlist, PY, impl_env
from ..defs_common import FAM, run_impl, native_names, yaml_struct, regen_or_report

THEOREMS = ["C11_natives_wf", "C11_aligned", "C11_autopad_only_adds_char_padding", "C11_nopad_iff",
            "C11_nopad_unchanged", "C11_autopad_total", "C11_only_alignment_error", "C11_size",
            "C11_size_rejects", "C11_nested_closed", "C11_ex_padded", "C11_ex_nopad", "C11_ex_rejected"]

ERR = {"AlignmentError": 1, "InvalidMessageSize": 2, "AssertionError": 3, "RuntimeError": 4}

HEADER = """From Coq Require Import ZArith List Bool String.
From Defs Require Import Gen.TypeTables Model.Layout Model.Closure.
Import ListNotations. Open Scope string_scope. Open Scope Z_scope.
Fixpoint zl_eqb (a b : list Z) : bool :=
  match a, b with [], [] => true | x :: r, y :: s => (x =? y) && zl_eqb r s | _, _ => false end.
Definition last3 (l : list Z) : list Z := rev (firstn 3 (rev l)).
Definition N (s : string) (l : Z) : fdecl := mkFdecl (TNat s) (if l <? 0 then None else Some l).
Definition R (k : nat) (l : Z) : fdecl := mkFdecl (TRef k) (if l <? 0 then None else Some l).
Definition check_case (c : (bool * bool * list sdecl) * (bool * list Z)) : bool :=
  let '((va, ap, ds), (ok, exp)) := c in
  let out := run_closure va ap [] 0 ds in
  if ok then zl_eqb out exp else zl_eqb (last3 out) exp.
"""


# ---- closure description used by generator, YAML writer, Coq writer, oracle ----
# struct := ("fields", [(kind, ref, length)])  kind "n": ref = native name ; kind "r": ref = struct index
#         | ("reuse", k)

def to_yaml(structs) -> str:
    parts = ["struct_defs:"]
    for i, s in enumerate(structs):
        if s[0] == "reuse":
            parts.append(yaml_struct(f"S{i}", f"S{s[1]}"))
        else:
            fl = []
            for j, (kind, ref, ln) in enumerate(s[1]):
                fl.append((f"f{j}", ref if kind == "n" else f"S{ref}", ln))
            parts.append(yaml_struct(f"S{i}", fl))
    return "\n".join(parts) + "\n"


def to_yaml2(structs, m: int) -> Dict[str, str]:
    """two files: the first m structs live in types.yaml, which root.yaml imports; root.yaml declares an alias
    AL<k>: S<k> for each of them (an alias of a struct needs the struct to come from an imported file: aliases are
    processed before struct_defs within one file) and the remaining structs.  kind "a" = field typed by alias AL<ref>."""
    def body(lo, hi):
        parts = ["struct_defs:"]
        for i in range(lo, hi):
            st = structs[i]
            if st[0] == "reuse":
                parts.append(yaml_struct(f"S{i}", f"S{st[1]}"))
            else:
                fl = [(f"f{j}", ref if kind == "n" else (f"AL{ref}" if kind == "a" else f"S{ref}"), ln)
                      for j, (kind, ref, ln) in enumerate(st[1])]
                parts.append(yaml_struct(f"S{i}", fl))
        return "\n".join(parts) + "\n"
    root = "imports:\n  - sub/types.yaml\naliases:\n" + "".join(f"  AL{k}: S{k}\n" for k in range(m)) + body(m, len(structs))
    return {"sub/types.yaml": body(0, m), "root.yaml": root}


def to_coq(structs) -> str:
    ds = []
    for s in structs:
        if s[0] == "reuse":
            ds.append(f"SReuse {s[1]}")
        else:
            fs = []
            for kind, ref, ln in s[1]:
                l = -1 if ln is None else ln
                ls = f"({l})" if l < 0 else str(l)
                fs.append(f'N "{ref}" {ls}' if kind == "n" else f"R {ref} {ls}")    # kind "a" (alias of struct k) is struct k
            ds.append("SFields [" + "; ".join(fs) + "]")
    return "[" + "; ".join(ds) + "]"


def impl_flat(res: dict) -> Tuple[bool, List[int]]:
    if res["ok"]:
        out: List[int] = []
        for s in res["structs"]:
            out += [1, s["alignment"], s["size"], len(s["fields"])]
            for f in s["fields"]:
                pad = 1 if re.fullmatch(r"padding_\d+_", f["name"]) else 0
                ln = f["length"]
                out += [pad, f["base_size"], f["alignment"], -1 if ln is None else int(ln), f["offset"]]
        return True, out
    m = re.search(r"\bS(\d+)\b", res.get("msg", ""))
    idx = int(m.group(1)) if m else -1
    return False, [0, ERR.get(res["exc"], 99), idx]


# ---- independent spec oracle on implementation output ---------------------------

def natural_layout(fields: List[Tuple[int, int]]) -> Tuple[List[int], int, int]:
    """fields: (size, align) -> (offsets, sizeof, align) : System V natural layout"""
    ptr, offs, ma = 0, [], 1
    for sz, al in fields:
        o = (ptr + al - 1) // al * al
        offs.append(o)
        ptr = o + sz
        ma = max(ma, al)
    return offs, (ptr + ma - 1) // ma * ma, ma


def oracle(structs, auto_pad: bool, res: dict, limit: int, nat_size: Dict[str, int]) -> Optional[str]:
    """Return a description of a C11 violation visible in the implementation's own output, else None."""
    # true (C) size/alignment of each declared struct, computed from the declarations alone
    true: List[Tuple[int, int, List[Tuple[int, int]]]] = []  # per struct: size, align, user fields (size, align)
    needs_pad_idx = None
    for i, s in enumerate(structs):
        if s[0] == "reuse":
            uf = true[s[1]][2]
        else:
            uf = []
            for kind, ref, ln in s[1]:
                if kind == "n":
                    sz = al = nat_size[ref]
                else:
                    sz, al = true[ref][0], true[ref][1]
                uf.append((sz * (ln if ln is not None else 1), al))
        offs, so, al = natural_layout(uf)
        packed = sum(x for x, _ in uf)
        if needs_pad_idx is None and (so != packed):
            needs_pad_idx = i
        # with auto padding the emitted struct has natural size `so`
        true.append((so, al, uf))
    too_big = next((i for i, t in enumerate(true) if t[0] > limit), None)
    if not res["ok"]:
        if res["exc"] == "AlignmentError":
            if auto_pad:
                return "AlignmentError raised although auto_pad is on"
            if needs_pad_idx is None:
                return "rejected with AlignmentError although the natural layout needs no padding"
            return None
        if res["exc"] == "InvalidMessageSize":
            return None if too_big is not None else "InvalidMessageSize for a definition within the limit"
        return f"internal error {res['exc']}: {res['msg'][:120]}"
    if not auto_pad and needs_pad_idx is not None:
        return f"S{needs_pad_idx} accepted with auto_pad off although it needs padding"
    if too_big is not None:
        return f"S{too_big} accepted although its size {true[too_big][0]} exceeds {limit}"
    for i, s in enumerate(res["structs"]):
        ptr = 0
        user = []
        for f in s["fields"]:
            ispad = re.fullmatch(r"padding_\d+_", f["name"]) is not None
            if ptr % f["alignment"] != 0:
                return f"{s['name']}.{f['name']} at offset {ptr} not a multiple of its alignment {f['alignment']}"
            if not ispad and f["offset"] != ptr:
                return f"{s['name']}.{f['name']} recorded offset {f['offset']} != running sum {ptr}"
            if ispad:
                if f["type_name"] != "char" or f["base_size"] != 1:
                    return f"{s['name']}.{f['name']} padding is not char"
            else:
                user.append((f["size"], f["alignment"]))
            ptr += f["size"]
        if ptr != s["size"]:
            return f"{s['name']} size {s['size']} != sum of fields {ptr}"
        if user != true[i][2]:
            return f"{s['name']} user fields changed: {user} vs declared {true[i][2]}"
        if s["size"] != true[i][0] or s["alignment"] != true[i][1]:
            return (f"{s['name']} size/alignment {s['size']}/{s['alignment']} differ from the natural C layout "
                    f"{true[i][0]}/{true[i][1]}")
        if s["size"] % s["alignment"] != 0:
            return f"{s['name']} size not a multiple of alignment"
        if not auto_pad and len(user) != len(s["fields"]):
            return f"{s['name']} padded although auto_pad is off"
    pr = res.get("probe")
    if pr is not None:
        if "error" in pr:
            return "generated C header does not compile: " + pr["error"][:200]
        for s in res["structs"]:
            g = pr.get(s["name"])
            if g is None:
                return f"{s['name']} missing from C header"
            if g["size"] != s["size"]:
                return f"{s['name']}: gcc sizeof {g['size']} != recorded {s['size']}"
            ptr = 0
            for f in s["fields"]:
                if g["offs"].get(f["name"]) != ptr:
                    return f"{s['name']}.{f['name']}: gcc offsetof {g['offs'].get(f['name'])} != {ptr}"
                ptr += f["size"]
    return None


# ---- generators ---------------------------------------------------------------

def gen_cases(rng: random.Random, tier: str, names: Dict[int, List[str]]):
    """yield (structs, auto_pad, probe_c, tag)"""
    def nm(sz):
        c = [n for n in names[sz] if n != "signed char"]
        return rng.choice(c)
    kinds = []
    for sz in (1, 2, 4, 8):
        kinds.append((sz, None))
        kinds.append((sz, 2))
        kinds.append((sz, 3))
    seqs = [list(t) for n in (1, 2, 3) for t in itertools.product(kinds, repeat=n)]
    # auto_pad on: batches of 100 independent structs with the C probe
    for b in range(0, len(seqs), 100):
        structs = [("fields", [("n", nm(sz), ln) for sz, ln in s]) for s in seqs[b:b + 100]]
        yield structs, True, True, "exh3-pad"
    # auto_pad off: one struct per closure (a rejection aborts the whole parse)
    sub = seqs if tier == "thorough" else [s for s in seqs if len(s) <= 2] + rng.sample([s for s in seqs if len(s) == 3], 250)
    for s in sub:
        yield [("fields", [("n", nm(sz), ln) for sz, ln in s])], False, False, "exh3-nopad"
    # nested / arrays of structs / reuse
    n_nested = 400 if tier == "thorough" else 80
    for _ in range(n_nested):
        structs = []
        ns = rng.randint(2, 6)
        for i in range(ns):
            if i > 0 and rng.random() < 0.2:
                structs.append(("reuse", rng.randrange(i)))
                continue
            fl = []
            for _ in range(rng.randint(1, 5 if tier == "quick" else 10)):
                ln = rng.choice([None, None, 1, 2, 3, 5, 7, 9])
                if i > 0 and rng.random() < 0.45:
                    fl.append(("r", rng.randrange(i), ln))
                else:
                    fl.append(("n", nm(rng.choice([1, 2, 4, 8])), ln))
            structs.append(("fields", fl))
        ap = rng.random() < 0.7
        yield structs, ap, ap, "nested"
    # every native type name of parser.supported_types, through the gcc probe: the C spelling the back end chooses for it
    # must have the size / alignment the parser's layout assumes (long = 4 bytes on every platform, etc.)
    every = [n for l in names.values() for n in l]
    by_size = {n: sz for sz, l in names.items() for n in l}
    structs = []
    for t in every:
        structs.append(("fields", [("n", t, None), ("n", t, 3)]))
        structs.append(("fields", [("n", "int32", None), ("n", t, None), ("n", "char", None)]))     # PAIR-like, needs padding for 8
        structs.append(("fields", [("n", "char", None), ("r", len(structs) - 2, 2)]))               # as array element, nested
    yield structs, True, True, "every-native-gcc"
    for t in every:       # auto padding off: two of a kind need none
        yield [("fields", [("n", t, None), ("n", t, 3)]),
               ("fields", [("r", 0, None), ("n", t, None), ("r", 0, 2)])], False, True, "every-native-gcc"
    # fields typed by an ALIAS OF A STRUCT (declared in an imported file): aligned like the struct, not to its size
    pair = ("fields", [("n", "double", None), ("n", "double", None)])            # size 16, alignment 8
    triple = ("fields", [("n", "int32", None), ("n", "int32", None), ("n", "int32", None)])   # size 12, alignment 4
    sixb = ("fields", [("n", "int16", None), ("n", "int16", None), ("n", "int16", None)])     # size 6, alignment 2
    prefixes = [[], [("n", "int32", None)], [("n", "double", None)], [("n", "int32", None), ("n", "int32", None)],
                [("n", "int16", None)], [("n", "double", None), ("n", "int32", None)], [("n", "char", 3)],
                [("n", "int32", None), ("n", "int32", None), ("n", "int32", None)]]
    for ap in (True, False):
        for k in range(3):
            for pre in prefixes:
                for ln in (None, 2):
                    for via in ("a", "r"):       # through the alias, and the same message using the struct directly
                        yield [pair, triple, sixb, ("fields", list(pre) + [(via, k, ln)])], ap, False, "alias-of-struct:3"
    for _ in range(300 if tier == "thorough" else 60):
        m = rng.randint(1, 3)
        structs = []
        for i in range(m):
            structs.append(("fields", [("n", nm(rng.choice([1, 2, 4, 8])), rng.choice([None, None, 2, 3]))
                                       for _ in range(rng.randint(1, 4))]))
        for i in range(m, m + rng.randint(1, 3)):
            fl = []
            for _ in range(rng.randint(1, 5)):
                r = rng.random()
                ln = rng.choice([None, None, 2, 3])
                if r < 0.5:
                    fl.append(("a", rng.randrange(m), ln))
                elif r < 0.6 and i > m:
                    fl.append(("r", rng.randrange(m, i), ln))
                else:
                    fl.append(("n", nm(rng.choice([1, 2, 4, 8])), ln))
            structs.append(("fields", fl))
        # the imported structs must themselves be accepted, otherwise nothing about the alias is observed
        yield structs, True, False, f"alias-of-struct:{m}"
        yield structs, False, False, f"alias-of-struct:{m}"
    # size limit boundary
    big = [
        [("n", "char", 65535)], [("n", "char", 65536)], [("n", "double", 8191), ("n", "char", 5)],
        [("n", "char", 65531), ("n", "int32", None)], [("n", "int32", 16383), ("n", "char", 3)],
        [("n", "int32", 16384)], [("n", "double", 8191), ("n", "char", 7)], [("n", "int16", 32767), ("n", "char", None)],
        [("n", "char", 65529), ("n", "double", None)], [("n", "char", 65527), ("n", "double", None)],
    ]
    for fl in big:
        yield [("fields", fl)], True, False, "size-limit"
        yield [("fields", fl)], False, False, "size-limit"
    # nested struct of alignment 1/2/4 reused then nested (two cooperating sites)
    for a_sz in (1, 2, 4, 8):
        for ap in (True, False):
            s0 = ("fields", [("n", nm(a_sz), None), ("n", nm(a_sz), 3)])
            s1 = ("reuse", 0)
            s2 = ("fields", [("n", nm(a_sz), None), ("r", 1, None), ("r", 1, 2)])
            yield [s0, s1, s2], ap, ap, "reuse-nest"


# ---- the command line: every way of switching automatic padding off ----------------------------------------

CLI_YAML_OPTS = {"absent": None, "AUTO_PAD-true": {"AUTO_PAD": True}, "AUTO_PAD-false": {"AUTO_PAD": False},
                 "VALIDATE_ALIGNMENT-false": {"VALIDATE_ALIGNMENT": False},
                 "AUTO_PAD-false+VALIDATE_ALIGNMENT-true": {"AUTO_PAD": False, "VALIDATE_ALIGNMENT": True}}
CLI_FLAGS = {"none": [], "--no_auto_pad": ["--no_auto_pad"], "--no_val_align": ["--no_val_align"]}


def cli_effective(opts: Optional[dict], flags: List[str]) -> Tuple[bool, bool]:
    """(validate_alignment, auto_pad) the command line must end up with.  Specification taken from compile.py main():
    the defaults (both on) are replaced by the root file's compiler_options, which become the defaults of the
    store_false flags; a flag can only switch a setting off.  An explicit `false` in the YAML switches it off."""
    o = opts or {}
    va = bool(o.get("VALIDATE_ALIGNMENT", True)) and "--no_val_align" not in flags
    ap = bool(o.get("AUTO_PAD", True)) and "--no_auto_pad" not in flags
    return va, ap


def cli_closures(names) -> List[Tuple[str, list]]:
    return [("none-needed", [("fields", [("n", "double", None), ("n", "int32", None), ("n", "int32", None)])]),
            ("leading-inline", [("fields", [("n", "char", None), ("n", "double", None)])]),
            ("trailing", [("fields", [("n", "double", None), ("n", "int32", None)])]),
            ("array-element", [("fields", [("n", "double", None), ("n", "int16", 2), ("n", "int32", None)]),
                               ("fields", [("n", "int32", None), ("n", "int32", None), ("r", 0, 2)])]),
            ("nested-needs-inline", [("fields", [("n", "int64", None)]),
                                     ("fields", [("n", "int16", None), ("r", 0, None), ("n", "char", 8)])])]


def run_cli(yaml_text: str, flags: List[str], fields_of: Optional[List[Tuple[str, List[str]]]]) -> dict:
    """`python -m pyrtma.compile --c -i root.yaml -o out --no_core_import <flags>` in a fresh interpreter"""
    from ..defs_worker import c_probe
    d = Path(tempfile.mkdtemp(prefix="vcli11_"))
    try:
        (d / "root.yaml").write_text(yaml_text)
        (d / "out").mkdir()
        cmd = [PY, "-m", "pyrtma.compile", "--c", "-i", "root.yaml", "-o", "out", "--no_core_import"] + flags
        p = subprocess.run(cmd, cwd=str(d), capture_output=True, text=True, env=impl_env(), timeout=300)
        out = dict(rc=p.returncode, text=(p.stdout + p.stderr)[-1500:], cmd=" ".join(cmd[1:]), probe=None)
        m = re.search(r"^(\w+(?:Error|Size)):", p.stdout + p.stderr, re.M)
        out["exc"] = m.group(1) if m else None
        if p.returncode == 0 and fields_of and (d / "out" / "root.h").exists():
            out["probe"] = c_probe(d / "out" / "root.h", fields_of, d / "out")
        return out
    except Exception as e:  # noqa
        return dict(rc=-1, text=f"{type(e).__name__}: {e}", cmd="", probe=None, exc="HARNESS")
    finally:
        shutil.rmtree(d, ignore_errors=True)


def check_command_line(chk: Check, names, nat_size, dist: Dict[str, int], nontrivial: set) -> Tuple[List[str], int]:
    """returns extra Coq cases (the in-process run at the effective settings, which the command line must reproduce)"""
    combos = [(yo, fl) for yo in CLI_YAML_OPTS for fl in CLI_FLAGS]
    jobs = []
    for cname, structs in cli_closures(names):
        for yo, fl in combos:
            opts = CLI_YAML_OPTS[yo]
            head = "" if opts is None else "compiler_options:\n" + "".join(
                f"  {k}: {'true' if v else 'false'}\n" for k, v in opts.items()) + "\n"
            jobs.append((cname, structs, yo, fl, head + to_yaml(structs)))
    # reference: the parser called directly with the effective settings (this is what goes through the model)
    eff = [cli_effective(CLI_YAML_OPTS[yo], CLI_FLAGS[fl]) for _, _, yo, fl, _ in jobs]
    ref = run_impl([dict(files={"root.yaml": to_yaml(structs)}, root="root.yaml", auto_pad=ap, validate_alignment=va,
                         import_coredefs=False, emit=["c"], probe_c=True)
                    for (_, structs, _, _, _), (va, ap) in zip(jobs, eff)])
    coq_cases = []
    with ThreadPoolExecutor(16) as ex:
        cli = list(ex.map(lambda jr: run_cli(jr[0][4], CLI_FLAGS[jr[0][3]],
                                             [(st["name"], [f["name"] for f in st["fields"]]) for st in jr[1]["structs"]]
                                             if jr[1]["ok"] else None), zip(jobs, ref)))
    for (cname, structs, yo, fl, ytext), (va, ap), r, c in zip(jobs, eff, ref, cli):
        if (r["exc"] or "").startswith("HARNESS") or c.get("exc") == "HARNESS":
            chk.broken_obligation("harness failure on a command-line case", (r["msg"] if r["exc"] else c["text"])[-300:])
            continue
        ok, flat = impl_flat(r)
        coq_cases.append(f"(({coq_bool(va)}, {coq_bool(ap)}, {to_coq(structs)}), ({coq_bool(ok)}, {coq_zlist(flat)}))")
        dist["command-line"] = dist.get("command-line", 0) + 1
        nontrivial.add(("cli", cname, yo, fl))
        # what the property demands for the effective setting, from the declarations alone
        needs = None
        true_sz = []
        for st in structs:
            uf = []
            for kind, refx, ln in st[1]:
                sz, al = (nat_size[refx], nat_size[refx]) if kind == "n" else true_sz[refx]
                uf.append((sz * (ln or 1), al))
            offs, so, al = natural_layout(uf)
            if so != sum(x for x, _ in uf) and needs is None:
                needs = True
            true_sz.append((so, al))
        must_reject = bool(va and not ap and needs)
        rep = dict(yaml=ytext, command=c["cmd"], effective=dict(validate_alignment=va, auto_pad=ap), closure=cname,
                   compiler_options=yo, flag=fl, cli=dict(rc=c["rc"], exc=c.get("exc"), text=c["text"][-400:]))
        tag = f"{yo}/{fl}"
        if must_reject and c["rc"] == 0:
            chk.spec_failure(f"cli:padded-although-auto-pad-is-off:{tag}",
                             f"{cname}: `{c['cmd']}` with compiler_options {yo}: accepted (and padded) a definition that needs "
                             "padding although automatic padding is switched off", rep)
        elif must_reject and c.get("exc") != "AlignmentError":
            chk.spec_failure(f"cli:wrong-error:{tag}", f"{cname}: expected AlignmentError, got rc={c['rc']} {c.get('exc')}", rep)
        elif not must_reject and c["rc"] != 0:
            chk.spec_failure(f"cli:rejected:{tag}", f"{cname}: `{c['cmd']}` ({yo}) failed: {c['text'][-200:]}", rep)
        elif (c["rc"] == 0) != bool(r["ok"]):
            chk.spec_failure(f"cli:differs-from-parser:{tag}", f"{cname}: command line rc={c['rc']}, Parser(auto_pad={ap}, "
                             f"validate_alignment={va}) {'accepts' if r['ok'] else 'raises ' + str(r['exc'])}", rep)
        elif c["rc"] == 0 and va:
            # same layout as the parser called directly: sizeof and every offset (padding fields included) per gcc
            if not c["probe"] or "error" in c["probe"]:
                chk.spec_failure(f"cli:header-differs:{tag}", f"{cname}: the header written by the command line lacks fields of the "
                                 f"expected layout: {str((c['probe'] or {}).get('error'))[:200]}", rep)
            elif r["probe"] and c["probe"] != r["probe"]:
                chk.spec_failure(f"cli:layout-differs:{tag}", f"{cname}: {c['probe']} vs {r['probe']}", rep)
    return coq_cases, len(jobs)


def run(chk: Check):
    rng = random.Random(chk.seed)
    from ..defs_reg_common import regen_cone
    regen_cone(chk, ("TypeTables.v",))      # a translator failing closed is reported; the gcc-probed search below still runs
    proved = chk.prove(FAM, "Props.C11", THEOREMS, extra_targets=["Model/Closure.vo"])
    if proved and chk.tier == "thorough":
        okc, outc = FAM.coqchk("Props.C11")
        chk.cov["coqchk"] = " ".join(outc.split())[-1500:]
        if not okc:
            chk.broken_obligation("coqchk rejected Defs.Props.C11", outc[-600:])
    from ..translate import tables
    limit = tables.size_guard()
    names = native_names()
    nat_size = {n: sz for sz, l in names.items() for n in l}

    gen = list(gen_cases(rng, chk.tier, names))
    cases = []
    for structs, ap, probe, tag in gen:
        files = (to_yaml2(structs, int(tag.split(":")[1])) if tag.startswith("alias-of-struct")
                 else {"root.yaml": to_yaml(structs)})
        cases.append(dict(files=files, root="root.yaml", auto_pad=ap,
                          validate_alignment=True, import_coredefs=False,
                          emit=(["c"] if probe else []), probe_c=probe))
    results = run_impl(cases)

    coq_cases = []
    dist: Dict[str, int] = {}
    nontrivial = set()
    nstructs = 0
    for (structs, ap, probe, tag), res, case in zip(gen, results, cases):
        if res["exc"] and res["exc"].startswith("HARNESS"):
            chk.broken_obligation("harness failure running the implementation", res["msg"])
            return
        ok, flat = impl_flat(res)
        coq_cases.append(f"((true, {coq_bool(ap)}, {to_coq(structs)}), ({coq_bool(ok)}, {coq_zlist(flat)}))")
        dist[tag.split(":")[0]] = dist.get(tag.split(":")[0], 0) + 1
        dist["rejected" if not ok else "accepted"] = dist.get("rejected" if not ok else "accepted", 0) + 1
        nstructs += len(structs)
        for i, s in enumerate(structs):
            padded = ok and i < len(res["structs"]) and any(
                re.fullmatch(r"padding_\d+_", f["name"]) for f in res["structs"][i]["fields"])
            if padded or not ok or s[0] == "reuse" or any(k in ("r", "a") for k, _, _ in (s[1] if s[0] == "fields" else [])):
                nontrivial.add((ap, json.dumps(s)))
        # spec oracle directly on the implementation's output
        v = oracle(structs, ap, res, limit, nat_size)
        if v:
            chk.spec_failure(key="layout:" + re.sub(r"S\d+|\d+", "#", v)[:80], desc=v,
                             replay=dict(yaml=to_yaml(structs), files=case["files"], auto_pad=ap,
                                         impl=dict(ok=res["ok"], exc=res["exc"], msg=res["msg"])))
    ncore = len(coq_cases)
    cli_cases, ncli = check_command_line(chk, names, nat_size, dist, nontrivial)
    coq_cases += cli_cases
    chk.cov["command_line_compiles"] = ncli
    bad, log = FAM.eval_cases(HEADER, coq_cases, per_file=60)
    chk.cov["evaluations"] = nstructs
    chk.cov["traces_validated_against_impl"] = len(coq_cases) - len([b for b in bad if b >= 0])
    chk.cov["distinct_nontrivial"] = len(nontrivial)
    chk.cov["rule"] = ("definition closures run through the real Parser and through Model/Closure.v (vm_compute); "
                       "exhaustive field sequences of length<=3 over 12 kinds (auto_pad on, and off), random nested/"
                       "array-of-struct/reuse closures, size-limit boundary; non-trivial = struct that got padding, "
                       "was rejected, reuses or nests another struct (distinct by auto_pad + declaration)")
    chk.cov["input_distribution"] = dist
    chk.cov["exhaustive"] = False
    chk.add_samples([dict(yaml=to_yaml(g[0]), auto_pad=g[1]) for g in (gen[0:1] + gen[-3:-1])
                     if len(to_yaml(g[0])) < 1500] + [dict(yaml=to_yaml(gen[len(gen) // 2][0]), auto_pad=gen[len(gen) // 2][1])])
    chk.assumptions += [
        "command line (python -m pyrtma.compile), precedence taken as specification from compile.py main(): defaults AUTO_PAD / "
        "VALIDATE_ALIGNMENT on; the root file's compiler_options replace them (an explicit `false` switches the setting off); "
        "--no_auto_pad / --no_val_align can only switch off; the resulting setting must behave like Parser(auto_pad=.., validate_alignment=..)",
        "gcc x86-64 natural alignment (System V); other ABIs not modelled",
        "ctypes layout = natural layout (validated by the parser's own final assert and the gcc probe)",
        "field types of size>=1 with alignment in {1,2,4,8} dividing the size (true of the generated native table by C11_natives_wf; of nested structs by C11_nested_closed)",
        "array lengths >= 1 (length 0 is treated as scalar by the parser; reported under C04)",
    ]
    if bad:
        for b in bad[:3]:
            if b >= ncore:
                chk.broken_obligation("correspondence Model/Closure.v vs Parser differs (effective settings of a command-line case)",
                                      cli_cases[b - ncore][:500])
            elif b >= 0:
                g = gen[b]
                chk.broken_obligation("correspondence Model/Closure.v vs Parser differs",
                                      f"case {b} tag={g[3]} auto_pad={g[1]} yaml={to_yaml(g[0])[:400]} impl={impl_flat(results[b])}")
            else:
                chk.broken_obligation("correspondence shard failed to evaluate", log[-600:])


def replay(path: str) -> int:
    d = json.load(open(path))
    r = d["replay"]
    if "command" in r:
        out = run_cli(r["yaml"], CLI_FLAGS[r["flag"]], None)
        print(f"--- root.yaml ---\n{r['yaml']}\n--- {out['cmd']}\nexit status {out['rc']}  ({out.get('exc')})\n"
              f"must behave like Parser(validate_alignment={r['effective']['validate_alignment']}, auto_pad={r['effective']['auto_pad']})\n"
              + out["text"][-500:])
        return 0
    two = len(r.get("files") or {}) > 1
    res = run_impl([dict(files=r.get("files") or {"root.yaml": r["yaml"]}, root="root.yaml", auto_pad=r["auto_pad"],
                         validate_alignment=True, import_coredefs=False, emit=[] if two else ["c"], probe_c=not two)])[0]
    if two:
        for k, v in r["files"].items():
            print(f"--- {k} ---\n{v}")
    print(json.dumps(dict(ok=res["ok"], exc=res["exc"], msg=res["msg"], structs=res["structs"], probe=res["probe"]), indent=1))
    return 0
