"""C08 - client read path is faithful, filtered and self-resynchronising.

proof:          coq/client/Props/C08.v over Model/ClientRead.v with the REGENERATED Gen/ReadGuards.v
correspondence: real Client over real TCP against a scripted peer (vlib/client_worker.py, mode c08) vs
                Model/ClientRead.v (read_many) by vm_compute; observables only: per call the returned header
                (recv_time zeroed) + payload bytes / UnknownMessageType header+raw / None / exception class, and
                Client.connected after the call
spec oracle:    per-frame classification by construction of the script (good / unknown type / wrong size /
                wrong version / zero-length / unsubscribed / ack), filtered by the subscription state at each
                call; ConnectionLost + disconnected at the cut - evaluated on the implementation's own output
"""
from __future__ import annotations

import itertools
import json
import random
import struct
from typing import Dict, List, Optional, Tuple

from ..framework import Check
from ..client_common import FAM, run_worker, regen_or_report

THEOREMS = ["C08_resync", "C08_resync_next", "C08_sequence", "C08_faithful", "C08_filter", "C08_no_fuel",
            "C08_lost", "C08_lost_nonvacuous", "C08_disconnected_stays",
            "C08_frames_wf", "C08_sequence_nonvacuous", "C08_lost_after_frame_nonvacuous"]

# message definitions registered in the worker process: type id -> (payload size, version hash)
T_GOOD, T_ZERO, T_UNSUB, T_ODD = 5001, 5002, 5003, 5004
DEFS = [[T_GOOD, 4, 0x1122AA01], [T_ZERO, 0, 0x1122AA02], [T_UNSUB, 8, 0xF122AA03], [T_ODD, 3, 0x00000007]]
DEF = {d[0]: (d[1], d[2]) for d in DEFS}
T_UNKNOWN = 7777
MT_ACK = 2
HSZ = 48
KINDS = ["good", "unknown", "size", "version", "zero", "unsub"]
DEFAULT_SUB = [T_GOOD, T_ZERO, T_ODD]

HEADER = """From Coq Require Import ZArith List Bool String Ascii.
From Cli Require Import Model.SubBase Gen.ReadGuards Model.ClientRead.
Import ListNotations. Open Scope Z_scope.
Definition hexv (c : ascii) : Z := let n := Z.of_nat (nat_of_ascii c) in if n <? 58 then n - 48 else n - 87.
Fixpoint hx (s : string) : list Z :=
  match s with String a (String b r) => (16 * hexv a + hexv b) :: hx r | _ => [] end.
Fixpoint zl_eqb (a b : list Z) : bool :=
  match a, b with [], [] => true | x :: r, y :: s => (x =? y) && zl_eqb r s | _, _ => false end.
Definition exc_code (e : exc) : Z :=
  match e with EUnknown => 0 | EBadSize => 1 | EBadVersion => 2 | EConnLost => 3
             | EValue => 5 | ENotConnected => 6 end.   (* 4 = a raw ConnectionResetError: not producible by the model *)
Definition flat_out (o : outcome) : list Z :=
  match o with
  | OMsg h p => (1 :: Z.of_nat (List.length h) :: h ++ Z.of_nat (List.length p) :: p)%list
  | OUnknown h r => (2 :: Z.of_nat (List.length h) :: h ++ Z.of_nat (List.length r) :: r)%list
  | ONone => [3]
  | ORaise e => [4; exc_code e]
  | OBlocked => [5]
  | OFuel => [6]
  end.
Definition flat (os : list (outcome * bool)%type) : list Z :=
  flat_map (fun ob : (outcome * bool)%type => (flat_out (fst ob) ++ [if snd ob then 1 else 0])%list) os.
Definition tmo_of (z : Z) : tmo := if z =? 0 then TNone else if z =? 1 then TBlock else if z =? 2 then TZero else TPos.
(* call: (timeout code, ack, sync_check, sub_all, subscribed) *)
Definition callspec := (Z * bool * bool * bool * list Z)%type.
Definition mk_call (c : callspec) : call :=
  let '(t, a, s, sa, sb) := c in mkCall (mkCfg (tmo_of t) a s) sa sb.
Definition term_of (z : Z) : term := if z =? 0 then Open else if z =? 1 then Fin else Rst.
Definition check_case (c : (deftable * list callspec * string * Z * string)%type) : bool :=
  let '(tbl, calls, bytes, tm, expected) := c in
  zl_eqb (flat (fst (read_many tbl (map mk_call calls) true (mkStream (hx bytes) (term_of tm))))) (hx expected).
"""


# ---------------------------------------------------------------------------------------------
# frames
# ---------------------------------------------------------------------------------------------

def header(mt: int, n: int, ver: int = 0, src: int = 10, count: int = 0, send_time: float = 1.5) -> bytes:
    return struct.pack("<iiddhhhhiiiI", mt, count, send_time, 0.0, 0, src, 0, 0, n, 0, 0, ver & 0xFFFFFFFF)


def mk_frame(kind: str, rng: random.Random, idx: int) -> dict:
    """a frame of the given kind; payload bytes are distinct per frame so that a mix-up is visible"""
    pay = lambda n: bytes((17 * idx + 3 * k + 1) % 251 for k in range(n))  # noqa: E731
    if kind == "good":
        t = rng.choice([T_GOOD, T_GOOD, T_ODD])
        ver = rng.choice([0, DEF[t][1]])
        return dict(kind=kind, type=t, ver=ver, hdr=header(t, DEF[t][0], ver, count=idx), pay=pay(DEF[t][0]))
    if kind == "unknown":
        n = rng.choice([0, 1, 5, 6, 9])
        return dict(kind=kind, type=T_UNKNOWN, ver=0, hdr=header(T_UNKNOWN, n, 0, count=idx), pay=pay(n))
    if kind == "size":
        t = rng.choice([T_GOOD, T_ZERO])
        n = rng.choice([x for x in (0, 2, 6, 7) if x != DEF[t][0]])
        return dict(kind=kind, type=t, ver=0, hdr=header(t, n, 0, count=idx), pay=pay(n))
    if kind == "version":
        t = rng.choice([T_GOOD, T_ZERO])
        ver = (DEF[t][1] + rng.choice([1, 0x100])) & 0xFFFFFFFF
        return dict(kind=kind, type=t, ver=ver, hdr=header(t, DEF[t][0], ver, count=idx), pay=pay(DEF[t][0]))
    if kind == "zero":
        return dict(kind=kind, type=T_ZERO, ver=0, hdr=header(T_ZERO, 0, 0, count=idx), pay=b"")
    if kind == "unsub":
        return dict(kind=kind, type=T_UNSUB, ver=0, hdr=header(T_UNSUB, 8, 0, count=idx), pay=pay(8))
    if kind == "ack":
        return dict(kind=kind, type=MT_ACK, ver=0, hdr=header(MT_ACK, 0, 0, src=0, count=idx), pay=b"")
    if kind == "negative":
        t = rng.choice([T_GOOD, T_UNKNOWN])
        return dict(kind=kind, type=t, ver=0, hdr=header(t, -1, 0, count=idx), pay=b"")
    raise ValueError(kind)


def call(timeout=None, ack=False, sync=False, sub_all=False, sub=DEFAULT_SUB, via="attr") -> dict:
    return dict(timeout=timeout, ack=ack, sync=sync, sub_all=sub_all, sub=sorted(sub), via=via)


def mk_case(frames: List[dict], calls: List[dict], end: str, cut: Optional[int] = None,
            splits: Optional[List[Tuple[int, int]]] = None, tag: str = "") -> dict:
    """cut: number of bytes of the concatenated frames that are sent (None: all)
    splits: [(byte offset, delay ms)] chunk boundaries with a pause before the following chunk"""
    data = b"".join(f["hdr"] + f["pay"] for f in frames)
    sent = data if cut is None else data[:cut]
    chunks = []
    pos = 0
    delay = 0
    for off, d in (splits or []):
        off = min(off, len(sent))
        chunks.append([sent[pos:off].hex(), delay])
        pos, delay = off, d
    chunks.append([sent[pos:].hex(), delay])
    meta = [dict(kind=f["kind"], type=f["type"], ver=f["ver"], n=len(f["pay"]), hdr=f["hdr"].hex(), pay=f["pay"].hex())
            for f in frames]
    return dict(chunks=chunks, end=end, calls=calls, frames=meta, sent=len(sent), tag=tag)


# ---------------------------------------------------------------------------------------------
# flat encoding of the observed outcomes (same layout as flat_out in HEADER)
# ---------------------------------------------------------------------------------------------

EXC_CODE = {("InvalidMessageDefinition", "size"): 1, ("InvalidMessageDefinition", "version"): 2,
            ("ConnectionLost", ""): 3, ("ConnectionResetError", ""): 4, ("ValueError", ""): 5,
            ("NotConnectedError", ""): 6}


def flat_outs(outs: List[list]) -> bytes:
    b = bytearray()
    for o in outs:
        k = o[0]
        if k in ("msg", "unknown"):
            h, p = bytes.fromhex(o[1])[:255], bytes.fromhex(o[2])[:255]      # lengths fit one byte in every
            b += bytes([1 if k == "msg" else 2, len(h)]) + h + bytes([len(p)]) + p   # generated case
        elif k == "none":
            b += bytes([3])
        elif k == "exc":
            b += bytes([4, EXC_CODE.get((o[1], o[2]), 99)])
        else:
            b += bytes([7])
        b += bytes([1 if o[-1] else 0])
    return bytes(b)


def tmo_code(t) -> int:
    return 0 if t is None else (1 if t < 0 else (2 if t == 0 else 3))


def case_coq(case: dict, outs: List[list], table: List[list]) -> str:
    types = {f["type"] for f in case["frames"]} | {d[0] for d in DEFS} | {MT_ACK}
    tb = "[" + "; ".join(f"({t}, ({s}, {h}))" for t, s, h in table if t in types) + "]"
    calls = "[" + "; ".join(
        f"({tmo_code(c['timeout'])}, {str(bool(c['ack'])).lower()}, {str(bool(c['sync'])).lower()}, "
        f"{str(bool(c['sub_all'])).lower()}, " + ("[" + "; ".join(map(str, c["sub"])) + "]" if c["sub"] else "(@nil Z)") + ")"
        for c in case["calls"]) + "]"
    data = "".join(c[0] for c in case["chunks"])
    tm = {"open": 0, "fin": 1, "rst": 2}[case["end"]]
    return f'({tb}, {calls}, "{data}"%string, {tm}, "{flat_outs(outs).hex()}"%string)'


# ---------------------------------------------------------------------------------------------
# spec oracle (from the property text; frame kinds are known by construction of the script)
# ---------------------------------------------------------------------------------------------

def decodes(f: dict, sync: bool) -> str:
    """'msg' | 'unknown' | 'size' | 'version' for a whole frame under the worker's definitions"""
    if f["type"] == MT_ACK:
        return "msg" if f["n"] == 0 else "size"
    if f["type"] not in DEF:
        return "unknown"
    size, thash = DEF[f["type"]]
    if f["n"] != size:
        return "size"
    if sync and f["ver"] != 0 and f["ver"] != thash:
        return "version"
    return "msg"


def oracle(chk, case: dict, outs: List[list]):
    frames = case["frames"]
    if any(f["kind"] == "negative" for f in frames):
        return                                     # num_data_bytes < 0: outside the property (hypothesis 0 <= n)
    total = sum(HSZ + f["n"] for f in frames)
    sent = case["sent"]
    whole = 0
    acc = 0
    for f in frames:
        if acc + HSZ + f["n"] <= sent:
            acc += HSZ + f["n"]
            whole += 1
        else:
            break
    cut_len = sent - acc                            # bytes of the frame that was cut
    cut_frame = frames[whole] if whole < len(frames) else None
    end = case["end"]
    i = 0
    connected = True
    stream_empty = False                            # the cut remainder has been consumed
    rst_pending = end == "rst"
    rep = dict(case={k: case.get(k) for k in ("chunks", "end", "calls", "frames", "sent", "tag", "prelude")}, observed=outs)

    def fail(key, desc):
        chk.spec_failure(key, f"{desc}; call {j} of {json.dumps(case['calls'][j])}; observed {outs[j]} "
                              f"(tag {case['tag']})", rep)

    for j, (cl, o) in enumerate(zip(case["calls"], outs)):
        if o[0] == "hang":
            return fail("read:hang", "read_message did not return")
        if not connected:
            if o[:2] != ["exc", "NotConnectedError"] or o[-1]:
                return fail("lost:not-disconnected", "client was disconnected but the call did not raise NotConnectedError")
            continue
        exp = None
        while i < whole:
            f = frames[i]
            i += 1
            d = decodes(f, cl["sync"])
            if d == "unknown":
                exp = ["unknown", f["hdr"], f["pay"], True]
            elif d in ("size", "version"):
                exp = ["exc", "InvalidMessageDefinition", d, True]
            elif cl["sub_all"] or f["type"] in cl["sub"] or (cl["ack"] and f["type"] == MT_ACK):
                exp = ["msg", f["hdr"], f["pay"], True]
            elif cl["timeout"] == 0:
                exp = ["none", True]
            else:
                continue
            break
        if exp is not None:
            if o != exp:
                cat = {"msg": "faithful", "unknown": "resync", "exc": "resync", "none": "filter"}[exp[0]]
                if o[0] == "msg" and exp[0] != "msg":
                    cat = "filter"
                return fail(f"{cat}:{exp[0]}->{o[0]}", f"expected {exp}")
            continue
        # no whole frame left for this call
        if end == "open":
            if o != ["none", True]:
                return fail(f"filter:none->{o[0]}", "nothing left to read on an open connection")
            continue
        strict = ["exc", "ConnectionLost", "", False]
        if o == strict:
            connected = False
            continue
        # the loss was NOT reported as the property demands: a violation.  Name the class (these are the three
        # classes fixed by 5577bbe - `fixed:` lines suppress nothing) so that a regression is recognisable
        remaining = 0 if stream_empty else cut_len
        if rst_pending and remaining == 0 and o == ["exc", "ConnectionLost", "", True]:
            chk.spec_failure("lost:rst-at-recv-boundary", f"reset with no byte pending: {o}", rep)
            rst_pending, stream_empty = False, True
            continue
        if cut_frame is not None and not stream_empty and cut_len >= HSZ:
            d = decodes(cut_frame, cl["sync"])
            part = cut_frame["pay"][:2 * (cut_len - HSZ)]
            if d != "msg" and rst_pending and cut_len == HSZ and o == ["exc", "ConnectionResetError", "", True]:
                chk.spec_failure("lost:rst-in-drain-raw-error", f"raw ConnectionResetError from the drain: {o}", rep)
                rst_pending, stream_empty = False, True
                continue
            exp_err = (["unknown", cut_frame["hdr"], part, True] if d == "unknown"
                       else ["exc", "InvalidMessageDefinition", d, True])
            if d != "msg" and o == exp_err and not (rst_pending and cut_len == HSZ):
                chk.spec_failure("lost:cut-in-drain", f"cut inside the payload of an undecodable frame reported as {o[:2]}", rep)
                stream_empty = True
                continue
            if d == "msg" and rst_pending and cut_len == HSZ and o == ["exc", "ConnectionLost", "", True]:
                chk.spec_failure("lost:rst-at-recv-boundary", f"reset with no payload byte pending: {o}", rep)
                rst_pending, stream_empty = False, True
                continue
        return fail(f"lost:unexpected:{o[0]}:{o[1] if o[0] == 'exc' else ''}", f"expected {strict}")


# ---------------------------------------------------------------------------------------------
# generators
# ---------------------------------------------------------------------------------------------

def gen_cases(rng: random.Random, tier: str):
    idx = itertools.count(1)

    def frames_of(kinds):
        return [mk_frame(k, rng, next(idx) % 200) for k in kinds]

    # (a) every sequence of length <= 3 over the 6 kinds, in four settings
    for n in (1, 2, 3):
        for kinds in itertools.product(KINDS, repeat=n):
            fs = frames_of(kinds)
            yield mk_case(fs, [call(None, sync=False)] * (n + 2), "fin", tag="exh3-blocking-fin")
            yield mk_case(fs, [call(0, sync=True)] * (n + 1), "open", tag="exh3-t0-sync-open")
            yield mk_case(fs, [call(None, sync=True, sub_all=True)] * (n + 2), "rst", tag="exh3-suball-sync-rst")
            if n < 3 or rng.random() < 0.25:
                yield mk_case(fs, [call(0.02, sync=rng.random() < 0.5)] * (n + 1), "open", tag="exh3-tpos-open")
    # (b) longer random sequences, options and subscriptions changing between reads
    for _ in range(1500 if tier == "thorough" else 160):
        n = rng.randint(4, 8)
        kinds = [rng.choice(KINDS + ["ack", "good"]) for _ in range(n)]
        fs = frames_of(kinds)
        end = rng.choice(["open", "fin", "rst"])
        calls = []
        for _ in range(n + 2):
            if end == "open":
                t = rng.choice([0, 0, 0.02])
            else:
                t = rng.choice([None, -1, 0, 0.02])
            sub = [x for x in (T_GOOD, T_ZERO, T_UNSUB, T_ODD) if rng.random() < 0.55]
            calls.append(call(t, ack=rng.random() < 0.4, sync=rng.random() < 0.5, sub_all=rng.random() < 0.15, sub=sub))
        yield mk_case(fs, calls, end, tag="random-long")
    # (c) FIN and RST at every byte offset of a 2-frame stream
    pairs = [("good", "good"), ("unknown", "good"), ("good", "size"), ("version", "unknown"), ("unsub", "good"),
             ("zero", "unknown")]
    if tier == "thorough":
        pairs = list(itertools.product(KINDS, repeat=2))
    for a, b in pairs:
        fs = frames_of([a, b])
        if fs[0]["kind"] == "unknown" and len(fs[0]["pay"]) == 0:
            fs[0] = mk_frame("unknown", random.Random(5), next(idx) % 200)
        total = sum(HSZ + len(f["pay"]) for f in fs)
        for k in range(total + 1):
            for end in ("fin", "rst"):
                yield mk_case(fs, [call(None, sync=True)] * 5, end, cut=k, tag="cut-every-offset-" + end)
                # the same loss seen by a POLLING reader (finite and zero timeouts): it must be reported all the same
                if (a, b) == pairs[0] or k % 7 == 3:
                    yield mk_case(fs, [call(0.02, sync=True)] * 6, end, cut=k, tag="cut-polled-" + end)
                    yield mk_case(fs, [call(0, sync=True)] * 6, end, cut=k, tag="cut-polled0-" + end)
    # (d) payload / header delivered in two TCP segments with a pause in between (MSG_WAITALL matters)
    for kind in ("good", "unknown", "size", "version", "unsub"):
        for where in ("payload", "header"):
            fs = frames_of([kind, "good"])
            if len(fs[0]["pay"]) < 2:
                fs[0] = mk_frame("unknown", random.Random(7), next(idx) % 200) if kind == "unknown" else \
                    mk_frame("size", random.Random(3), next(idx) % 200)
            off = HSZ + 1 if where == "payload" else 20
            yield mk_case(fs, [call(None, sync=True)] * 4, "fin", splits=[(off, 25)], tag="two-segments-" + where)
    # (e) subscription set through the API while messages are queued: the filter must re-engage
    fs = frames_of(["good", "unsub", "zero", "good"])
    yield mk_case(fs, [call(0, sub_all=True, sub=[], via="api"),
                       dict(timeout=0, ack=False, sync=False, sub_all=False, sub=[], via="api_pause_all"),
                       call(0.02, sub=[]), call(0, sub=[])], "open", tag="api-pause-all-with-queue")
    fs = frames_of(["unsub", "good", "unsub", "zero"])
    yield mk_case(fs, [call(0, sub=[T_UNSUB], via="api"), call(0, sub=[T_ZERO], via="api"), call(0.02, sub=[T_ZERO], via="api"),
                       call(0, sub_all=True, sub=[], via="api")], "open", tag="api-resubscribe-with-queue")
    # (h) the SAME Client object on a second connection: subscriptions made on an earlier connection that the peer ended
    # (ConnectionLost) are not subscriptions of the new one - the new connection starts with none
    for pend in ("fin", "rst"):
        for pre in (dict(sub=[T_UNSUB], sub_all=False), dict(sub=[T_UNSUB, T_ZERO], sub_all=False, pause=[T_ZERO]),
                    dict(sub=[], sub_all=True)):
            pre = dict(pre, end=pend)
            fs = frames_of(["unsub", "good", "unsub", "zero"])
            c0 = dict(call(0, sub=[T_GOOD], via="api_add"), add=[T_GOOD])
            yield dict(mk_case(fs, [c0] + [call(0, sub=[T_GOOD], via="keep")] * 4, "open", tag="reconnect-after-loss"), prelude=pre)
            fs = frames_of(["unsub", "zero", "good"])
            yield dict(mk_case(fs, [call(0, sub=[], via="keep")] * 4, "open", tag="reconnect-after-loss"), prelude=pre)
            fs = frames_of(["unsub", "good"])
            yield dict(mk_case(fs, [call(0.02, sub=[], via="keep")] * 2, "open", tag="reconnect-after-loss"), prelude=pre)
    # (f) ACKNOWLEDGE frames with and without ack=True
    for ackflag in (False, True):
        for t in (0, None):
            fs = frames_of(["ack", "good", "ack", "unsub", "ack"])
            yield mk_case(fs, [call(t, ack=ackflag, sub=[T_GOOD])] * (6 if t is None else 5), "fin" if t is None else "open",
                          tag="ack-option")
    # (g) negative num_data_bytes: outside the property, compared against the model only
    for k in range(3):
        fs = [mk_frame("negative", random.Random(k), 1)] + frames_of(["good"])
        yield mk_case(fs, [call(None)] * 3, "fin", tag="negative-size")


# ---------------------------------------------------------------------------------------------

def run(chk: Check):
    rng = random.Random(chk.seed)
    regen_ok = regen_or_report(chk)
    proved = chk.prove(FAM, "Props.C08", THEOREMS) if regen_ok else False
    if proved and chk.tier == "thorough":          # independent checker; axioms of every loaded library reported
        ok, out = FAM.coqchk("Props.C08")
        chk.cov["coqchk"] = " ".join(out.split())[-1500:]
        if not ok:
            chk.broken_obligation("coqchk rejected Props.C08", out[-600:])
            proved = False

    cases = list(gen_cases(rng, chk.tier))
    wcases = [dict(chunks=c["chunks"], end=c["end"], calls=c["calls"], prelude=c.get("prelude")) for c in cases]
    results, meta = run_worker("c08", wcases, dict(defs=DEFS))
    table = meta.get("table", [])
    if meta.get("header_size") != HSZ:
        chk.broken_obligation("header size differs from the harness's frame builder", str(meta.get("header_size")))
        return
    for d in DEFS + [[MT_ACK, 0, None]]:
        row = [r for r in table if r[0] == d[0]]
        if len(row) != 1 or row[0][1] != d[1] or (d[2] is not None and row[0][2] != d[2]):
            chk.broken_obligation("worker's message registry differs from the harness's definitions", f"{d} vs {row}")
            return
    dist: Dict[str, int] = {}
    nontrivial = set()
    reads = 0
    coq_cases = []
    for i, (case, res) in enumerate(zip(cases, results)):
        if res is None or "harness_error" in res:
            chk.broken_obligation("harness failure running the implementation",
                                  f"case {i} tag={case['tag']}: {res and res.get('harness_error')} {res and res.get('tb')}")
            return
        outs = res["outs"]
        dist[case["tag"]] = dist.get(case["tag"], 0) + 1
        reads += len(outs)
        for o in outs:
            kk = "out:" + o[0] + (":" + o[1] if o[0] == "exc" else "")
            dist[kk] = dist.get(kk, 0) + 1
        kinds_seen = {o[0] + (o[1] if o[0] == "exc" else "") for o in outs}
        if len(kinds_seen) >= 3:
            nontrivial.add(json.dumps([case["chunks"], case["end"], case["calls"]]))
        if case.get("prelude") and res.get("prelude") != ["exc", "ConnectionLost", "", False]:
            chk.spec_failure("lost:earlier-connection", f"the peer ended the first connection ({case['prelude']}); read_message gave "
                             f"{res.get('prelude')}, expected ConnectionLost and a disconnected client",
                             dict(case={k: case[k] for k in ("chunks", "end", "calls", "frames", "sent", "tag", "prelude")}))
        for mu in (res.get("mutated") or [])[:1]:
            chk.spec_failure("faithful:changed-after-return",
                             f"the message returned by call {mu[0]} no longer has the header / payload it was returned with once later "
                             f"calls have run: header {mu[1]} -> {mu[2]}, payload {mu[3]} -> {mu[4]} (tag {case['tag']})",
                             dict(case={k: case.get(k) for k in ("chunks", "end", "calls", "frames", "sent", "tag", "prelude")}, observed=outs))
        oracle(chk, case, outs)
        coq_cases.append(case_coq(case, outs, table))
    chk.cov["evaluations"] = reads
    chk.cov["distinct_nontrivial"] = len(nontrivial)
    chk.cov["rule"] = ("byte scripts read by the real Client.read_message over real TCP and by Model/ClientRead.v "
                       "read_many (vm_compute): all frame sequences of length<=3 over 6 kinds in 3-4 settings "
                       "(timeout None/0/>0, sync_check, subscribed-to-all, FIN/RST/open), seeded random sequences of "
                       "length 4-8 with options and subscriptions changing between reads, FIN and RST at every byte "
                       "offset of six 2-frame streams, two-segment deliveries with a pause, API-driven subscription "
                       "changes with messages queued, ack option.  non-trivial = case whose reads show >=3 different "
                       "outcome kinds")
    chk.cov["input_distribution"] = dist
    chk.cov["exhaustive"] = "sequences of length<=3 over 6 frame kinds; every cut offset of six 2-frame streams x {FIN,RST}"
    chk.add_samples([{k: cases[i][k] for k in ("chunks", "end", "calls", "tag")} for i in (0, len(cases) // 2, len(cases) - 30, len(cases) - 5)])
    chk.assumptions += [
        "frames with 0 <= num_data_bytes (wf_frame); a negative value makes recv raise ValueError - modelled, "
        "compared, but outside the property: the manager never delivers such a frame",
        "Linux TCP semantics of recv(MSG_WAITALL) at FIN / RST as stated in Model/ClientRead.v (validated by the "
        "every-offset FIN/RST cases, not verified)",
        "recv_time is overwritten by the client; compared with that field zeroed",
        "local definitions with type_size >= 0 (v1 fallback type_size == -1 folded into the table)",
        "blocking reads on an open connection with nothing pending are not exercised (outcome OBlocked in the model)",
        "payload sizes < 256 bytes in the correspondence (theorems: any size)",
    ]
    if not proved:
        return
    bad, log = FAM.eval_cases(HEADER, coq_cases, per_file=200)
    chk.cov["traces_validated_against_impl"] = len(coq_cases) - len([b for b in bad if b >= 0])
    for b in bad[:3]:
        if b >= 0:
            c = cases[b]
            chk.broken_obligation("correspondence Model/ClientRead.v vs Client.read_message differs",
                                  f"case {b} tag={c['tag']} end={c['end']} sent={c['sent']} frames="
                                  f"{[(f['kind'], f['type'], f['n']) for f in c['frames']]} calls={json.dumps(c['calls'])[:300]} "
                                  f"impl={json.dumps(results[b]['outs'])[:600]}")
        else:
            chk.broken_obligation("correspondence shard failed to evaluate", log[-600:])


def replay(path: str) -> int:
    d = json.load(open(path))
    case = d["replay"]["case"]
    res, meta = run_worker("c08", [dict(chunks=case["chunks"], end=case["end"], calls=case["calls"], prelude=case.get("prelude"))], dict(defs=DEFS))
    outs = res[0].get("outs")
    print(json.dumps(dict(case=case, observed=res[0]), indent=1))

    class _C:
        def __init__(self):
            self.hits = []

        def spec_failure(self, key, desc, replay):
            self.hits.append((key, desc))
    c = _C()
    if outs is not None:
        oracle(c, case, outs)
    for k, dsc in c.hits:
        print(f"spec oracle: {k}: {dsc[:400]}")
    return 1 if c.hits else 0
