"""C04 - all language outputs of the compiler describe the same wire format."""
from __future__ import annotations

import json
import random
import re
from typing import Dict, List, Tuple

from ..framework import Check
from ..defs_common import FAM, native_names, regen_or_report
from ..defs_emit_common import (COQ_HEADER, DIFF_NAMES, F, build_corpus, closure_case, long_name_closures, substring_name_closures, closure_files, closure_model_ok, coq_case,
                                construct_classes, cross_language_check, diagnose, observation, run_emit, source_classes)

THEOREMS = ["C04_tables", "C04_tables_sweep", "C04_tables_domain", "C04_sig", "C04_layout", "C04_len0_rejected",
            "C04_hash_forms", "C04_ex_accepted"]
OPS = ["separate", "load_py", "load_c", "load_js"]


def table_oracle() -> List[Tuple[str, str, str]]:
    """the seven native-type tables compared directly (python side, from the same ast reading that regenerates
    Gen/TypeTables.v): returns [(type name, table, description)] of disagreements"""
    from ..translate import tables as T
    sup = T.parser_supported_types()
    ct = {k: (w, kd) for k, w, kd in T.get_ctype_cls_table()}
    be = {n: {k: (w, kd) for k, w, kd in rows} for n, rows in T.backend_tables().items()}
    out = []
    for key, name, size, fmt in sup:
        kd = T.KIND_CODE[T.FORMAT_WIDTH[fmt][1]]
        if T.FORMAT_WIDTH[fmt][0] != size:
            out.append((key, "format", f"struct format {fmt!r} has width {T.FORMAT_WIDTH[fmt][0]}, size says {size}"))
        exp = dict(get_ctype_cls=(ct.get(name), (size, kd)), py=(be["py"].get(key), (size, kd)),
                   pydesc=(be["pydesc"].get(key), (size, kd)), c=(be["c"].get(key), (size, kd)),
                   matlab=(be["matlab"].get(key), (size, 0 if kd == 3 else kd)), js=(be["js"].get(key), (0, 3 if kd == 3 else 0)))
        for tb, (got, want) in exp.items():
            if got != want:
                out.append((key, tb, f"{tb} table has {got} for {key!r}, parser.supported_types says (width, class) = {want}"))
    return out


def core_names() -> Dict[str, List[str]]:
    """names defined by the packaged core_defs.yaml, per section (line reader: `section:` / two-space `NAME:`)"""
    from ..framework import SRC
    out: Dict[str, List[str]] = {}
    sec = None
    try:
        text = (SRC / "pyrtma" / "core_defs" / "core_defs.yaml").read_text()
    except OSError:
        return out
    for ln in text.splitlines():
        m = re.match(r"^(\w+):", ln)
        if m:
            sec = m.group(1)
            continue
        m = re.match(r"^  ([A-Za-z]\w*):", ln)
        if m and sec:
            out.setdefault(sec, []).append(m.group(1))
    return out


def per_type_closure(t: str) -> dict:
    items = [("alias", "AT", t),
             ("struct", "S1", F(("x", t, None), ("y", t, ("lit", 3)), ("c", "char", None))),
             ("msg", "M1", 700, F(("c", "char", None), ("b", t, None), ("s", "S1", ("lit", 2)), ("a", "AT", None)))]
    return dict(files=[dict(path="root.yaml", imports=[], items=items)], auto_pad=True, import_coredefs=False)


def extra_closures(natives: List[str]) -> List[dict]:
    """implementation-only cases (outside the Coq model's input grammar or its import_coredefs=False setting)"""
    out = []
    out.append(dict(tag="len0", cl=dict(files=[dict(path="root.yaml", imports=[], items=[
        ("struct", "S", F(("a", "int32", ("lit", 0)), ("b", "int32", None))),
        ("msg", "M", 800, F(("h", "uint8", ("lit", 0)), ("s", "S", None), ("z", "S", ("lit", 0))))])],
        auto_pad=True, import_coredefs=False), coq=True))
    out.append(dict(tag="expr-div", cl=dict(files=[dict(path="root.yaml", imports=[], items=[
        ("const", "N", ("lit", 9)), ("const", "H", ("raw", "N // 2")), ("const", "P", ("raw", "(N + 1) % 4 + 1")),
        ("const", "FL", ("raw", "1.5")),
        ("struct", "S", F(("a", "int16", ("raw", "N // 2")), ("b", "int8", ("raw", "N / 2")), ("c", "double", ("ref", "P")),
                          ("d", "char", ("ref", "H"))))])], auto_pad=True, import_coredefs=False), coq=False))
    out.append(dict(tag="coredefs", cl=dict(files=[dict(path="root.yaml", imports=[1], items=[
        ("const", "N", ("lit", 4)), ("alias", "MY_ID", "MODULE_ID"), ("mid", "MY_MOD", 212), ("hid", "MY_HOST", 3),
        ("struct", "S1", F(("h", "RTMA_MSG_HEADER", None), ("m", "MODULE_ID", ("ref", "N")), ("t", "MSG_TYPE", None))),
        ("msg", "M1", 1500, F(("s", "S1", ("lit", 2)), ("n", "char", ("ref", "MAX_NAME_LEN")), ("i", "MY_ID", None))),
        ("msg", "M2", 1400, F(("a", "M1", None), ("b", "uint8", None), ("c", "int16", None))),
        ("msg", "SG", 1401, None), ("msg", "RU", 1402, ("reuse", "M1")), ("reserved", [1600, (1602, 1604)])]),
        dict(path="inc/a.yaml", imports=[], items=[("struct", "S0", F(("q", "uint16", ("lit", 3))))])],
        auto_pad=True, import_coredefs=True), coq=False))
    out.append(dict(tag="host-id-named-like-constant", cl=dict(files=[dict(path="root.yaml", imports=[], items=[
        ("const", "FOO", ("lit", 1)), ("hid", "FOO", 2), ("struct", "S1", F(("a", "int32", ("ref", "FOO"))))])],
        auto_pad=True, import_coredefs=False), coq=False))
    out.append(dict(tag="matlab-prefix-in-name", cl=dict(files=[dict(path="root.yaml", imports=[], items=[
        ("msg", "XMT_Y", 700, F(("a", "int32", None))), ("mid", "AMID_B", 33), ("hid", "CHID_D", 4)])],
        auto_pad=True, import_coredefs=False), coq=False))
    # user definitions spelled like CORE definitions of another namespace (names read from the packaged core_defs.yaml):
    # host ids like core module ids / messages, module ids like core host ids / constants / messages / aliases / the
    # core struct, a constant like a core module id, messages like core host ids.  Legal (separate namespaces); every one
    # of them must come out in all four outputs, with its value - with and without the core definitions imported.
    cn = core_names()
    mids, hids, msgs, consts, als, sts = (cn.get(k, []) for k in ("module_ids", "host_ids", "message_defs", "constants", "aliases", "struct_defs"))
    if len(mids) >= 3 and len(hids) >= 2 and msgs and consts and als and sts:
        items = [("hid", mids[0], 11), ("hid", mids[1], 12), ("hid", msgs[0], 13),
                 ("mid", hids[0], 21), ("mid", consts[0], 22), ("mid", msgs[min(2, len(msgs) - 1)], 23), ("mid", als[0], 24), ("mid", sts[0], 25),
                 ("const", mids[2], ("lit", 7)),
                 ("struct", "UserS", F(("a", "int16", ("ref", mids[2])), ("b", "int32", None))),
                 ("msg", hids[0], 1500, F(("s", "UserS", None), ("c", "uint8", None))), ("msg", hids[1], 1501, None)]
        for core in (True, False):
            out.append(dict(tag="core-name-clash:" + ("core-imported" if core else "standalone"),
                            cl=dict(files=[dict(path="root.yaml", imports=[], items=list(items))], auto_pad=True, import_coredefs=core), coq=False))
    out += long_name_closures()          # names of 40..50 characters: every macro the C preprocessor sees, against the other outputs
    out += substring_name_closures()     # constants named like parts of other constants, in one expression
    # a name that BEGINS with the section prefix: still stripped by generate_field (kept by 689365a), open finding
    out.append(dict(tag="matlab-leading-prefix-in-name", cl=dict(files=[dict(path="root.yaml", imports=[], items=[
        ("msg", "MT_Y", 701, F(("a", "int32", None))), ("mid", "MID_B", 34), ("hid", "HID_D", 5)])],
        auto_pad=True, import_coredefs=False), coq=False))
    return out


def run(chk: Check):
    rng = random.Random(chk.seed)
    # a translator that fails closed is reported (broken obligation); the implementation is still run against the
    # spec oracle and the (last generated) model, so that a behavioural change comes with a concrete failing input
    regen_or_report(chk)
    chk.prove(FAM, "Props.C04", THEOREMS)
    from ..translate import tables as T
    ptypes = {k: (size, T.KIND_CODE[T.FORMAT_WIDTH[fmt][1]]) for k, _, size, fmt in T.parser_supported_types()}
    allnat = list(ptypes)
    natives = list(allnat)

    # ---- 1. the tables themselves (finite, complete), independent of Coq
    tdiff = table_oracle()
    bad_types = sorted({k for k, _, _ in tdiff})
    chk.cov["table_disagreements"] = [f"{k}:{tb}" for k, tb, _ in tdiff][:40]

    # ---- 2. corpus
    corpus = build_corpus(rng, chk.tier, natives) + extra_closures(natives)
    # failing-input search aimed at every native name (and at the changed table entry, if any)
    for t in allnat:
        corpus.append(dict(tag="native:" + t, cl=per_type_closure(t), coq=True))
    if chk.tier == "thorough":   # second C compiler on the per-type and systematic closures
        import shutil as _sh
        if _sh.which("clang"):
            for c in [c for c in corpus if c["tag"].startswith(("native:", "sys:"))]:
                corpus.append(dict(tag="clang:" + c["tag"], cl=c["cl"], coq=False, cc="clang"))
    cases = []
    for c in corpus:
        case = closure_case(c["cl"], OPS)
        if c.get("cc"):
            case["cc"] = c["cc"]
        cases.append(case)
    results = run_emit(cases)

    coq_cases, coq_idx = [], []
    dist: Dict[str, int] = {}
    nontrivial = set()
    ndefs = 0
    for k, (c, res) in enumerate(zip(corpus, results)):
        tag = c["tag"].split(":")[0] if not c["tag"].startswith("rnd:") else c["tag"]
        dist[tag] = dist.get(tag, 0) + 1
        if res["exc"] == "HARNESS":
            chk.broken_obligation("harness failure running the implementation", res["msg"])
            return
        replay = dict(files=closure_files(c["cl"]), root=c["cl"]["files"][0]["path"], auto_pad=c["cl"].get("auto_pad", True),
                      import_coredefs=c["cl"].get("import_coredefs", False), tag=c["tag"])
        if not res["ok"]:
            dist["rejected:" + str(res["exc"])] = dist.get("rejected:" + str(res["exc"]), 0) + 1
            if not res["is_parser_error"] and res["exc"] not in ("AssertionError", "FileNotFoundError"):
                cs = source_classes(c["cl"])
                if res["exc"] == "HANG":     # a compile that does not terminate (worker watchdog)
                    chk.spec_failure("hang:" + str(res.get("hang") or "parse"), f"the compiler does not terminate on this closure: {res['msg'][:160]}", replay)
                elif "signed-char" in cs and res["exc"] == "KeyError":
                    chk.spec_failure("native:signed-char", f"a definition using `signed char` ends in {res['exc']}: {res['msg']}", replay)
                elif c["tag"].startswith("native:"):
                    chk.spec_failure("native:" + c["tag"][7:].replace(" ", "_") + ":" + str(res["exc"]),
                                     f"definition using native type {c['tag'][7:]!r} ends in {res['exc']}: {res['msg']}", replay)
                # other internal errors are C15's subject
            obs = observation(res)
        else:
            dist["accepted"] = dist.get("accepted", 0) + 1
            ndefs += len(res["model"]["structs"]) + len(res["model"]["messages"])
            if res["compile_exc"] and res["compile_exc"].startswith("HANG"):
                chk.spec_failure("hang:compile", "compile() of an accepted closure does not terminate: " + res["compile_exc"][:150], replay)
            elif res["compile_exc"]:
                chk.note(f"compile() raised on an accepted closure ({c['tag']}): {res['compile_exc'][:120]} (C15)")
            obs = observation(res)
            if obs is None:
                continue
            for lang, key in (("py", "python"), ("c", "c"), ("js", "javascript"), ("m", "matlab")):
                if obs["readers"][lang]["errors"]:
                    chk.spec_failure(f"unreadable:{lang}", f"{lang} output has statements outside the documented forms: "
                                     + "; ".join(obs["readers"][lang]["errors"][:3]), replay)
            for lang, txt in res["separate"].items():
                if txt != res["outputs"].get(lang):
                    chk.spec_failure(f"backend-mutates-shared-state:{lang}",
                                     f"{lang} output after the back ends that precede it in the CLI differs from {lang} output on a fresh Parser",
                                     dict(replay, first_difference=_first_diff(res["outputs"].get(lang), txt)))
            for key, desc in cross_language_check(res, obs, ptypes):
                chk.spec_failure(key, desc, replay)
            cs = construct_classes(res["model"])
            for d in res["model"]["structs"] + res["model"]["messages"]:
                if any(re.fullmatch(r"padding_\d+_", f["name"]) for f in d["fields"]) or \
                        any(f["kind"] != "NativeType" for f in d["fields"]):
                    nontrivial.add(json.dumps([[f["type_name"], f["length"], f["offset"]] for f in d["fields"]]))
        if c["coq"] and closure_model_ok(c["cl"]) and obs is not None:
            coq_cases.append(coq_case(c["cl"], obs))
            coq_idx.append(k)

    # table disagreement (other than the recorded one) without a concrete failing definition is still reported
    for k, tb, desc in tdiff:
        chk.spec_failure(f"tables:{k.replace(' ', '_')}:{tb}", desc, dict(type=k, table=tb, yaml=closure_files(per_type_closure(k))))

    # ---- 3. model <-> implementation
    bad, log = FAM.eval_cases(COQ_HEADER, coq_cases, per_file=12, timeout=900)
    chk.cov["evaluations"] = ndefs
    chk.cov["traces_validated_against_impl"] = len(coq_cases) - len([b for b in bad if b >= 0])
    chk.cov["distinct_nontrivial"] = len(nontrivial)
    chk.cov["rule"] = ("closures compiled by the real pyrtma.compile.compile (python, javascript, matlab, c, combined on ONE Parser, CLI order) "
                       "and each non-python back end again on a fresh Parser; gcc sizeof/offsetof probe, ctypes on the imported module, node "
                       "dump, static readers of the four texts; compared with each other, with the parsed model, and with Model/Emit.v "
                       "(vm_compute: parsed state, emission events, loader verdicts, per-language field signatures). "
                       "evaluations = struct/message definitions compiled; non-trivial = definition with auto padding or a non-native "
                       "member (distinct by type/length/offset list)")
    chk.cov["input_distribution"] = dist
    chk.cov["exhaustive"] = False
    chk.add_samples([dict(tag=c["tag"], files=closure_files(c["cl"])) for c in corpus[:2] + corpus[70:72] + corpus[-30:-29]])
    chk.assumptions += [
        "gcc x86-64 natural alignment (System V); other ABIs not modelled",
        "MATLAB: no interpreter here - assignment order and literal right-hand sides only (char is stored as int8: compared as 1-byte)",
        "JavaScript carries no widths: names, order, lengths, char/not-char, ids, hashes only",
        "constant / length expressions in the Coq model: integer literals, constants, + - * and true division by a positive literal "
        "(value a float, length = int() of it; exact rationals = the implementation's floats for the generated divisors 2..64); "
        "other divisors, division by a constant, // and % are exercised on the implementation only",
        "theorems are over every accepted closure (array lengths < 1 are rejected by add_fields, modelled)",
    ]
    if bad:
        codes = diagnose(FAM, [coq_cases[b] for b in bad[:4] if b >= 0])
        for b, code in zip([b for b in bad[:4] if b >= 0], codes):
            c = corpus[coq_idx[b]]
            chk.broken_obligation(f"correspondence Model/Emit.v vs implementation differs in: {DIFF_NAMES.get(code, code)}",
                                  f"case tag={c['tag']} files={json.dumps(closure_files(c['cl']))[:500]}")
        if any(b < 0 for b in bad):
            chk.broken_obligation("correspondence shard failed to evaluate", log[-600:])


def _first_diff(a, b):
    if a is None or b is None:
        return "one output missing"
    for i, (x, y) in enumerate(zip(a.splitlines(), b.splitlines())):
        if x != y:
            return f"line {i + 1}: {x!r} vs {y!r}"
    return "length differs"


def replay(path: str) -> int:
    d = json.load(open(path))
    r = d["replay"]
    if "files" not in r:
        r = dict(files=r["yaml"], root="root.yaml", auto_pad=True, import_coredefs=False)
    res = run_emit([dict(files=r["files"], root=r["root"], auto_pad=r.get("auto_pad", True),
                         import_coredefs=r.get("import_coredefs", False), ops=OPS)])[0]
    out = dict(ok=res["ok"], exc=res["exc"], msg=res["msg"], compile_exc=res["compile_exc"])
    if res["ok"]:
        out["recorded"] = {d["name"]: d["size"] for d in res["model"]["structs"] + res["model"]["messages"]}
        out["ctypes"] = {c["name"]: c["size"] for c in res["load"].get("py", {}).get("classes", [])}
        pr = res["load"].get("c", {}).get("probe") or {}
        out["gcc"] = {k: v["size"] for k, v in pr.items() if isinstance(v, dict)}
        out["c_header"] = res["outputs"].get("c")
    print(json.dumps(out, indent=1))
    return 0
