"""C02 - client and manager always agree on the subscription set.

proof:          coq/client/Props/C02.v over the REGENERATED Gen/ClientSub.v + Gen/MgrSub.v
correspondence: real Client against real MessageManager (vlib/client_worker.py, mode c02) vs
                Model/ClientSubs.v by vm_compute; observables only (exception class, subscribed_types,
                paused_subscribed_types, which probe types reach the client's socket)
spec oracle:    reported == delivered, paused not delivered, refusal changes nothing, the documented set
                algebra, context exit restores (subscribed, paused, delivered) - on the implementation's
                own output, independent of the model
"""
from __future__ import annotations

import itertools
import json
import random
from typing import Dict, List, Optional, Tuple

from ..framework import Check, coq_zlist
from ..client_common import FAM, run_worker, regen_or_report

ALL = 2147483647
UNI = [1001, 1002, 1003, 1004, 1005]      # defined-nowhere-in-particular signal ids (< MAX_MESSAGE_TYPES)
UNDEF = 9999                              # probe that only a subscribe-to-all client may receive
PROBES = UNI + [UNDEF]

THEOREMS = ["C02_agree", "C02_agree_nonvacuous", "C02_client_wf", "C02_frame_order_irrelevant", "C02_refused",
            "C02_refused_manager", "C02_refused_nonvacuous", "C02_ctx_restore", "C02_pause_ctx_restore",
            "C02_ctx_refused", "C02_ctx_loop_is_filter", "C02_ctx_nonvacuous"]

def zl(ns) -> str:
    ns = list(ns)
    return coq_zlist(ns) if ns else "(@nil Z)"


EXC = {None: 0, "InvalidSubscription": 1, "TypeError": 2}

HEADER = """From Coq Require Import ZArith List Bool String.
From Cli Require Import Model.SubBase Lib.PyList Gen.ClientSub Gen.MgrSub Model.ClientSubs.
Import ListNotations. Open Scope Z_scope.
Definition U : list Z := %s.
Definition exc_code (e : option cexc) : Z :=
  match e with None => 0 | Some EInvalidSubscription => 1 | Some ETypeError => 2 end.
Definition obs := (Z * list Z * list Z * list Z)%%type.
Definition obs_ok (s : sys) (e : option cexc) (o : obs) : bool :=
  let '(ec, sb, pa, dl) := o in
  (exc_code e =? ec) && seteq (subscribed (cl s)) sb && seteq (paused (cl s)) pa &&
  seteq (filter (delivered (mg s)) U) dl.
Fixpoint steps_ok (s : sys) (ops : list op) (os : list obs) : option sys :=
  match ops, os with
  | [], [] => Some s
  | o :: r, ob :: rs => let '(s', e) := sys_step s o in if obs_ok s' e ob then steps_ok s' r rs else None
  | _, _ => None
  end.
(* ctx expectation: kind (true = subscription_context), list, enter exception code, inside obs (if entered), after obs *)
Definition ctx_exp := (bool * list Z * Z * option obs * obs)%%type.
Definition ctx_ok (s : sys) (c : ctx_exp) : bool :=
  let '(k, l, ec, ins, aft) := c in
  match (if k then subscription_context s l else paused_subscription_context s l), ins with
  | (CtxOk s', Some s_in), Some io => (ec =? 0) && obs_ok s_in None io && obs_ok s' None aft
  | (CtxEnterRaised e s', None), None => (exc_code (Some e) =? ec) && obs_ok s' None aft
  | _, _ => false
  end.
Definition check_case (c : list op * list obs * option ctx_exp) : bool :=
  let '(ops, os, cx) := c in
  match steps_ok sys_init ops os with
  | None => false
  | Some s => match cx with None => true | Some x => ctx_ok s x end
  end.
""" % coq_zlist(PROBES)


# ---------------------------------------------------------------------------------------------
# rendering
# ---------------------------------------------------------------------------------------------

def op_coq(op) -> str:
    k = op[0]
    if k in ("sub", "unsub", "pause", "resume"):
        return {"sub": "OSub", "unsub": "OUnsub", "pause": "OPause", "resume": "OResume"}[k] + " " + zl(op[1])
    return {"unsub_all": "OUnsubAll", "pause_all": "OPauseAll", "resume_all": "OResumeAll"}[k]


def obs_coq(o: dict) -> str:
    return f"({EXC.get(o['exc'], 99)}, {zl(o['sub'])}, {zl(o['paused'])}, {zl(o['deliv'])})"


def case_coq(case: dict, res: dict) -> str:
    ops = "[" + "; ".join(op_coq(o) for o in case["ops"]) + "]"
    os_ = "[" + "; ".join(obs_coq(o) for o in res["steps"]) + "]"
    cx = "(@None ctx_exp)"
    if case.get("ctx"):
        r = res["ctx"]
        ins = f"(Some {obs_coq(r['inside'])})" if r["inside"] is not None else "(@None obs)"
        ec = EXC.get(r["enter_exc"], 99) if r["exit_exc"] is None else 98
        cx = (f"(Some ({'true' if case['ctx']['kind'] == 'sub' else 'false'}, {zl(case['ctx']['list'])}, "
              f"{ec}, {ins}, {obs_coq(r['after'])}))")
    return f"({ops}, {os_}, {cx})"


# ---------------------------------------------------------------------------------------------
# spec oracle (written from the property text and the API docstrings; does not use the model)
# ---------------------------------------------------------------------------------------------

def eff_list(op, sub: set, paused: set) -> Tuple[str, List[int]]:
    k = op[0]
    if k == "unsub_all":
        return "unsub", sorted(sub)
    if k == "pause_all":
        return "pause", sorted(sub)
    if k == "resume_all":
        return "resume", sorted(paused)
    return k, list(op[1])


def spec_step(kind: str, lst: List[int], sub: set, paused: set) -> Tuple[Optional[str], set, set]:
    """documented behaviour of one call: (exception, subscribed, paused)"""
    s = set(lst)
    if ALL in s:
        if kind in ("sub", "resume"):
            return None, {ALL}, set()
        return None, set(), set()
    if sub == {ALL}:
        return "InvalidSubscription", sub, paused
    if kind in ("sub", "resume"):
        return None, sub | s, paused - s
    if kind == "unsub":
        return None, sub - s, paused - s
    return None, sub - s, paused | s          # pause


def agree_failure(o: dict) -> Optional[str]:
    sub, paused, deliv = set(o["sub"]), set(o["paused"]), set(o["deliv"])
    want = set(PROBES) if sub == {ALL} else (sub & set(PROBES))
    if deliv != want:
        return f"client reports {sorted(sub)} but the manager delivers {sorted(deliv)}"
    if paused & deliv:
        return f"paused types {sorted(paused & deliv)} are delivered"
    return None


def py_loop(lst: List[int], pred) -> List[int]:
    """the literal loop of the context managers, executed by CPython itself"""
    l2 = list(lst)
    for mt in l2:
        if pred(mt):
            l2.remove(mt)
    return l2


def oracle(chk: Check, case: dict, res: dict):
    sub, paused = set(), set()
    tainted = False          # still in the state reached by a re-subscribe to all (class fixed by a892a86:
    #                          only used to NAME the failing class should it come back; it is a violation)
    prev = dict(sub=[], paused=[], deliv=[])
    for i, (op, o) in enumerate(zip(case["ops"], res["steps"])):
        kind, lst = eff_list(op, sub, paused)
        was_all = sub == {ALL}
        exp_exc, esub, epaused = spec_step(kind, lst, sub, paused)
        rep = dict(ops=case["ops"][:i + 1], observed=o, universe=PROBES)
        if o["exc"] != exp_exc:
            chk.spec_failure(f"exception:{kind}:{o['exc']}", f"step {i} {op}: raised {o['exc']}, documented {exp_exc}", rep)
        if exp_exc is not None and (o["sub"], o["paused"], o["deliv"]) != (prev["sub"], prev["paused"], prev["deliv"]):
            chk.spec_failure("refused:state-changed", f"step {i} {op}: refused call changed state {prev} -> {o}", rep)
        if (set(o["sub"]), set(o["paused"])) != (esub, epaused):
            chk.spec_failure(f"algebra:{kind}{':all' if ALL in lst else ''}",
                             f"step {i} {op}: client sets {o['sub']}/{o['paused']}, documented "
                             f"{sorted(esub)}/{sorted(epaused)}", rep)
        if was_all and kind in ("sub", "resume") and ALL in lst:
            tainted = True
        if set(o["sub"]) != {ALL}:
            tainted = False
        f = agree_failure(o)
        if f:
            chk.spec_failure("agree:resubscribe-all" if tainted else "agree:unexpected", f"step {i} {op}: {f}", rep)
        sub, paused, prev = set(o["sub"]), set(o["paused"]), o
    cx = case.get("ctx")
    if not cx:
        return
    r = res["ctx"]
    l, k = list(cx["list"]), cx["kind"]
    rep = dict(ops=case["ops"], ctx=cx, observed=r, universe=PROBES)
    individual = ALL not in l
    if not individual:
        for o in (r["inside"], r["after"]):
            if o is not None and agree_failure(o) and not tainted:
                chk.spec_failure("agree:unexpected", f"ctx {cx}: {agree_failure(o)}", rep)
        return
    if sub == {ALL}:
        if r["enter_exc"] != "InvalidSubscription" or (r["after"]["sub"], r["after"]["paused"], r["after"]["deliv"]) != \
                (prev["sub"], prev["paused"], prev["deliv"]):
            chk.spec_failure("ctx:refusal", f"ctx {cx} entered while subscribed to all: {r}", rep)
        return
    if r["enter_exc"] or r["exit_exc"]:
        chk.spec_failure("ctx:exception", f"ctx {cx}: raised {r['enter_exc'] or r['exit_exc']}", rep)
        return
    for o, where in ((r["inside"], "inside"), (r["after"], "after")):
        f = agree_failure(o)
        if f:
            chk.spec_failure("agree:unexpected", f"ctx {cx} {where}: {f}", rep)
    ins = set(r["inside"]["deliv"])
    if k == "sub" and not set(l) <= ins:
        chk.spec_failure("ctx:body-not-subscribed", f"ctx {cx}: inside the body {sorted(set(l) - ins)} not delivered", rep)
    if k == "pause" and set(l) & ins:
        chk.spec_failure("ctx:body-not-paused", f"ctx {cx}: inside the body {sorted(set(l) & ins)} still delivered", rep)
    a = r["after"]
    if (set(a["sub"]), set(a["paused"]), set(a["deliv"])) != (sub, paused, set(prev["deliv"])):
        # exit did NOT restore the entry state: a violation.  Name the class (the two classes fixed by 651ddd8 /
        # aa63f93 - `fixed:` lines suppress nothing) by evaluating the old loop on the input, so that a regression
        # is recognisable; anything else is ctx:unexpected
        keys = []
        asub, apaused = set(a["sub"]), set(a["paused"])
        if k == "sub":
            surv = py_loop(l, lambda t: t in sub)
            if any(t in sub and t not in asub for t in surv):
                keys.append("ctx:skip-after-removed")       # an already subscribed entry got unsubscribed
            if any(t in paused and t not in apaused and t not in asub for t in surv):
                keys.append("ctx:paused-on-entry")          # a paused entry is neither paused nor subscribed
            explained = {t for t in surv if t in sub or t in paused}
        else:
            surv = py_loop(l, lambda t: t not in sub)
            if any(t not in sub and t in asub for t in surv):
                keys.append("ctx:skip-after-removed")       # a not subscribed entry got subscribed
            explained = {t for t in surv if t not in sub}
        # anything that changed for a type outside the recorded survivors is a different violation
        changed = {t for t in set(PROBES) | sub | paused | asub | apaused
                   if (t in sub, t in paused) != (t in asub, t in apaused)}
        if not keys or not changed <= explained:
            keys.append("ctx:unexpected")
        for key in keys:
            chk.spec_failure(key, f"{k} ctx {l} from sub={sorted(sub)} paused={sorted(paused)}: after exit "
                                  f"sub={a['sub']} paused={a['paused']} delivered={a['deliv']}", rep)


# ---------------------------------------------------------------------------------------------
# generators
# ---------------------------------------------------------------------------------------------

def arg_shapes(atoms: List[int], maxlen: int) -> List[List[int]]:
    return [list(t) for n in range(maxlen + 1) for t in itertools.product(atoms, repeat=n)]


def all_ops(atoms: List[int], maxlen: int) -> List[list]:
    ops = [[k, s] for k in ("sub", "unsub", "pause", "resume") for s in arg_shapes(atoms, maxlen)]
    return ops + [["unsub_all"], ["pause_all"], ["resume_all"]]


def gen_cases(rng: random.Random, tier: str):
    a, b = UNI[0], UNI[1]
    ops = all_ops([a, b, ALL], 2)
    for o1 in ops:                       # every sequence of length 2 (length 1 = its first step)
        for o2 in ops:
            yield dict(ops=[o1, o2], ctx=None), "exh-len2"
    if tier == "thorough":
        ops3 = all_ops([a, ALL], 1)
        for t in itertools.product(ops3, repeat=4):
            yield dict(ops=list(t), ctx=None), "exh-len4-small"
    nrand = 4000 if tier == "thorough" else 400
    for _ in range(nrand):
        n = rng.randint(3, 8)
        seq = []
        for _ in range(n):
            r = rng.random()
            if r < 0.12:
                seq.append([rng.choice(["unsub_all", "pause_all", "resume_all"])])
                continue
            k = rng.choice(["sub", "sub", "unsub", "pause", "resume"])
            m = rng.choice([0, 1, 1, 2, 2, 3])
            lst = [rng.choice(UNI) for _ in range(m)]
            if rng.random() < 0.18:
                lst.insert(rng.randint(0, len(lst)), ALL)
            seq.append([k, lst])
        yield dict(ops=seq, ctx=None), "random"
    # context managers: every state of a 3-type universe x every non-empty list of length <= 3
    T = UNI[:3]
    lists = [l for l in arg_shapes(T, 3) if l]
    for st in itertools.product((0, 1, 2), repeat=3):
        S = [t for t, v in zip(T, st) if v == 1]
        P = [t for t, v in zip(T, st) if v == 2]
        for kind in ("sub", "pause"):
            for l in lists:
                yield dict(ops=[["sub", S], ["pause", P]], ctx=dict(kind=kind, list=l)), "ctx-" + kind
    for kind in ("sub", "pause"):
        for l in lists:
            yield dict(ops=[["sub", [ALL]]], ctx=dict(kind=kind, list=l)), "ctx-from-all"
        for l in ([ALL], [T[0], ALL], [ALL, T[0]]):
            yield dict(ops=[["sub", [T[1]]]], ctx=dict(kind=kind, list=l)), "ctx-with-all"
    # the SAME Client object on a second connection after the first one was lost (no disconnect()): nothing of the old
    # connection's subscriptions is the new connection's - client and manager both start from nothing
    for pre in ([["sub", [a, b]]], [["sub", [a, b]], ["pause", [b]]], [["sub", [ALL]]], [["sub", [a]], ["pause_all"]]):
        for main in ([], [["sub", [T[2]]]], [["resume_all"]], [["pause", [a]]], [["unsub", [a]]], [["resume", [b]]],
                     [["sub", [T[2]]], ["resume_all"], ["unsub_all"]]):
            yield dict(ops=main, ctx=None, prelude=dict(ops=pre)), "reconnect-after-loss"
        yield dict(ops=[["sub", [a]]], ctx=dict(kind="sub", list=[a, b]), prelude=dict(ops=pre)), "reconnect-after-loss"
    # longer lists with repetitions from random states
    for _ in range(1500 if tier == "thorough" else 150):
        S = [t for t in UNI if rng.random() < 0.4]
        P = [t for t in UNI if t not in S and rng.random() < 0.3]
        l = [rng.choice(UNI) for _ in range(rng.randint(1, 6))]
        yield dict(ops=[["sub", S], ["pause", P]], ctx=dict(kind=rng.choice(["sub", "pause"]), list=l)), "ctx-random"


# ---------------------------------------------------------------------------------------------

def run(chk: Check):
    rng = random.Random(chk.seed)
    regen_ok = regen_or_report(chk)
    proved = chk.prove(FAM, "Props.C02", THEOREMS) if regen_ok else False
    if proved and chk.tier == "thorough":          # independent checker; axioms of every loaded library reported
        ok, out = FAM.coqchk("Props.C02")
        chk.cov["coqchk"] = " ".join(out.split())[-1500:]
        if not ok:
            chk.broken_obligation("coqchk rejected Props.C02", out[-600:])
            proved = False

    gen = list(gen_cases(rng, chk.tier))
    cases = [g[0] for g in gen]
    results, _ = run_worker("c02", cases, dict(universe=PROBES))
    dist: Dict[str, int] = {}
    nontrivial = set()
    steps = 0
    coq_cases = []
    idx = []
    for i, ((case, tag), res) in enumerate(zip(gen, results)):
        if res is not None and res.get("manager_died"):
            prev = i - getattr(run_worker, "last_nproc", 1)
            seq = ([cases[prev]] if prev >= 0 else []) + [case]
            chk.spec_failure("manager:died", f"the MessageManager process exited while serving case {i} "
                                             f"(or cleaning up after the previous one): {res['harness_error']}",
                             dict(sequence=seq, universe=PROBES))
            continue
        if res is None or "harness_error" in res:
            chk.broken_obligation("harness failure running the implementation",
                                  f"case {i} {json.dumps(case)[:300]}: {res and res.get('harness_error')} {res and res.get('tb')}")
            return
        dist[tag] = dist.get(tag, 0) + 1
        steps += len(res["steps"]) + (2 if res["ctx"] else 0)
        for o in res["steps"]:
            if o["exc"]:
                dist["refused-calls"] = dist.get("refused-calls", 0) + 1
            if o["sub"] == [ALL]:
                dist["steps-in-sub-all"] = dist.get("steps-in-sub-all", 0) + 1
            if o["paused"]:
                dist["steps-with-paused"] = dist.get("steps-with-paused", 0) + 1
        last = res["steps"][-1] if res["steps"] else dict(sub=[], paused=[], deliv=[])
        if res["ctx"] or (last["deliv"] and set(last["deliv"]) != set(PROBES)) or last["paused"]:
            nontrivial.add(json.dumps(case, sort_keys=True))
        po = res.get("prelude")
        if case.get("prelude") and po is not None:
            if po.get("lost") != "ConnectionLost" or po["sub"] or po["paused"] or po["deliv"]:
                chk.spec_failure("reconnect:stale-mirror" if po.get("lost") == "ConnectionLost" else "reconnect:loss-not-reported",
                                 f"after {case['prelude']['ops']} the connection was lost ({po.get('lost')}) and the same Client connected "
                                 f"again: it reports subscribed={po['sub']} paused={po['paused']}, the manager delivers {po['deliv']} "
                                 f"(a new connection has no subscriptions)", dict(case=case, observed=res, universe=PROBES))
        oracle(chk, case, res)
        coq_cases.append(case_coq(case, res))
        idx.append(i)
    chk.cov["evaluations"] = steps
    chk.cov["distinct_nontrivial"] = len(nontrivial)
    chk.cov["rule"] = ("operation histories run on the real Client against the real MessageManager (one probe per "
                       "type of a 5-type universe plus an undefined id after every call) and on Model/ClientSubs.v "
                       "(vm_compute); exhaustive: all sequences of 2 calls over 55 calls (4 ops x 13 argument shapes "
                       "over {a,b,ALL} of size<=2, plus the 3 bulk variants); seeded random length 3-8; both context "
                       "managers from all 27 states of a 3-type universe (+ subscribed-to-all) x all 39 non-empty "
                       "lists of length<=3, plus random longer lists.  non-trivial = case that enters a context "
                       "manager or ends delivering a proper non-empty subset of the universe or with a paused type")
    chk.cov["input_distribution"] = dist
    chk.cov["exhaustive"] = "length-2 histories over 55 calls; context managers over 28 states x 39 lists"
    chk.add_samples([gen[0][0], gen[len(gen) // 3][0], gen[-200][0], gen[-1][0]])
    chk.assumptions += [
        "one client under test; other connections hold no subscriptions of their own besides the prober's two "
        "sentinels (the manager code touches only src_module's entries - read, not proved)",
        "control frames of one call are processed by the manager in the order sent (one TCP connection); their "
        "order is irrelevant anyway (C02_frame_order_irrelevant)",
        "context managers hand-modelled (Model/ClientSubs.v) with CPython list.remove / iterate-a-copy semantics "
        "(Lib/PyList.v): tied by the correspondence, not translated",
        "a probe is 'delivered' if its header reaches the client's socket after a manager round-trip barrier; "
        "manager write-readiness (wlist) is not an obstacle on an idle localhost connection",
        "context-manager bodies are empty; lists of individual types (ALL_MESSAGE_TYPES in the list is outside "
        "the property and only compared against the model)",
    ]
    if not proved:
        return
    bad, log = FAM.eval_cases(HEADER, coq_cases, per_file=250)
    chk.cov["traces_validated_against_impl"] = len(coq_cases) - len([b for b in bad if b >= 0])
    for b in bad[:3]:
        if b >= 0:
            c, tag = gen[idx[b]]
            chk.broken_obligation("correspondence Model/ClientSubs.v vs Client+MessageManager differs",
                                  f"case {b} tag={tag} {json.dumps(c)[:300]} impl={json.dumps(results[idx[b]])[:500]}")
        else:
            chk.broken_obligation("correspondence shard failed to evaluate", log[-600:])


def replay(path: str) -> int:
    d = json.load(open(path))
    r = d["replay"]
    if "sequence" in r:
        res, _ = run_worker("c02", r["sequence"] + [dict(ops=[], ctx=None)], dict(universe=r.get("universe", PROBES)), nproc=1)
        print(json.dumps(res, indent=1)[:3000])
        died = any(x.get("manager_died") for x in res)
        print("manager died" if died else "manager survived")
        return 1 if died else 0
    case = dict(ops=r["ops"], ctx=r.get("ctx"))
    res, _ = run_worker("c02", [case], dict(universe=r.get("universe", PROBES)))
    print(json.dumps(dict(case=case, observed=res[0]), indent=1))

    class _C:  # minimal sink to re-evaluate the oracle
        def __init__(self):
            self.hits = []

        def spec_failure(self, key, desc, replay):
            self.hits.append((key, desc))
    c = _C()
    oracle(c, case, res[0])  # type: ignore
    for k, dsc in c.hits:
        print(f"spec oracle: {k}: {dsc}")
    return 1 if c.hits else 0
