"""C15 - accepted definitions always yield outputs that load in their language."""
from __future__ import annotations

import json
import random
import re
from typing import Dict, List, Set

from ..framework import Check
from ..defs_common import FAM, regen_or_report
from ..defs_emit_common import (COQ_HEADER, DIFF_NAMES, F, build_corpus, closure_case, cyclic_closures, long_name_closures, substring_name_closures, closure_files, closure_model_ok, coq_case,
                                construct_classes, diagnose, names_of_model, observation, read_m, run_emit, source_classes)

THEOREMS = ["C15_total", "C15_total_closure", "C15_empty_file_ex", "C15_total_ex", "C15_total_div_ex", "C15_scoped_py_partial", "C15_scoped_c_partial",
            "C15_scoped_matlab_partial", "C15_scoped_js_partial", "C15_py_registers_every_message",
            "C15_scoped_refuted_alias_of_struct", "C15_scoped_refuted_struct_of_msg", "C15_js_alias_field_ok",
            "C15_matlab_header_only_when_defined", "C15_js_fresh", "C15_js_calls_disjoint", "C15_js_fresh_ex",
            "C15_ex_loads_everywhere"]
OPS = ["load_py", "load_c", "load_js"]

K_ALIAS_STRUCT = "alias-of-struct"
K_STRUCT_MSG = "struct-field-of-message-type"
K_JS_ALIAS = "js:alias-of-native-called"
K_JS_FILL = "js:array-fill-shares-element"
K_M_HDR = "matlab:message-header-without-coredefs"
K_SCHAR = "internal:signed-char"
K_ALIAS_FIELD = "internal:field-of-alias-of-struct"
K_DIV_ZERO = "internal:ZeroDivisionError:constant-expression"
K_EMPTY_FILE = "internal:AttributeError:empty-file"


def extra_closures(natives: List[str]) -> List[dict]:
    out = []
    out.append(dict(tag="coredefs-clean", cl=dict(files=[dict(path="root.yaml", imports=[1], items=[
        ("const", "N", ("lit", 4)), ("mid", "MY_MOD", 212), ("hid", "MY_HOST", 3),
        ("struct", "S1", F(("h", "RTMA_MSG_HEADER", None), ("m", "int16", ("ref", "N")), ("t", "int32", None))),
        ("msg", "M1", 1500, F(("s", "S1", None), ("n", "char", ("ref", "MAX_NAME_LEN")), ("i", "uint8", None))),
        ("msg", "M2", 1400, F(("a", "M1", None), ("b", "uint8", None), ("c", "int16", None))),
        ("msg", "SG", 1401, None), ("msg", "RU", 1402, ("reuse", "M1")), ("reserved", [1600, (1602, 1604)])]),
        dict(path="inc/a.yaml", imports=[], items=[("struct", "S0", F(("q", "uint16", ("lit", 3))))])],
        auto_pad=True, import_coredefs=True), coq=False))
    out.append(dict(tag="coredefs-core-alias-field", cl=dict(files=[dict(path="root.yaml", imports=[], items=[
        ("struct", "S1", F(("m", "MODULE_ID", None), ("t", "MSG_TYPE", ("lit", 2))))])], auto_pad=True, import_coredefs=True), coq=False))
    out.append(dict(tag="signed-char-field", cl=dict(files=[dict(path="root.yaml", imports=[], items=[
        ("struct", "S1", F(("a", "signed char", None)))])], auto_pad=True, import_coredefs=False), coq=True))
    out.append(dict(tag="signed-char-alias-only", cl=dict(files=[dict(path="root.yaml", imports=[], items=[
        ("alias", "SC", "signed char"), ("struct", "S1", F(("a", "int8", None), ("b", "SC", ("lit", 2))))])], auto_pad=True, import_coredefs=False), coq=True))
    # emission order: message classes must come out in definition order, not by id
    out.append(dict(tag="msg-order", cl=dict(files=[dict(path="root.yaml", imports=[1], items=[
        ("msg", "MB", 40, F(("a", "MZ", None), ("b", "MA", ("lit", 1)))), ("msg", "MC", 10, F(("a", "MB", None)))]),
        dict(path="a.yaml", imports=[], items=[("msg", "MZ", 900, F(("x", "int32", None))), ("msg", "MA", 50, F(("x", "MZ", None)))])],
        auto_pad=True, import_coredefs=False), coq=True))
    out.append(dict(tag="struct-order", cl=dict(files=[dict(path="root.yaml", imports=[], items=[
        ("struct", "Zs", F(("x", "int32", None))), ("struct", "Ys", F(("x", "Zs", None))), ("struct", "As", F(("x", "Ys", None), ("y", "Zs", None))),
        ("msg", "M1", 5, F(("x", "As", None)))])], auto_pad=True, import_coredefs=False), coq=True))
    # constant / length expressions outside the model's grammar: divisors that are not powers of two, division by a
    # constant, floor division and remainder, float literals (the evaluated length must come out as an int everywhere)
    out.append(dict(tag="expr-div-inexact", cl=dict(files=[dict(path="root.yaml", imports=[1], items=[
        ("const", "NAME_LEN", ("lit", 32)), ("const", "THIRD", ("raw", "WINDOW / 3")), ("const", "BACK", ("raw", "THIRD * 3")),
        ("const", "FL", ("raw", "2.5")), ("const", "PER", ("raw", "NAME_LEN / HALF_WINDOW")), ("const", "FLOORED", ("raw", "WINDOW // 3")),
        ("struct", "TRACE", F(("subject", "char", ("raw", "NAME_LEN / 2")), ("samples", "int16", ("ref", "HALF_WINDOW")),
                              ("w", "double", ("raw", "HALF_WINDOW")), ("t", "int8", ("ref", "THIRD")), ("b", "int8", ("ref", "BACK")),
                              ("f", "uint16", ("raw", "FL * 2")), ("p", "int32", ("ref", "PER")), ("q", "int8", ("raw", "(WINDOW + NAME_LEN) / 7")),
                              ("r", "int8", ("raw", "WINDOW % 5 + FLOORED")), ("u", "int8", ("raw", "7 / 3 * 3")))),
        ("msg", "M1", 1500, F(("t", "TRACE", ("raw", "WINDOW / 8")), ("n", "char", ("raw", "NAME_LEN  / 2"))))]),
        dict(path="base.yaml", imports=[], items=[("const", "WINDOW", ("lit", 16)), ("const", "HALF_WINDOW", ("raw", "WINDOW / 2"))])],
        auto_pad=True, import_coredefs=False), coq=False))
    out.append(dict(tag="expr-div-nopad", cl=dict(files=[dict(path="root.yaml", imports=[], items=[
        ("const", "W", ("lit", 16)), ("const", "H", ("div", ("ref", "W"), 2)),
        ("struct", "S1", F(("a", "double", ("ref", "H")), ("b", "int64", ("div", ("ref", "H"), 4)), ("c", "uint64", ("div", ("lit", 5), 2))))])],
        auto_pad=False, import_coredefs=False), coq=True))
    # a division by zero in a constant expression: ZeroDivisionError out of eval(), not a ParserError (recorded finding)
    out.append(dict(tag="expr-div-by-zero", cl=dict(files=[dict(path="root.yaml", imports=[], items=[
        ("const", "N", ("lit", 4)), ("const", "Z", ("lit", 0)), ("const", "BAD", ("raw", "N / Z")),
        ("struct", "S1", F(("a", "int8", ("ref", "N"))))])], auto_pad=True, import_coredefs=False), coq=False))
    out.append(dict(tag="expr-div-by-zero-length", cl=dict(files=[dict(path="root.yaml", imports=[], items=[
        ("const", "N", ("lit", 4)), ("struct", "S1", F(("a", "int8", ("raw", "N / 0"))))])], auto_pad=True, import_coredefs=False), coq=False))
    # a file without any section (an empty YAML document, or comments only), imported or as the root: defines nothing
    # (bebb1a6; it used to end in AttributeError - key internal:AttributeError:empty-file)
    out.append(dict(tag="empty-imported-file", cl=dict(files=[
        dict(path="root.yaml", imports=[1, 2], items=[("struct", "S1", F(("a", "S0", None)))]),
        dict(path="inc/a.yaml", imports=[], items=[("struct", "S0", F(("q", "uint16", ("lit", 3))))]),
        dict(path="inc/empty.yaml", imports=[], items=[])], auto_pad=True, import_coredefs=False), coq=True))
    out.append(dict(tag="empty-root-file", cl=dict(files=[dict(path="root.yaml", imports=[], items=[])],
                                                   auto_pad=True, import_coredefs=False), coq=True))
    out.append(dict(tag="comments-only-imported-file", cl=dict(files=[
        dict(path="root.yaml", imports=[1], items=[("msg", "M1", 5, F(("a", "int32", None)))]),
        dict(path="notes.yaml", imports=[], items=[], text="# nothing defined here yet\n\n# message_defs:\n")],
        auto_pad=True, import_coredefs=False), coq=True))
    out += cyclic_closures()        # import cycles: legal, every file read once, all four outputs must load
    out += substring_name_closures()    # N and N_MAX, CH and CH_PER_N, MAX and N_MAX, A / AA / XAAX in one expression, both orders
    out += [c for c in long_name_closures(46, 50)]
    out.append(dict(tag="constant-named-like-field", cl=dict(files=[dict(path="root.yaml", imports=[], items=[
        ("const", "count", ("lit", 3)), ("struct", "S1", F(("count", "int32", None), ("b", "int32", ("ref", "count")))),
        ("struct", "RTMA_MSG_HEADER", F(("msg_type", "int32", None)))])], auto_pad=True, import_coredefs=False), coq=False))
    return out


def tainted(model: dict, pred) -> Set[str]:
    """names of definitions that have (transitively, through nested definitions) a field satisfying pred"""
    defs = {("m" if "type_id" in d else "s") + ":" + d["name"]: d for d in model["structs"] + model["messages"]}
    res: Set[str] = set()
    changed = True
    while changed:
        changed = False
        for key, d in defs.items():
            if key in res:
                continue
            for f in d["fields"]:
                sub = ("m:" if f["kind"] == "MDF" else "s:") + f["type_name"] if f["kind"] in ("SDF", "MDF") else None
                if pred(f) or (sub in res):
                    res.add(key)
                    changed = True
                    break
    return res


def load_oracle(c: dict, res: dict, obs) -> List[tuple]:
    """-> [(key, description)] : every way in which an output of an accepted closure fails to load"""
    out = []
    model = res["model"]
    cs = construct_classes(model)
    alias_targets = {a[1] for a in model["aliases"] if a[2] == "SDF"}
    alias_struct_names = {a[0] for a in model["aliases"] if a[2] == "SDF"}
    msgs_in_structs = {f["type_name"] for s in model["structs"] for f in s["fields"] if f["kind"] == "MDF"}
    L = res["load"]
    if res["compile_exc"]:
        if res["compile_exc"].startswith("HANG"):
            out.append(("hang:compile", "compile() of an accepted closure does not terminate: " + res["compile_exc"][:150]))
        elif "signed-char" in cs:
            out.append((K_SCHAR, "compile() raised in a back end: " + res["compile_exc"][:150]))
        else:   # compile() raising anything at all after the parser accepted the closure is an internal error
            out.append(("internal:" + res["compile_exc"].split(":")[0] + ":emit", "compile() raised in a back end: " + res["compile_exc"][:200]))
        return out

    def explain(name: str, lang: str, what: str):
        """is the missing name the target of an alias-of-struct, or a message used as a struct member?"""
        n = name[4:] if name.startswith("MDF_") else name
        if name.startswith("MDF_") or lang in ("m-msg", "js"):
            if n in msgs_in_structs and lang != "js":
                return K_STRUCT_MSG
        if n in alias_targets:
            return K_ALIAS_STRUCT
        if lang == "m-msg" and n in msgs_in_structs:
            return K_STRUCT_MSG
        return None

    # ---- python
    py = L.get("py")
    if py is not None:
        if not py["ok"] and py["err"].startswith("HANG"):
            out.append(("hang:load-python", py["err"][:200]))
        elif not py["ok"]:
            m = re.search(r"name '(\w+)' is not defined", py["err"])
            k = explain(m.group(1), "py", py["err"]) if m else None
            if k is None and "signed-char" in cs and "SyntaxError" in py["err"]:
                k = K_SCHAR
            out.append((k or "py:import:" + py["err"].split(":")[0], "generated python module does not import: " + py["err"][:200]))
        else:
            want = {("MDF_" + m["name"]) for m in model["messages"]} | {s["name"] for s in model["structs"]}
            got = {c2["name"] for c2 in py["classes"]}
            if want - got:
                out.append(("py:missing-class", f"classes missing from the imported module: {sorted(want - got)[:5]}"))
            for c2 in py["classes"]:
                if c2.get("registered") is False:
                    out.append(("py:not-registered", f"{c2['name']} (type_id {c2['type_id']}) is not in pyrtma.message._msg_defs"))
    # ---- C
    cc = L.get("c")
    if cc is not None and not cc["ok"] and cc["err"].startswith("HANG"):
        out.append(("hang:load-c", cc["err"][:200]))
    elif cc is not None and not cc["ok"]:
        m = re.search(r"unknown type name .(\w+).", cc["err"])
        k = explain(m.group(1), "c", cc["err"]) if m else None
        m2 = re.search(r"in expansion of macro .(\w+).", cc["err"])
        if k is None and m2 and m2.group(1) in {c2[0] for c2 in model["constants"]} | {c2[0] for c2 in model["string_constants"]}:
            fields = {f["name"] for d in model["structs"] + model["messages"] for f in d["fields"]}
            if m2.group(1) in fields:
                k = "c:constant-macro-captures-field-name"
        out.append((k or "c:syntax", "generated C header does not compile: " + cc["err"][-250:]))
    elif cc is not None and cc.get("warn"):
        out.append(("c:warning", "gcc warns on the generated header: " + cc["warn"][-200:]))
    # ---- javascript
    js = L.get("js")
    if js is not None:
        if not js["ok"] and js["err"].startswith("HANG"):
            out.append(("hang:load-js", js["err"][:200]))
        elif not js["ok"]:
            m = re.search(r"reading '(\w+)'", js["err"])
            k = K_ALIAS_STRUCT if (m and m.group(1) in alias_targets) else None
            out.append((k or "js:import", "generated javascript module does not import: " + js["err"][:200]))
        else:
            t_alias = tainted(model, lambda f: f["kind"] == "TypeAlias")
            t_fill = tainted(model, lambda f: f["kind"] in ("SDF", "MDF") and f["length"] is not None and f["length"] >= 2)
            for sec, key, pfx in (("SDF", "structs", "s:"), ("MDF", "messages", "m:")):
                for d in model[key]:
                    f = js[sec].get(d["name"])
                    if f is None:
                        out.append(("js:missing-factory", f"RTMA.{sec}.{d['name']} missing"))
                        continue
                    if not f["ok"]:
                        out.append((K_JS_ALIAS if pfx + d["name"] in t_alias else "js:factory-throws",
                                    f"RTMA.{sec}.{d['name']}() throws: {f['err'][:120]}"))
                        continue
                    if f["shared"]:
                        out.append((K_JS_FILL if pfx + d["name"] in t_fill else "js:shared-object",
                                    f"RTMA.{sec}.{d['name']}() returns array elements that are one and the same object"))
                    if not f["fresh2"]:
                        out.append(("js:not-fresh", f"two calls of RTMA.{sec}.{d['name']}() share an object"))
    # ---- matlab (assignment order only)
    if obs is not None and obs.get("readers"):
        rm = obs["readers"]["m"]
        for e in rm["errors"][:3]:
            out.append(("matlab:unreadable", "statement outside the documented assignment forms: " + e[:150]))
        for path in rm["ubd"]:
            sec, n = path.split(".", 1)
            if path == "typedefs.RTMA_MSG_HEADER" and "no-msg-header" in cs:
                k = K_M_HDR
            elif sec == "MDF":
                k = K_STRUCT_MSG if n in msgs_in_structs else None
            else:
                k = K_ALIAS_STRUCT if n in alias_targets else None
            out.append((k or "matlab:use-before-definition", f"RTMA.{path} is read before it is assigned"))
    return out


def run(chk: Check):
    rng = random.Random(chk.seed + 15)
    # a translator that fails closed is reported (broken obligation); the implementation is still run against the
    # spec oracle and the (last generated) model, so that a behavioural change comes with a concrete failing input
    regen_or_report(chk)
    chk.prove(FAM, "Props.C15", THEOREMS)
    from ..translate import tables as T
    allnat = [k for k, _, _, _ in T.parser_supported_types()]
    natives = list(allnat)
    corpus = build_corpus(rng, chk.tier, natives) + extra_closures(natives)
    results = run_emit([closure_case(c["cl"], OPS) for c in corpus])

    coq_cases, coq_idx = [], []
    dist: Dict[str, int] = {}
    loads = dict(py=[0, 0], c=[0, 0], js_import=[0, 0], js_factories=[0, 0], matlab=[0, 0])
    nontrivial = set()
    for k, (c, res) in enumerate(zip(corpus, results)):
        tag = c["tag"].split(":")[0] if not c["tag"].startswith("rnd:") else c["tag"]
        dist[tag] = dist.get(tag, 0) + 1
        if res["exc"] == "HARNESS":
            chk.broken_obligation("harness failure running the implementation", res["msg"])
            return
        replay = dict(files=closure_files(c["cl"]), root=c["cl"]["files"][0]["path"], auto_pad=c["cl"].get("auto_pad", True),
                      import_coredefs=c["cl"].get("import_coredefs", False), tag=c["tag"])
        obs = observation(res)
        if c["tag"] in ("empty-imported-file", "empty-root-file", "comments-only-imported-file") and not res["ok"] \
                and res["exc"] != "AttributeError":
            # (an AttributeError is keyed below) - any other outcome than a clean parse is wrong as well
            chk.spec_failure("empty-file:not-accepted", f"a closure with an empty definition file is not accepted: {res['exc']}: {res['msg'][:160]}", replay)
        if c.get("expect") == "accept" and not res["ok"] and (res["is_parser_error"] or res["exc"] in ("AssertionError", "FileNotFoundError")):
            # well-formed by construction (import cycles): a clean rejection is as wrong as an internal error
            chk.spec_failure("rejected-wellformed:" + c["tag"].split(":")[0] + ":" + str(res["exc"]),
                             f"a well-formed closure ({c['tag']}) is rejected: {res['exc']}: {res['msg'][:200]}", replay)
        if not res["ok"]:
            dist["rejected:" + str(res["exc"])] = dist.get("rejected:" + str(res["exc"]), 0) + 1
            if not res["is_parser_error"] and res["exc"] not in ("AssertionError", "FileNotFoundError"):
                # an internal error on a closure of documented constructs
                cs = source_classes(c["cl"])
                if res["exc"] == "HANG":     # a compile that does not terminate (worker watchdog): a violation, not a harness problem
                    key = "hang:" + str(res.get("hang") or "parse")
                elif res["exc"] == "KeyError" and "signed-char" in cs:
                    key = K_SCHAR
                elif res["exc"] == "TypeError" and "must be a C type" in res["msg"] and _has_alias_struct_field(c["cl"]):
                    key = K_ALIAS_FIELD
                elif res["exc"] == "AttributeError" and "'NoneType' object has no attribute" in res["msg"] and _has_empty_file(c["cl"]):
                    key = K_EMPTY_FILE
                elif res["exc"] == "ZeroDivisionError" and _divides_by_zero(c["cl"]):
                    key = K_DIV_ZERO
                else:
                    # any exception that is not one of the project's ParserError family (nor the two user-facing asserts /
                    # a missing file) is an internal error; <where> = the parser (the back ends: `...:emit`)
                    key = "internal:" + str(res["exc"]) + ":parse"
                chk.spec_failure(key, f"compile ends in an internal error {res['exc']}: {res['msg'][:160]}", replay)
        else:
            dist["accepted"] = dist.get("accepted", 0) + 1
            cs = construct_classes(res["model"])
            nontrivial.add((tuple(sorted(cs)), len(c["cl"]["files"]), len(res["model"]["structs"]), len(res["model"]["messages"])))
            for key, desc in load_oracle(c, res, obs):
                chk.spec_failure(key, desc, replay)
            L = res["load"]
            if L.get("py") is not None:
                loads["py"][0 if L["py"]["ok"] else 1] += 1
            if L.get("c") is not None:
                loads["c"][0 if L["c"]["ok"] else 1] += 1
            if L.get("js") is not None:
                loads["js_import"][0 if L["js"]["ok"] else 1] += 1
                for sec in ("SDF", "MDF"):
                    for f in L["js"][sec].values():
                        loads["js_factories"][0 if (f["ok"] and not f["shared"]) else 1] += 1
            if obs is not None and obs.get("readers"):
                loads["matlab"][0 if not obs["readers"]["m"]["ubd"] else 1] += 1
        if c["coq"] and closure_model_ok(c["cl"]) and obs is not None:
            coq_cases.append(coq_case(c["cl"], obs))
            coq_idx.append(k)

    bad, log = FAM.eval_cases(COQ_HEADER, coq_cases, per_file=12, timeout=900)
    chk.cov["evaluations"] = len(corpus)
    chk.cov["traces_validated_against_impl"] = len(coq_cases) - len([b for b in bad if b >= 0])
    chk.cov["distinct_nontrivial"] = len(nontrivial)
    chk.cov["rule"] = ("closures compiled by the real pyrtma.compile.compile (all outputs on one Parser, CLI order); the generated python module "
                       "imported in a subprocess (registration of every message checked), gcc -fsyntax-only on the header, node import + two "
                       "calls of every factory with object-identity analysis, line reader of the .m assignments (use before definition); "
                       "Model/Emit.v evaluated by vm_compute on the same closures: parse outcome (exception class), parsed state, ordered "
                       "definition/use events of all four back ends, and the verdicts `loads / does not load` per back end and per factory. "
                       "non-trivial = distinct (construct classes present, files, structs, messages)")
    chk.cov["input_distribution"] = dist
    chk.cov["loads_yes_no"] = loads
    chk.cov["exhaustive"] = False
    chk.add_samples([dict(tag=c["tag"], files=closure_files(c["cl"])) for c in corpus[15:17] + corpus[32:34] + corpus[90:91]])
    chk.assumptions += [
        "MATLAB: no interpreter here - `loads` means every RTMA.a.b read on a right-hand side was assigned earlier in the script",
        "C: gcc -std=gnu11 -fsyntax-only; with import_coredefs the typedefs RTMA_types.h would supply are prepended",
        "identifiers legal in all four languages (generated names); names distinct across constants/aliases/structs/messages",
        "constant expressions reference at most 10 constants (expand_expression raises the builtin RecursionError beyond that)",
        "constant / length expressions of the model: integer literals, constants of any file, + - *, true division by a positive literal "
        "(`A / 2`, `(A + B) / 2`, `5 / 2`: the value is a float, the length int() of it - Gen/EmitGuards.v, translator fails closed without "
        "the int()); floats are modelled by exact rationals, which is the implementation's arithmetic for the generated divisors (powers "
        "of two); divisors 3, 7, a constant as divisor, // and %, float literals: implementation + oracle only (expr-div-inexact)",
        "every stage of a case runs under a watchdog (parse 20 s, compile 40 s, loaders 120 s): a stage that does not finish is "
        "reported as a violation `hang:<stage>` with the closure, the run goes on",
    ]
    if bad:
        codes = diagnose(FAM, [coq_cases[b] for b in bad[:4] if b >= 0])
        for b, code in zip([b for b in bad[:4] if b >= 0], codes):
            c = corpus[coq_idx[b]]
            chk.broken_obligation(f"correspondence Model/Emit.v vs implementation differs in: {DIFF_NAMES.get(code, code)}",
                                  f"case tag={c['tag']} files={json.dumps(closure_files(c['cl']))[:500]}")
        if any(b < 0 for b in bad):
            chk.broken_obligation("correspondence shard failed to evaluate", log[-600:])


def _has_empty_file(cl: dict) -> bool:
    """a file of the closure without any section (no imports, no items): an empty YAML document"""
    return any(not f.get("missing") and not f.get("imports") and not f["items"] and not f.get("options") for f in cl["files"])


def _divides_by_zero(cl: dict) -> bool:
    """a constant or length expression of the source divides by a literal 0 or by a constant whose value is 0"""
    zero = set()
    for f in cl["files"]:
        for it in f["items"]:
            if it[0] == "const" and it[2][0] == "lit" and it[2][1] == 0:
                zero.add(it[1])
    pat = re.compile(r"(/|//|%)\s*(0\b(?!\.)|" + "|".join(re.escape(z) + r"\b" for z in sorted(zero)) + ")") if zero \
        else re.compile(r"(/|//|%)\s*0\b(?!\.)")
    for f in cl["files"]:
        for it in f["items"]:
            es = []
            if it[0] == "const":
                es.append(it[2])
            if it[0] in ("struct", "msg"):
                b = it[2] if it[0] == "struct" else it[3]
                if b and b[0] == "fields":
                    es += [ln for _, _, ln in b[1] if ln is not None]
            for e in es:
                if e[0] == "raw" and pat.search(e[1]):
                    return True
    return False


def _has_alias_struct_field(cl: dict) -> bool:
    structs = {it[1] for f in cl["files"] for it in f["items"] if it[0] == "struct"}
    al = {}
    for f in cl["files"]:
        for it in f["items"]:
            if it[0] == "alias":
                al[it[1]] = it[2]

    def base(n, depth=0):
        while n in al and depth < 12:
            n = al[n]
            depth += 1
        return n
    for f in cl["files"]:
        for it in f["items"]:
            if it[0] in ("struct", "msg"):
                b = it[2] if it[0] == "struct" else it[3]
                if b and b[0] == "fields":
                    for _, ty, _ in b[1]:
                        if ty in al and base(ty) in structs:
                            return True
    return False


def replay(path: str) -> int:
    d = json.load(open(path))
    r = d["replay"]
    res = run_emit([dict(files=r["files"], root=r["root"], auto_pad=r.get("auto_pad", True),
                         import_coredefs=r.get("import_coredefs", False), ops=OPS)])[0]
    out = dict(ok=res["ok"], exc=res["exc"], msg=res["msg"], compile_exc=res["compile_exc"])
    if res["ok"]:
        L = res["load"]
        out["python_import"] = dict(ok=L["py"]["ok"], err=L["py"]["err"]) if "py" in L else None
        out["gcc"] = dict(ok=L["c"]["ok"], err=L["c"]["err"][-300:]) if "c" in L else None
        if "js" in L:
            out["node"] = dict(ok=L["js"]["ok"], err=L["js"]["err"],
                               factories={k: dict(ok=v["ok"], err=v["err"], shared=v["shared"]) for sec in ("SDF", "MDF") for k, v in L["js"][sec].items()})
        if res["outputs"].get("matlab"):
            out["matlab_read_before_assigned"] = read_m(res["outputs"]["matlab"], names_of_model(res["model"]))["ubd"]
    print(json.dumps(out, indent=1))
    return 0
