"""C06 - Module identity: unique ids, sound dynamic ids, options honoured."""
import random
from ..framework import Check
from .. import mgr_check, mgr_common as C

THEOREMS = ["C06_unique", "C06_connect", "C06_user_range", "C06_dynamic_fresh", "C06_ex",
            "C06_connect_options_named", "C06_context_options_named"]
CHECKERS = ["C06", "C03"]


def directed(rng: random.Random, tier: str):
    out = []
    # wrap the dynamic-id cursor with connect/disconnect churn
    hs = C.History(loglevel=60, tag="dyn-wrap")
    hs.round([], [], 0, accept=True)
    hs.round([(1, hs.connect_v2(logger=1, mod_id=0))], [1], 0)
    hs.round([(1, hs.sub("sub", C.ALL))], [1], 0)
    n = 0
    keep = []
    for i in range(2, 112 if tier == "quick" else 230):
        hs.round([], [], 0, accept=True)
        hs.round([(i, hs.connect_v1(src_mod=0))], [1, i], 0)
        if i % 7 == 0 or (i - 2) % 100 in (97, 98, 99, 0, 1, 2):
            keep.append(i)      # stay connected: among others, those served while the cursor wraps past the monitor's id
        else:
            hs.round([(i, hs.disconnect())], [1, i], 0)
    out.append(hs)
    # boundary of the two id ranges: an explicit id equal to the first dynamic id, then dynamic requests
    for explicit in (C.DYN_START if hasattr(C, "DYN_START") else 100, 99, 101, 199):
        hs = C.History(loglevel=60, tag="dyn-boundary")
        for _ in range(5):
            hs.round([], [], 0, accept=True)
        hs.round([(1, hs.connect_v2(logger=1, mod_id=10))], [1, 2, 3, 4, 5], 0)
        hs.round([(1, hs.sub("sub", C.ALL))], [1, 2, 3, 4, 5], 0)
        hs.round([(2, hs.connect_v1(src_mod=explicit))], [1, 2, 3, 4, 5], 0)
        hs.round([(3, hs.connect_v1(src_mod=0))], [1, 2, 3, 4, 5], 0)
        hs.round([(4, hs.connect_v1(src_mod=0))], [1, 2, 3, 4, 5], 0)
        hs.round([(5, hs.connect_v2(mod_id=0))], [1, 2, 3, 4, 5], 0)
        out.append(hs)
    # identity rules at connect, systematically: every ordered triple of connection requests over
    # id in {dynamic, 5} x allow_multiple in {no, yes} x name in {none, "worker"} (CONNECT_V2), each connection accepted
    # first; a monitor sees the acknowledgements.  Whatever the order, the third request must be judged against BOTH
    # earlier modules.
    kinds = [(mid, am, nm) for mid in (0, 5) for am in (0, 1) for nm in (b"", b"worker")]
    triples = [(a, b, c) for a in kinds for b in kinds for c in kinds]
    for a, b, c in triples:
        hs = C.History(loglevel=60, tag="identity-triples")
        for _ in range(4):
            hs.round([], [], 0, accept=True)
        hs.round([(1, hs.connect_v2(logger=1, mod_id=90))], [1, 2, 3, 4], 0)
        hs.round([(1, hs.sub("sub", C.ALL))], [1, 2, 3, 4], 0)
        for conn, (mid, am, nm) in zip((2, 3, 4), (a, b, c)):
            hs.round([(conn, hs.connect_v2(mod_id=mid, allow_multiple=am, name=nm))], [1, 2, 3, 4], 0)
        out.append(hs)
    return out



def run(chk: Check):
    mgr_check.run_property(
        chk, "C06", "Props.C06", THEOREMS,
        model_profiles={"ids": 300, "routing": 60},
        oracle_flavors={"ids": 300},
        checkers=CHECKERS,
        extra_histories=directed,
        assumptions=[
            "the client-side half (options passed through Client.connect / client_context reach the CONNECT frames as "
            "named) is checked by the separate client-plumbing test below, not by a theorem",
        ])
    client_plumbing(chk)


def client_plumbing(chk: Check):
    """every public way of connecting: which option lands in which CONNECT / CONNECT_V2 field"""
    import json, subprocess
    from ..framework import PY, VERIF, impl_env
    p = subprocess.run([PY, str(VERIF / "vlib" / "c06_plumbing.py")], capture_output=True, text=True,
                       env=impl_env(), timeout=300, cwd="/")
    if p.returncode != 0:
        chk.broken_obligation("client plumbing probe failed to run", p.stderr[-600:])
        return
    res = json.loads(p.stdout)
    chk.cov["client_plumbing_cases"] = len(res)
    for r in res:
        if r["got"] != r["want"]:
            key = "options:" + r["entry"] + ":" + ",".join(sorted(k for k in r["want"] if r["got"].get(k) != r["want"][k]))
            chk.spec_failure(key=key, desc=f"{r['entry']}({r['args']}) sent {r['got']}, expected {r['want']}",
                             replay=dict(plumbing=r))


def replay(path: str) -> int:
    import json
    d = json.load(open(path))
    if "plumbing" in d.get("replay", {}):
        print(json.dumps(d["replay"]["plumbing"], indent=1))
        return 0
    return mgr_check.replay("C06", path, CHECKERS)
