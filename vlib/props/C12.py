"""C12 - id and name conflicts are always detected, never invented, across the whole import closure."""
from __future__ import annotations

import hashlib
import itertools
import json
import random
from typing import Dict, List, Optional, Tuple

from ..framework import Check
from ..defs_common import FAM, run_impl, native_names
from ..defs_reg_common import regen_cone
from ..defs_reg_common import (new_file, rel_import, to_case, coq_closure, impl_flat, with_core, is_core_name,
                               file_yaml, REG_HEADER, MISSING, EXC_CODE, CORE, core_path)

THEOREMS = [
    "C12_ties_to_code", "C12_fuel_sufficient", "C12_parse_is_run_of_trace", "C12_trace_visits_reachable_once",
    "C12_first_conflict", "C12_complete", "C12_complete_msg_id", "C12_complete_name", "C12_complete_host_module_id",
    "C12_complete_range", "C12_range_guards", "C12_no_false_conflict", "C12_sound", "C12_wf_is_check_name",
    "C12_reserved_name_inj", "C12_ex_reserved_is_not_a_name", "C12_ex_core_file_identity",
    "C12_ex_diamond_once", "C12_ex_cycle", "C12_ex_reserved_overlap",
]

PATHS = ["root.yaml", "a/f1.yaml", "a/b/f2.yaml", "c/f3.yaml", "a/b/d/f4.yaml", "c/e/f5.yaml"]
SHARED = ["const", "str", "alias", "struct", "msg"]
IDFORMS = ["def", "sig", "rint", "rdash", "rto"]
PLACEMENTS = {
    # name: (n files, edges, file of item A, file of item B)
    "same": (1, [], 0, 0),
    "parent-child": (2, [(0, 1)], 0, 1),
    "child-parent": (2, [(0, 1)], 1, 0),
    "siblings": (3, [(0, 1), (0, 2)], 1, 2),
    "cousins": (5, [(0, 1), (0, 2), (1, 3), (2, 4)], 3, 4),
    "diamond": (4, [(0, 1), (0, 2), (1, 3), (2, 3)], 3, 0),
    "cycle": (2, [(0, 1), (1, 0)], 0, 1),
}


def mk(n: int, edges, icd=False, paths=PATHS) -> dict:
    files = [new_file(paths[i]) for i in range(n)]
    for i, j in edges:
        files[i]["imports"].append((j, rel_import(paths[i], paths[j])))
    return dict(files=files, root=0, icd=icd, symlinks={}, cwd=None)


class Fresh:
    """allocator of names / ids that collide with nothing (core items included)"""

    def __init__(self, rng: random.Random):
        self.rng = rng
        self.k = 0
        self.msg = 1000
        self.mod = 20
        self.host = 10

    def name(self, p="X"):
        self.k += 1
        return f"{p}{self.k}"

    def msg_id(self, width=1):
        v = self.msg
        self.msg += width + self.rng.randint(0, 2)
        return v

    def mod_id(self):
        self.mod += 1
        if 99 < self.mod < 200:
            self.mod = 200
        return self.mod

    def host_id(self):
        self.host += 1
        return self.host


def add_shared(f: dict, kind: str, name: str, fr: Fresh):
    if kind == "const":
        f["constants"].append((name, fr.rng.randint(-5, 500)))
    elif kind == "str":
        f["strings"].append(name)
    elif kind == "alias":
        f["aliases"].append((name, fr.rng.choice(["int32", "double", "unsigned int", "char", "uint16"])))
    elif kind == "struct":
        f["structs"].append(name)
    elif kind == "msg":
        f["messages"].append(("def", name, fr.msg_id(), fr.rng.random() < 0.5))


def add_idform(f: dict, form: str, i: int, fr: Fresh, merge=True):
    if form == "def":
        f["messages"].append(("def", fr.name("M"), i, False))
        return
    if form == "sig":
        f["messages"].append(("def", fr.name("S"), i, True))
        return
    lo = max(0, i - fr.rng.randint(0, 2))
    e = {"rint": ("int", i), "rdash": ("range", lo, i + fr.rng.randint(0, 2), fr.rng.choice(["dash", "spdash"])),
         "rto": ("range", lo, i + fr.rng.randint(0, 2), fr.rng.choice(["to", "tight"]))}[form]
    for m in f["messages"]:
        if m[0] == "res":
            m[1].append(e)
            return
    f["messages"].append(("res", [e]))


def filler(cl: dict, fr: Fresh, density=1.0):
    rng = fr.rng
    for f in cl["files"]:
        for _ in range(rng.choice([0, 1, 1, 2, 3]) if rng.random() < density else 0):
            k = rng.choice(["const", "str", "alias", "struct", "msg", "host", "mod", "res"])
            if k in SHARED:
                add_shared(f, k, fr.name(), fr)
            elif k == "host":
                f["hosts"].append((fr.name("H"), fr.host_id()))
            elif k == "mod":
                f["modules"].append((fr.name("MD"), fr.mod_id()))
            elif not any(m[0] == "res" for m in f["messages"]):
                w = rng.randint(1, 4)
                a = fr.msg_id(w)
                f["messages"].append(("res", [("range", a, a + w - 1, rng.choice(["dash", "to", "spdash", "tight"]))]
                                      if w > 1 else [("int", a)]))
        if rng.random() < 0.3:
            sec = ["imports", "constants", "string_constants", "aliases", "host_ids", "module_ids", "struct_defs",
                   "message_defs"]
            rng.shuffle(sec)
            f["order"] = sec


def digraphs(n: int):
    cells = [(i, j) for i in range(n) for j in range(n)]
    for mask in range(1 << len(cells)):
        yield [c for k, c in enumerate(cells) if mask >> k & 1]


# ---- generator ---------------------------------------------------------------------------

def gen_cases(rng: random.Random, tier: str):
    out: List[Tuple[dict, str]] = []

    def emit(cl, tag):
        out.append((cl, tag))

    # A. conflict-free sets over import graph shapes (self loops and cycles included)
    shapes = []
    for n in (1, 2, 3):
        shapes += [(n, e) for e in digraphs(n)]
    all4 = list(digraphs(4)) if tier == "thorough" else None
    if all4 is not None:
        shapes += [(4, e) for e in all4]
    else:
        for _ in range(220):
            shapes.append((4, [(i, j) for i in range(4) for j in range(4) if rng.random() < 0.3]))
    for _ in range(400 if tier == "thorough" else 60):
        n = rng.choice([5, 6])
        shapes.append((n, [(i, j) for i in range(n) for j in range(n) if rng.random() < 0.25]))
    for n, edges in shapes:
        edges = list(edges)
        if rng.random() < 0.5:
            rng.shuffle(edges)
        if edges and rng.random() < 0.15:
            edges.append(rng.choice(edges))          # the same import written twice in one list
        cl = mk(n, edges)
        filler(cl, Fresh(rng))
        emit(cl, f"free-graph-{n}")

    # B. the two conflicting items: kinds x placements
    for pname, (n, edges, fa, fb) in PLACEMENTS.items():
        for ka, kb in itertools.product(SHARED, SHARED):
            cl = mk(n, edges)
            fr = Fresh(rng)
            filler(cl, fr, 0.5)
            nm = fr.name("DUP")
            add_shared(cl["files"][fa], ka, nm, fr)
            add_shared(cl["files"][fb], kb, nm, fr)
            emit(cl, f"name-pair-{pname}")
        for ka, kb in itertools.product(IDFORMS, IDFORMS):
            cl = mk(n, edges)
            fr = Fresh(rng)
            filler(cl, fr, 0.5)
            i = fr.msg_id(6) + 3
            add_idform(cl["files"][fa], ka, i, fr)
            add_idform(cl["files"][fb], kb, i, fr)
            emit(cl, f"msgid-pair-{pname}")
        for sec, mkval in (("modules", "mod_id"), ("hosts", "host_id")):
            cl = mk(n, edges)
            fr = Fresh(rng)
            filler(cl, fr, 0.5)
            v = getattr(fr, mkval)()
            cl["files"][fa][sec].append((fr.name("A"), v))
            cl["files"][fb][sec].append((fr.name("B"), v))
            emit(cl, f"{sec}-value-pair-{pname}")
            cl = mk(n, edges)
            fr = Fresh(rng)
            filler(cl, fr, 0.5)
            nm = fr.name("SAME")
            cl["files"][fa][sec].append((nm, getattr(fr, mkval)()))
            cl["files"][fb][sec].append((nm, getattr(fr, mkval)()))
            emit(cl, f"{sec}-name-pair-{pname}")
            # same NAME in host_ids and module_ids / shared namespace: separate namespaces, no conflict
            cl = mk(n, edges)
            fr = Fresh(rng)
            nm = fr.name("BOTH")
            cl["files"][fa]["hosts"].append((nm, fr.host_id()))
            cl["files"][fb]["modules"].append((nm, fr.mod_id()))
            cl["files"][fb]["constants"].append((nm, 1))
            emit(cl, f"separate-namespaces-{pname}")

    # C. range guards: boundary values x import_coredefs x file named core_defs.yaml
    host_vals = [-1, 0, 1, 2, 32766, 32767, 32768]
    mod_vals = [-1, 0, 1, 9, 10, 99, 100, 150, 199, 200, 201]
    msg_vals = [-1, 0, 1, 9999, 10000, 10001]
    for icd in (False, True):
        for corename in (False, True):
            paths = ["root.yaml", "d/core_defs.yaml" if corename else "d/user.yaml"]
            for sec, vals in (("hosts", host_vals), ("modules", mod_vals)):
                for v in vals:
                    cl = mk(2, [(0, 1)], icd=icd, paths=paths)
                    cl["files"][1][sec].append(("RNG", v))
                    emit(cl, f"range-{sec}-icd{int(icd)}-core{int(corename)}")
            if not corename:
                for v in msg_vals:
                    for sig in (False, True):
                        cl = mk(2, [(0, 1)], icd=icd, paths=paths)
                        cl["files"][1]["messages"].append(("def", "RNG", v, sig))
                        emit(cl, f"range-msg-icd{int(icd)}")
                    cl = mk(1, [], icd=icd)
                    cl["files"][0]["messages"].append(("res", [("int", v)]))
                    emit(cl, f"range-msg-icd{int(icd)}")
    # reserved ranges: ways of writing, width limit, order, partial overlaps across files
    for style in ("dash", "to", "spdash", "tight"):
        for a, b in ((5, 5), (5, 9), (100, 199), (100, 200), (9, 5), (0, 99), (0, 100), (9990, 10000), (9995, 10005)):
            cl = mk(1, [])
            cl["files"][0]["messages"].append(("res", [("int", 3), ("range", a, b, style)]))
            emit(cl, "reserved-forms")
        for (a, b), (c, d) in (((5, 10), (8, 12)), ((5, 10), (11, 12)), ((5, 10), (10, 10)), ((5, 10), (1, 5))):
            for n, edges, fa, fb in (PLACEMENTS["siblings"], PLACEMENTS["parent-child"], PLACEMENTS["diamond"]):
                cl = mk(n, edges)
                cl["files"][fa]["messages"].append(("res", [("range", a, b, style)]))
                cl["files"][fb]["messages"].append(("res", [("range", c, d, style)]))
                emit(cl, "reserved-overlap")

    # D. clashes with the core definitions (import_coredefs on)
    core_hits = [("constants", ("MAX_MODULES", 1)), ("strings", "MAX_HOSTS"), ("aliases", ("MSG_TYPE", "int32")),
                 ("structs", "RTMA_MSG_HEADER"), ("messages", ("def", "EXIT", 5000, True)),
                 ("messages", ("def", "FRESH1", 80, False)), ("messages", ("def", "FRESH2", 0, True)),
                 ("messages", ("res", [("range", 95, 97, "dash")])), ("messages", ("res", [("int", 4000)])),
                 ("modules", ("FRESHM", 4)), ("modules", ("FRESHM", 0)), ("modules", ("QUICK_LOGGER", 50)),
                 ("hosts", ("FRESHH", 32767)), ("hosts", ("LOCAL_HOST", 7)), ("constants", ("DATA_SET", 1)),
                 ("structs", "LM_EXIT"), ("constants", ("MAX_LOGGER_FILENAME_LENGTH", 2)),
                 ("hosts", ("MAX_MODULES", 9)), ("modules", ("EXIT", 77))]
    for sec, item in core_hits:
        for n, edges, fa in ((1, [], 0), (3, [(0, 1), (0, 2), (1, 2)], 2)):
            cl = mk(n, edges, icd=True)
            filler(cl, Fresh(rng), 0.5)
            cl["files"][fa][sec].append(item)
            emit(cl, "core-clash")
    for _ in range(12):
        n = rng.randint(1, 4)
        cl = mk(n, [(i, j) for i in range(n) for j in range(n) if rng.random() < 0.3], icd=True)
        filler(cl, Fresh(rng))
        emit(cl, "free-graph-icd")

    # E. several conflicts at once: which error comes first
    for _ in range(1200 if tier == "thorough" else 220):
        n = rng.randint(2, 5)
        cl = mk(n, [(i, j) for i in range(n) for j in range(n) if rng.random() < 0.35])
        fr = Fresh(rng)
        for f in cl["files"]:
            for _ in range(rng.randint(0, 4)):
                k = rng.choice(["const", "str", "alias", "struct", "msg", "host", "mod", "res"])
                nm = rng.choice(["N1", "N2", "N3", "N4", "N5", "N6"]) if rng.random() < 0.6 else fr.name()
                if k in SHARED:
                    if k == "msg":
                        f["messages"].append(("def", nm, rng.randint(0, 12), rng.random() < 0.5))
                    else:
                        add_shared(f, k, nm, fr)
                elif k == "host":
                    f["hosts"].append((nm, rng.randint(1, 6)))
                elif k == "mod":
                    f["modules"].append((nm, rng.randint(10, 15)))
                elif not any(m[0] == "res" for m in f["messages"]):
                    a = rng.randint(0, 12)
                    f["messages"].append(("res", [("range", a, a + rng.randint(0, 3), "dash"), ("int", rng.randint(0, 14))]))
        emit(cl, "multi-conflict")

    # F. malformed stream
    bad = []
    for sec, item in (("constants", ("_x", 1)), ("constants", ("9lives", 1)), ("strings", "_s"), ("aliases", ("_a", "int32")),
                      ("hosts", ("_h", 5)), ("modules", ("_m", 50)), ("structs", "_S"), ("messages", ("def", "_M", 5, True)),
                      ("messages", ("def", "_RESERVED_", 5, True)), ("messages", ("def", "_RESERVED_", 5, False)),
                      ("aliases", ("AL", "NOPE")), ("aliases", ("AL", "ST")), ("aliases", ("int32", "double")),
                      ("hosts", ("_RESERVED_", 5)), ("modules", ("_RESERVED_", 50))):
        cl = mk(2, [(0, 1)])
        cl["files"][1]["structs"].append("ST")
        cl["files"][0][sec].append(item)
        bad.append(cl)
        cl = mk(2, [(0, 1)])
        cl["files"][0]["structs"].append("ST")
        cl["files"][1][sec].append(item)
        bad.append(cl)
    # alias chains through other aliases, alias named like a native
    cl = mk(2, [(0, 1)])
    cl["files"][1]["aliases"] += [("A1", "int32"), ("A2", "A1"), ("int16", "double"), ("A3", "int16")]
    cl["files"][0]["aliases"] += [("B1", "A2"), ("B2", "B1"), ("B3", "B2"), ("B4", "ST2")]
    cl["files"][1]["structs"].append("ST2")
    bad.append(cl)
    # item named _RESERVED_ outside message_defs, with and without a reserved block, both orders
    for sec, item in (("constants", ("_RESERVED_", 1)), ("strings", "_RESERVED_"), ("aliases", ("_RESERVED_", "int32")),
                      ("structs", "_RESERVED_")):
        for where in ("same", "block-in-child", "block-in-parent", "no-block"):
            cl = mk(2, [(0, 1)])
            blk = ("res", [("range", 5, 7, "dash")])
            if where == "same":
                cl["files"][0][sec].append(item)
                cl["files"][0]["messages"].append(blk)
            elif where == "block-in-child":
                cl["files"][0][sec].append(item)
                cl["files"][1]["messages"].append(blk)
            elif where == "block-in-parent":
                cl["files"][1][sec].append(item)
                cl["files"][0]["messages"].append(blk)
            else:
                cl["files"][1][sec].append(item)
            bad.append(cl)
    # missing files, duplicate keys
    cl = mk(2, [(0, 1)])
    cl["files"][1]["imports"].append((MISSING, "nothere.yaml"))
    cl["files"][0]["constants"] += [("A", 1)]
    bad.append(cl)
    cl = mk(1, [])
    cl["files"][0]["imports"].append((MISSING, "sub/nothere.yaml"))
    bad.append(cl)
    for sec, items in (("constants", [("K", 1), ("K", 2)]), ("strings", ["K", "K"]), ("aliases", [("K", "int32"), ("K", "int8")]),
                       ("hosts", [("K", 1), ("K", 2)]), ("modules", [("K", 10), ("K", 11)]), ("structs", ["K", "K"]),
                       ("messages", [("def", "K", 1, True), ("def", "K", 2, True)]),
                       ("messages", [("res", [("int", 1)]), ("res", [("int", 2)])])):
        for fa in (0, 1):
            cl = mk(2, [(0, 1)])
            cl["files"][fa][sec] += items
            cl["files"][1 - fa]["constants"].append(("_bad", 1))   # a later / earlier error elsewhere
            bad.append(cl)
    for cl in bad:
        emit(cl, "malformed")

    # H. the packaged core_defs.yaml named explicitly in an import list (legal, redundant when the core definitions are
    #    imported anyway): before / after another import, alone, twice through two paths; ids at and beyond every range
    #    boundary in the importing file and in a file imported after (or before) the core file
    cp = core_path()
    alt = cp.replace("/core_defs/core_defs.yaml", "/core_defs/../core_defs/core_defs.yaml")
    layouts = {"core-then-common": ([(CORE, cp), (1, "common.yaml")], ["root", "common"]),
               "common-then-core": ([(1, "common.yaml"), (CORE, cp)], ["root", "common"]),
               "core-alone": ([(CORE, cp)], ["root"]),
               "core-twice-two-paths": ([(CORE, cp), (CORE, "links/core.yaml"), (CORE, alt)], ["root"]),
               "core-in-grandchild": ([(1, "common.yaml")], ["root", "common"])}
    hv = [("hosts", v) for v in (-3, 0, 1, 32766, 32768)]
    mv = [("modules", v) for v in (-1, 0, 3, 9, 10, 99, 100, 150, 199, 200)]
    for lname, (imps, places) in layouts.items():
        for place in places:
            for sec, v in hv + mv:
                if tier != "thorough" and rng.random() < 0.35:
                    continue
                cl = mk(2, [], icd=True, paths=["root.yaml", "common.yaml"])
                cl["files"][0]["imports"] = list(imps)
                if lname == "core-in-grandchild":
                    cl["files"][1]["imports"] = [(CORE, cp)]
                if lname == "core-twice-two-paths":
                    cl["symlinks"] = {"links/core.yaml": cp}
                cl["files"][1]["constants"].append(("COMMON_K", 3))
                cl["files"][0 if place == "root" else 1][sec].append(("RNGX", v))
                emit(cl, "explicit-core-import")
    for lname in ("core-then-common", "core-alone"):          # without the automatic import: the core file is an ordinary import
        cl = mk(2, [], icd=False, paths=["root.yaml", "common.yaml"])
        cl["files"][0]["imports"] = list(layouts[lname][0])
        cl["files"][0]["modules"].append(("RNGX", 150))
        cl["files"][0]["messages"].append(("def", "USERMSG", 4321, False))
        emit(cl, "explicit-core-import")
        cl = mk(2, [], icd=False, paths=["root.yaml", "common.yaml"])
        cl["files"][0]["imports"] = list(layouts[lname][0])
        cl["files"][0]["messages"].append(("def", "CLASH_WITH_CORE", 80, False))
        emit(cl, "explicit-core-import")

    # I. DIFFERENT files imported under the SAME relative spelling from different directories (arm/types.yaml and
    #    hand/types.yaml both written `types.yaml`; a/common/defs.yaml and b/common/defs.yaml both `../common/defs.yaml`):
    #    every one of them is read and registered, every conflict between them reported
    spell = {"same-basename": ["root.yaml", "arm/arm.yaml", "hand/hand.yaml", "arm/types.yaml", "hand/types.yaml"],
             "same-dotdot-path": ["root.yaml", "a/x/f.yaml", "b/y/g.yaml", "a/common/defs.yaml", "b/common/defs.yaml"]}
    twin_conflicts = [None, "msg-id", "reserved-over-signal", "module-id", "host-id", "const-vs-struct", "msg-vs-alias",
                      "module-range", "host-range", "msg-range"]
    for sname, paths in spell.items():
        for conf in twin_conflicts:
            for icd in ((False, True) if conf in (None, "module-range", "host-range", "msg-id") else (False,)):
                if conf in ("module-range", "host-range") and not icd:
                    continue
                cl = mk(5, [(0, 1), (0, 2), (1, 3), (2, 4)], icd=icd, paths=paths)
                assert cl["files"][1]["imports"][0][1] == cl["files"][2]["imports"][0][1]     # the same spelling
                fr = Fresh(rng)
                filler(cl, fr, 0.7)
                a, b = cl["files"][3], cl["files"][4]
                a["structs"].append(fr.name("ARM_T"))
                b["structs"].append(fr.name("HAND_T"))
                a["messages"].append(("def", fr.name("ARM_M"), fr.msg_id(), False))
                b["messages"].append(("def", fr.name("HAND_M"), fr.msg_id(), True))
                if conf == "msg-id":
                    i = fr.msg_id()
                    a["messages"].append(("def", fr.name("A"), i, False))
                    b["messages"].append(("def", fr.name("B"), i, True))
                elif conf == "reserved-over-signal":
                    i = fr.msg_id(6) + 2
                    a["messages"].append(("def", fr.name("SIG"), i, True))
                    b["messages"].append(("res", [("range", i - 2, i + 1, rng.choice(["dash", "to"]))]))
                elif conf == "module-id":
                    v = fr.mod_id()
                    a["modules"].append((fr.name("MA"), v))
                    b["modules"].append((fr.name("MB"), v))
                elif conf == "host-id":
                    v = fr.host_id()
                    a["hosts"].append((fr.name("HA"), v))
                    b["hosts"].append((fr.name("HB"), v))
                elif conf == "const-vs-struct":
                    nm_ = fr.name("BOTH")
                    a["constants"].append((nm_, 3))
                    b["structs"].append(nm_)
                elif conf == "msg-vs-alias":
                    nm_ = fr.name("BOTH")
                    a["aliases"].append((nm_, "int32"))
                    b["messages"].append(("def", nm_, fr.msg_id(), False))
                elif conf == "module-range":
                    b["modules"].append((fr.name("MB"), 150))
                elif conf == "host-range":
                    b["hosts"].append((fr.name("HB"), 40000))
                elif conf == "msg-range":
                    b["messages"].append(("def", fr.name("B"), 10001, True))
                emit(cl, "same-spelling-different-files")
    # three levels: the twin files are themselves imported by files with equal spellings
    cl = mk(6, [], paths=["root.yaml", "l/mid.yaml", "r/mid.yaml", "l/leaf.yaml", "r/leaf.yaml", "shared.yaml"])
    cl["files"][0]["imports"] = [(1, "l/mid.yaml"), (2, "r/mid.yaml")]
    cl["files"][1]["imports"] = [(3, "leaf.yaml"), (5, "../shared.yaml")]
    cl["files"][2]["imports"] = [(4, "leaf.yaml"), (5, "../shared.yaml")]
    fr = Fresh(rng)
    filler(cl, fr)
    for k in (3, 4, 5):
        cl["files"][k]["messages"].append(("def", fr.name("LEAF"), fr.msg_id(), False))
    emit(cl, "same-spelling-different-files")

    # G. path identity: detours, symlinked file, symlinked directory, other cwd
    for variant in range(8):
        cl = mk(4, [])
        f = cl["files"]
        fr = Fresh(rng)
        filler(cl, fr)
        f[3]["messages"].append(("def", "ONLY_ONCE", 777, False))
        if variant == 0:      # same file through two spellings
            f[0]["imports"] += [(3, "c/f3.yaml"), (3, "./c/../c/f3.yaml"), (3, "a/b/../../c/f3.yaml")]
        elif variant == 1:    # through a symlink to the file and directly
            cl["symlinks"] = {"links/alias.yaml": "../c/f3.yaml"}
            f[0]["imports"] += [(3, "links/alias.yaml"), (3, "c/f3.yaml")]
        elif variant == 2:    # through a symlinked directory; the child's own `..` import is relative to the real dir
            cl["symlinks"] = {"ldir": "c"}
            f[0]["imports"] += [(1, "a/f1.yaml"), (3, "ldir/f3.yaml")]
            f[1]["imports"] += [(3, "../c/f3.yaml")]
            f[3]["imports"] += [(2, "../a/b/f2.yaml")]
        elif variant == 3:    # diamond with .. imports through sub-directories, from a different cwd
            f[0]["imports"] += [(1, "a/f1.yaml"), (2, "a/b/f2.yaml")]
            f[1]["imports"] += [(3, "../c/f3.yaml")]
            f[2]["imports"] += [(3, "../../c/f3.yaml")]
            cl["cwd"] = "a/b"
        elif variant == 4:    # cycle through a symlink
            cl["symlinks"] = {"a/back.yaml": "../root.yaml"}
            f[0]["imports"] += [(1, "a/f1.yaml")]
            f[1]["imports"] += [(0, "back.yaml"), (3, "../c/f3.yaml")]
        elif variant == 5:    # conflict between a file and itself must not be invented under two names
            cl["symlinks"] = {"c/twin.yaml": "f3.yaml"}
            f[0]["imports"] += [(3, "c/twin.yaml"), (3, "c/f3.yaml"), (3, "c/twin.yaml")]
        elif variant == 6:    # a real copy (different file, same content) IS a conflict
            g = new_file("c/copy.yaml")
            g["messages"].append(("def", "ONLY_ONCE", 777, False))
            f.append(g)
            f[0]["imports"] += [(3, "c/f3.yaml"), (4, "c/copy.yaml")]
        else:
            f[0]["imports"] += [(1, "a/../a/f1.yaml")]
            f[1]["imports"] += [(2, "b/f2.yaml"), (0, "../root.yaml")]
            f[2]["imports"] += [(1, "../f1.yaml"), (3, "../../c/f3.yaml")]
            cl["cwd"] = "c"
        emit(cl, "path-identity")
    return out


# ---- spec oracle (does not use the model) ---------------------------------------------------

CLASS_OF = {"msg-id": "MessageIDError", "module-id": "ModuleIDError", "host-id": "HostIDError",
            "name": "DuplicateNameError", "range": "RTMASyntaxError", "bad-name": "RTMASyntaxError",
            "reserved-shape": "RTMASyntaxError", "reserved-range": "RTMASyntaxError", "alias": "RTMASyntaxError",
            "yaml-dup": "YAMLSyntaxError", "missing-file": "FileNotFoundError"}


def dups(xs) -> List:
    seen, d = set(), []
    for x in xs:
        if x in seen:
            d.append(x)
        seen.add(x)
    return d


def analyse(cl: dict, maxmt: int, natives: List[str]) -> dict:
    files, roots = with_core(cl)
    reach: List[int] = []
    problems: Dict[str, list] = {}

    def visit(i):
        if i >= len(files):
            problems.setdefault("missing-file", []).append(i)
            return
        if i in reach:
            return
        reach.append(i)
        for t, _ in files[i]["imports"]:
            visit(t)
    for r in roots:
        visit(r)
    shared, msg_ids, hosts, mods = [], [], [], []
    host_names, mod_names = [], []
    exp = dict(constants={}, strings=[], aliases={}, hosts={}, modules={}, structs=[], messages={})
    unconstrained = False
    struct_names = {n for i in reach for n in files[i]["structs"]}
    alias_names = {n for i in reach for n, _ in files[i]["aliases"]}
    for i in reach:
        f = files[i]
        enforced = cl["icd"] and not is_core_name(f)     # the package's own core_defs.yaml alone is exempt
        keys = [[n for n, _ in f["constants"]], f["strings"], [n for n, _ in f["aliases"]], [n for n, _ in f["hosts"]],
                [n for n, _ in f["modules"]], f["structs"],
                [m[1] if m[0] == "def" else "_RESERVED_" for m in f["messages"]]]
        if any(dups(k) for k in keys):
            problems.setdefault("yaml-dup", []).append(f["path"])
        # `_RESERVED_` is a directive of message_defs only; everywhere else a name starts with a letter
        for n in keys[0] + keys[1] + keys[2] + keys[5] + keys[3] + keys[4]:
            if not (n[:1].isascii() and n[:1].isalpha()):
                problems.setdefault("bad-name", []).append(n)
        for n in [m[1] for m in f["messages"] if m[0] == "def"]:
            if not (n[:1].isascii() and n[:1].isalpha()) and n != "_RESERVED_":
                problems.setdefault("bad-name", []).append(n)
        for n, v in f["constants"]:
            shared.append(n)
            exp["constants"][n] = v
        for n in f["strings"]:
            shared.append(n)
            exp["strings"].append(n)
        for n, t in f["aliases"]:
            shared.append(n)
            exp["aliases"][n] = t
            if t not in natives:
                if t in struct_names or t in alias_names:
                    unconstrained = True      # depends on declaration order; not a C12 matter
                else:
                    problems.setdefault("alias", []).append(n)
        for n in f["structs"]:
            shared.append(n)
            exp["structs"].append(n)
        for n, v in f["hosts"]:
            host_names.append(n)
            hosts.append(v)
            exp["hosts"][n] = v
            if enforced and (v < 1 or v > 32767):
                problems.setdefault("range", []).append((f["path"], "host", v))
        for n, v in f["modules"]:
            mod_names.append(n)
            mods.append(v)
            exp["modules"][n] = v
            if enforced and v != 0 and (v < 10 or 99 < v < 200):
                problems.setdefault("range", []).append((f["path"], "module", v))
        for m in f["messages"]:
            if m[0] == "def":
                if m[1] == "_RESERVED_":
                    problems.setdefault("reserved-shape", []).append(f["path"])
                    continue
                shared.append(m[1])
                ids = [m[2]]
                exp["messages"][m[1]] = m[2]
            else:
                ids = []
                for e in m[1]:
                    if e[0] == "int":
                        ids.append(e[1])
                    elif e[1] > e[2] or (e[2] + 1 - e[1]) > 100:
                        problems.setdefault("reserved-range", []).append(e)
                    else:
                        ids += list(range(e[1], e[2] + 1))
                for k in ids:
                    exp["messages"]["_RESERVED_%06d" % k] = k
            for k in ids:
                msg_ids.append(k)
                if k < 0 or k > maxmt:
                    problems.setdefault("range", []).append((f["path"], "msg", k))
    if dups(shared):
        problems["name"] = dups(shared)
    if dups(host_names) or dups(mod_names):
        problems.setdefault("name", []).extend(dups(host_names) + dups(mod_names))
    if dups(msg_ids):
        problems["msg-id"] = dups(msg_ids)
    if dups(mods):
        problems["module-id"] = dups(mods)
    if dups(hosts):
        problems["host-id"] = dups(hosts)
    return dict(reach=reach, problems=problems, exp=exp, unconstrained=unconstrained, files=files)


def oracle(cl: dict, res: dict, maxmt: int, natives: List[str]) -> Optional[Tuple[str, str]]:
    from ..defs_reg_common import included_indices
    a = analyse(cl, maxmt, natives)
    pr = a["problems"]
    if a["unconstrained"]:
        return None
    if pr:
        if res["ok"]:
            return ("missed:" + "+".join(sorted(pr)), f"accepted although {pr}")
        allowed = {CLASS_OF[c] for c in pr}
        if res["exc"] not in allowed:
            return (f"wrong-error:{'+'.join(sorted(pr))}->{res['exc']}",
                    f"raised {res['exc']} ({res['msg'][:100]}) for {pr}")
        if not res.get("is_parser_error") and res["exc"] != "FileNotFoundError":
            return ("not-a-parser-error:" + res["exc"], res["msg"][:120])
        return None
    if not res["ok"]:
        return ("false-conflict:" + str(res["exc"]), f"rejected a conflict-free closure: {res['msg'][:160]}")
    exp = a["exp"]
    inc = included_indices(cl, res)
    if sorted(inc) != sorted(a["reach"]):
        return ("files-read-differ", f"files read {inc} vs reachable {a['reach']}")
    got = dict(constants=res["constants"], strings=list(res["string_constants"]), aliases=res["aliases"],
               hosts=res["host_ids"], modules=res["module_ids"], structs=[s["name"] for s in res["structs"]],
               messages={m["name"]: m["type_id"] for m in res["messages"]})
    for k in exp:
        e, g = exp[k], got[k]
        if isinstance(e, list):
            if sorted(e) != sorted(g):
                return ("registered-set-differs:" + k, f"{k}: registered {sorted(g)} vs declared {sorted(e)}")
        elif e != g:
            return ("registered-set-differs:" + k, f"{k}: registered {g} vs declared {e}")
    if len(res["messages"]) != len(exp["messages"]) or res["message_ids"] != exp["messages"]:
        return ("registered-set-differs:message_ids", "message_ids table differs from message_defs")
    return None


# ---- run -------------------------------------------------------------------------------------

def closure_key(cl: dict) -> str:
    h = hashlib.sha1()
    for f in cl["files"]:
        h.update(f["path"].encode() + b"\0" + file_yaml(f).encode())
    h.update(json.dumps([cl["icd"], cl.get("symlinks"), cl.get("cwd")]).encode())
    return h.hexdigest()


def multipath(cl: dict) -> bool:
    indeg: Dict[int, int] = {}
    for f in cl["files"]:
        for t, _ in f["imports"]:
            indeg[t] = indeg.get(t, 0) + 1
    return any(v > 1 for v in indeg.values()) or any(t == cl["root"] for f in cl["files"] for t, _ in f["imports"])


def run(chk: Check):
    rng = random.Random(chk.seed)
    regen_cone(chk, ("Guards.v", "TypeTables.v"))
    proved = chk.prove(FAM, "Props.C12", THEOREMS, extra_targets=["Model/Registry.vo"])
    if proved and chk.tier == "thorough":
        okc, outc = FAM.coqchk("Props.C12")
        chk.cov["coqchk"] = outc[-1500:]
        if not okc:
            chk.broken_obligation("coqchk rejected Props.C12", outc[-600:])
    from ..translate import guards_defs
    import re
    try:
        gv = guards_defs.render()
    except Exception:                       # already reported by regen_cone; the oracle keeps the last good value
        from ..framework import COQ
        g = COQ / "defs" / "Gen" / "Guards.v"
        gv = g.read_text() if g.exists() else ""
    mm = re.search(r"max_message_types : Z := \((\d+)\)", gv)
    maxmt = int(mm.group(1)) if mm else 10000
    natives = [n for l in native_names().values() for n in l]

    gen = gen_cases(rng, chk.tier)
    results = run_impl([to_case(cl) for cl, _ in gen])
    coq_cases, dist, outcome = [], {}, {}
    nontrivial = set()
    for (cl, tag), res in zip(gen, results):
        if res["exc"] and str(res["exc"]).startswith("HARNESS"):
            chk.broken_obligation("harness failure running the implementation", res["msg"])
            return
        flat = impl_flat(cl, res)
        coq_cases.append(f"({coq_closure(cl)},\n  [" + "; ".join(f"({x})" if x < 0 else str(x) for x in flat) + "])")
        dist[tag.split("-icd")[0] if tag.startswith("range") else tag] = dist.get(tag.split("-icd")[0] if tag.startswith("range") else tag, 0) + 1
        oc = "accepted" if res["ok"] else res["exc"]
        outcome[oc] = outcome.get(oc, 0) + 1
        if (not res["ok"]) or multipath(cl):
            nontrivial.add(closure_key(cl))
        v = oracle(cl, res, maxmt, natives)
        if v:
            chk.spec_failure(key=v[0], desc=v[1], replay=dict(closure=cl, impl=dict(ok=res["ok"], exc=res["exc"], msg=res["msg"])))
    bad, log = FAM.eval_cases(REG_HEADER, coq_cases, per_file=150, tag="c12")
    chk.cov["evaluations"] = len(coq_cases)
    chk.cov["traces_validated_against_impl"] = len(coq_cases) - len([b for b in bad if b >= 0])
    chk.cov["distinct_nontrivial"] = len(nontrivial)
    chk.cov["rule"] = ("on-disk definition closures (1-6 files in nested directories) run through the real Parser.parse and "
                       "through Model/Registry.v (vm_compute); compared: exception class, files read (in order), and every "
                       "registry (constants, strings, aliases, host/module ids, structs, message name->id) in insertion order. "
                       "non-trivial = closure that is rejected, or has a file reachable by more than one import path / a cycle "
                       "(distinct by file texts)")
    chk.cov["input_distribution"] = dict(by_generator=dist, by_outcome=outcome)
    chk.cov["exhaustive"] = ("all digraphs (self loops included) on <=4 files" if chk.tier == "thorough"
                             else "all digraphs (self loops included) on <=3 files; 4-6 files sampled")
    ex = [g for g in gen if g[1] in ("name-pair-cousins", "msgid-pair-diamond", "path-identity", "reserved-overlap")]
    chk.add_samples([dict(tag=t, files={f["path"]: file_yaml(f) for f in cl["files"]}, symlinks=cl.get("symlinks"))
                     for cl, t in (ex[0:1] + ex[len(ex) // 3:len(ex) // 3 + 1] + ex[-1:])])
    chk.assumptions += [
        "file identity = pathlib.Path.resolve() modelled as an abstract file index (exercised on disk: .., symlinked file and directory, other cwd)",
        "ruamel.yaml safe loader rejects a repeated key inside one mapping (modelled as a per-file pre-pass; observed as YAMLSyntaxError)",
        "constants are integer literals; struct/message fields are a single valid native field (field resolution and layout belong to C11/C04)",
        "host/module id ranges are enforced when import_coredefs is on, for every file except the package's own core_defs.yaml "
        "(Parser.is_core_file, resolved-path identity, modelled as the flag f_core of the closure; a user file NAMED core_defs.yaml "
        "in another directory is part of the generated cases)",
        "python dict registration = append to an association list: equal when keys are distinct, which C12_reserved_name_inj and the duplicate-name checks give",
    ]
    for b in bad[:3]:
        if b >= 0:
            cl, tag = gen[b]
            chk.broken_obligation("correspondence Model/Registry.v vs Parser differs",
                                  f"case {b} tag={tag} files={ {f['path']: file_yaml(f) for f in cl['files']} } "
                                  f"impl={results[b]['exc'] or 'ok'} {results[b]['msg'][:100]}")
        else:
            chk.broken_obligation("correspondence shard failed to evaluate", log[-600:])


def replay(path: str) -> int:
    d = json.load(open(path))
    cl = d["replay"]["closure"]
    for f in cl["files"]:
        f["imports"] = [tuple(x) for x in f["imports"]]
    res = run_impl([to_case(cl)])[0]
    print(json.dumps(dict(files={f["path"]: file_yaml(f) for f in cl["files"]}, symlinks=cl.get("symlinks"),
                          import_coredefs=cl["icd"], ok=res["ok"], exc=res["exc"], msg=res["msg"],
                          included=res.get("included"), message_ids=res.get("message_ids"),
                          constants=res.get("constants")), indent=1))
    return 0
