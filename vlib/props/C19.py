"""C19 - control frames are acknowledged."""
from ..framework import Check
from .. import mgr_check

THEOREMS = ['C19_subscribe_acked', 'C19_unsubscribe_acked', 'C19_noop_still_acked', 'C19_connect_acked_iff_accepted', 'C19_second_connect_not_acked', 'C19_never_acked', 'C19_ack_frame', 'C19_ack_then_loggers', 'C19_ex', 'C19_ack_exact', 'C19_ack_header', 'C19_registry_op_silent', 'C19_lframes_ex', 'C19_ack_exact_ex', 'C19_acked_once', 'C19_acked_once_service', 'C19_ack_fields', 'C19_never_acked_service', 'C19_never_acked_process', 'C19_connect_acked', 'C19_ex_subscribe', 'C19_ex_never_acked', 'C19_ex_connect']
CHECKERS = ['C19', 'C06', 'C03']


def directed(rng, tier):
    """control frames sent BEFORE the handshake (a legal history: the manager applies and acknowledges them, addressed
    to module id 0; pyrtma's own web_manager produces it), then the handshake, then more control frames; with zero,
    one and two loggers connected"""
    from .. import mgr_common as C
    out = []
    for nlog in (1, 2):
        for v2 in (True, False):
            for lvl in (60, 40):
                hs = C.History(loglevel=lvl, tag="control-before-handshake")
                for _ in range(4):
                    hs.round([], [], 0, accept=True)
                w = [1, 2, 3, 4]
                hs.round([(1, hs.connect_v2(logger=1, mod_id=30))], w, 0)
                hs.round([(1, hs.sub("sub", C.ALL))], w, 0)
                if nlog == 2:
                    hs.round([(4, hs.connect_v2(logger=1, mod_id=33))], w, 0)
                    hs.round([(4, hs.sub("sub", 100))], w, 0)
                for kind, t in (("sub", 100), ("pause", 100), ("resume", 100), ("unsub", 100), ("sub", C.ALL), ("unsub", C.ALL), ("sub", 101)):
                    hs.round([(2, hs.sub(kind, t))], w, 1)
                hs.round([(3, hs.connect_v1(src_mod=32))], w, 2)
                hs.round([(3, hs.publish(101, b"early", src_mod=32))], w, 2)
                hs.round([(2, hs.connect_v2(mod_id=31) if v2 else hs.connect_v1(src_mod=31))], w, 3)
                hs.round([(2, hs.sub("sub", 102, src_mod=31))], w, 3)
                hs.round([(2, hs.sub("unsub", 101, src_mod=31))], w, 3)
                hs.round([(3, hs.publish(102, b"late", src_mod=32))], w, 4)
                out.append(hs)
    # one module with several hundred individual subscriptions: every request is acknowledged, however many it holds
    for lvl in (60,):
        hs = C.History(loglevel=lvl, tag="many-subscriptions")
        for _ in range(3):
            hs.round([], [], 0, accept=True)
        w = [1, 2, 3]
        hs.round([(1, hs.connect_v2(logger=1, mod_id=30))], w, 0)
        hs.round([(1, hs.sub("sub", C.ALL))], w, 0)
        hs.round([(2, hs.connect_v1(src_mod=31)), (3, hs.connect_v1(src_mod=32))], w, 0)
        for t in range(2000, 2300):
            hs.round([(2, hs.sub("sub", t, src_mod=31))], w, 1)
        for kind, t in (("sub", 2005), ("pause", 2299), ("resume", 2299), ("unsub", 2000), ("sub", 2300), ("resume", 2301)):
            hs.round([(2, hs.sub(kind, t, src_mod=31))], w, 2)
        hs.round([(3, hs.publish(2299, b"x", src_mod=32))], w, 3)
        out.append(hs)
    return out


def run(chk: Check):
    mgr_check.run_property(
        chk, "C19", "Props.C19", THEOREMS,
        model_profiles={'acks': 300, 'ids': 80},
        oracle_flavors={'acks': 320, 'ids': 120},
        checkers=CHECKERS,
        extra_histories=directed,
        assumptions=['the stream-level statement (ACK subsequence of every connection = expected list, in order) is decided by the correspondence and the spec oracle'])


def replay(path: str) -> int:
    return mgr_check.replay("C19", path, CHECKERS)
