"""C19 - control frames are acknowledged."""
from ..framework import Check
from .. import mgr_check

THEOREMS = ['C19_subscribe_acked', 'C19_unsubscribe_acked', 'C19_noop_still_acked', 'C19_connect_acked_iff_accepted', 'C19_second_connect_not_acked', 'C19_never_acked', 'C19_ack_frame', 'C19_ack_then_loggers', 'C19_ex', 'C19_ack_exact', 'C19_ack_header', 'C19_registry_op_silent', 'C19_lframes_ex', 'C19_ack_exact_ex', 'C19_acked_once', 'C19_acked_once_service', 'C19_ack_fields', 'C19_never_acked_service', 'C19_never_acked_process', 'C19_connect_acked', 'C19_ex_subscribe', 'C19_ex_never_acked', 'C19_ex_connect']
CHECKERS = ['C19', 'C06', 'C03']


def run(chk: Check):
    mgr_check.run_property(
        chk, "C19", "Props.C19", THEOREMS,
        model_profiles={'acks': 300, 'ids': 80},
        oracle_flavors={'acks': 320, 'ids': 120},
        checkers=CHECKERS,
        assumptions=['the stream-level statement (ACK subsequence of every connection = expected list, in order) is decided by the correspondence and the spec oracle'])


def replay(path: str) -> int:
    return mgr_check.replay("C19", path, CHECKERS)
