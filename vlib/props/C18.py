"""C18 - Manager traffic statistics are exact."""
from ..framework import Check
from .. import mgr_check

THEOREMS = ["C18_traffic_exact", "C18_timing_exact", "C18_timing_slots", "C18_stats_not_counted",
            "C18_counter_incr", "C18_ex_130", "C18_ex_empty", "C18_ex_64"]
CHECKERS = ["C18", "C03"]


def run(chk: Check):
    mgr_check.run_property(
        chk, "C18", "Props.C18", THEOREMS,
        model_profiles={"periodic": 260, "routing": 60},
        oracle_flavors={"stats": 260},
        checkers=CHECKERS,
        assumptions=[
            "message type id -1 is the wire terminator of MESSAGE_TRAFFIC and cannot be reported (excluded in C18_traffic_exact)",
            "messages the manager forwards WHILE a statistics message is being delivered (FAILED_MESSAGE / CLIENT_CLOSED / "
            "RTMA_LOG caused by that delivery) are not counted by the code (sending_traffic is set): outside the oracle's "
            "histories (everyone writable during reports); see DESIGN.md C18",
            "the spec oracle reads the complete forwarded stream from a logger subscribed to ALL_MESSAGE_TYPES",
        ])


def replay(path: str) -> int:
    return mgr_check.replay("C18", path, CHECKERS)
