"""C18 - Manager traffic statistics are exact."""
import random
from ..framework import Check
from .. import mgr_check, mgr_common as C

THEOREMS = ["C18_traffic_exact", "C18_timing_exact", "C18_timing_slots", "C18_stats_not_counted",
            "C18_counter_incr", "C18_counted_with_or_without_timing", "C18_interval_starts_empty", "C18_ex_130", "C18_ex_empty", "C18_ex_64"]
CHECKERS = ["C18", "C03"]


def directed(rng: random.Random, tier: str):
    """nobody listens to the statistics for a few intervals (the monitor pauses its subscription), traffic flows, the
    intervals elapse; after the monitor resumes, each report must again contain exactly the interval it closes - counts
    from the unobserved intervals must not resurface"""
    out = []
    for nquiet in (1, 3):
        for lvl in (60,):
            hs = C.History(loglevel=lvl, timing=False, tag="late-listener")
            now = 0
            hs.round([], [], now, accept=True)
            hs.round([(1, hs.connect_v2(logger=1, mod_id=10))], [1], now)
            hs.round([(1, hs.sub("sub", C.ALL))], [1], now)
            hs.round([], [], now, accept=True)
            hs.round([(2, hs.connect_v1(src_mod=11))], [1, 2], now)
            hs.round([(2, hs.publish(300, b"a"))], [1, 2], now)
            now += 6
            hs.round([], [1, 2], now)                          # first report: interval began before the monitor came
            hs.round([(2, hs.publish(300, b"b"))], [1, 2], now)
            now += 6
            hs.round([], [1, 2], now)                          # second report: {300: 1, ...}
            hs.round([(1, hs.sub("pause", C.ALL))], [1, 2], now)
            for k in range(3):
                hs.round([(2, hs.publish(301, bytes([k])))], [1, 2], now)    # nobody is listening
            for _ in range(nquiet):
                now += 6
                hs.round([], [1, 2], now)                      # intervals end unobserved
            hs.round([(1, hs.sub("resume", C.ALL))], [1, 2], now)
            now += 6
            hs.round([], [1, 2], now)                          # nothing was forwarded in this interval
            hs.round([(2, hs.publish(302, b"c")), ], [1, 2], now)
            hs.round([(2, hs.publish(302, b"d")), ], [1, 2], now)
            now += 6
            hs.round([], [1, 2], now)                          # {302: 2}
            out.append(hs)
    # process ids: declared at CONNECT_V2, declared or replaced by MODULE_READY (a forked / handed-over connection), a
    # CONNECT-only client that declares it later; the last report lists what was declared last
    for lvl in (60,):
        hs = C.History(loglevel=lvl, timing=True, tag="pids")
        for _ in range(5):
            hs.round([], [], 0, accept=True)
        w = [1, 2, 3, 4, 5]
        hs.round([(1, hs.connect_v2(logger=1, mod_id=10, pid=11))], w, 0)
        hs.round([(1, hs.sub("sub", C.ALL))], w, 0)
        hs.round([(2, hs.connect_v2(mod_id=20, pid=500)), (3, hs.connect_v1(src_mod=21)), (4, hs.connect_v2(mod_id=0, pid=502)),
                  (5, hs.connect_v2(mod_id=23, pid=503))], w, 0)
        hs.round([(2, hs.ready(777, src_mod=20))], w, 1)          # replaces the pid given at connect
        hs.round([(3, hs.ready(778, src_mod=21))], w, 1)          # first declaration
        hs.round([(5, hs.ready(503, src_mod=23))], w, 1)          # repeats its own
        hs.round([(2, hs.ready(779, src_mod=20))], w, 2)          # and again
        hs.round([(3, hs.publish(300, b"x", src_mod=21))], w, 8)
        hs.round([(3, hs.publish(300, b"y", src_mod=21))], w, 16)
        hs.check_final_pids = True
        out.append(hs)
    # nobody listens to the traffic itself: the only interested party hears the statistics alone (an ordinary module,
    # not a logger).  Types with no subscriber at all, with one subscriber, many distinct types; with and without -T
    for timing in (True, False):
        for ntypes in (1, 64, 70):
            hs = C.History(loglevel=60, timing=timing, tag="statistics-only-listener")
            for _ in range(3):
                hs.round([], [], 0, accept=True)
            w = [1, 2, 3]
            hs.round([(1, hs.connect_v2(mod_id=10))], w, 0)
            hs.round([(1, hs.sub("sub", C.MT["MESSAGE_TRAFFIC"]))], w, 0)
            hs.round([(1, hs.sub("sub", C.MT["TIMING_MESSAGE"]))], w, 0)
            hs.round([(2, hs.connect_v1(src_mod=11)), (3, hs.connect_v1(src_mod=12))], w, 0)
            hs.round([(3, hs.sub("sub", 5001))], w, 0)
            exp = {}
            now = 0
            def pub(t, now):
                hs.round([(2, hs.publish(t, b"12345678", src_mod=11))], w, now)
                exp[t] = exp.get(t, 0) + 1
            for interval in range(3):
                for _ in range(7):
                    pub(5000, now)                                     # nobody is subscribed to 5000
                for _ in range(3):
                    pub(5001, now)                                     # conn 3 is
                for t in range(300, 300 + ntypes):
                    pub(t, now)
                now += 6
                pub(9000 + interval, now)                              # a round with fresh writability: the report goes out
            now += 6
            pub(9100, now)
            hs.plain_stats = dict(expected=exp)
            out.append(hs)
    return out


def run(chk: Check):
    mgr_check.run_property(
        chk, "C18", "Props.C18", THEOREMS,
        model_profiles={"periodic": 260, "routing": 60},
        oracle_flavors={"stats": 260},
        checkers=CHECKERS,
        extra_histories=directed,
        assumptions=[
            "message type id -1 is the wire terminator of MESSAGE_TRAFFIC and cannot be reported (excluded in C18_traffic_exact)",
            "messages the manager forwards WHILE a statistics message is being delivered (FAILED_MESSAGE / CLIENT_CLOSED / "
            "RTMA_LOG caused by that delivery) are not counted by the code (sending_traffic is set): outside the oracle's "
            "histories (everyone writable during reports); see DESIGN.md C18",
            "the spec oracle reads the complete forwarded stream from a logger subscribed to ALL_MESSAGE_TYPES",
        ])


def replay(path: str) -> int:
    return mgr_check.replay("C18", path, CHECKERS)
