"""C03 - No client can take the manager down."""
import random
from ..framework import Check
from .. import mgr_check, mgr_common as C

THEOREMS = ["C03_total", "C03_total_ex", "C03_refuted_for_any_fixed_budget", "C03_cascade_window", "C03_fuel_bound", "C03_rank_le_2", "C03_never_crashes", "C03_reachable_invariant", "C03_bad_length_only_offender", "C03_bad_size_range",
            "C03_ex_survives"]
CHECKERS = ["C03"]


def directed(rng: random.Random, tier: str):
    """boundary values of every header field in every role, many connections, pairs of failures"""
    out = []
    I32 = [-2**31, -1, 0, 1, 2**31 - 1]
    I16 = [-2**15, -1, 0, 1, 2**15 - 1]
    types = [100, C.MT["SUBSCRIBE"], C.MT["CONNECT"], C.MT["CONNECT_V2"], C.MT["DISCONNECT"], 9999, 10000, 10001,
             -1, -10000, -10001, 2**31 - 1, -2**31, C.MT["TIMING_MESSAGE"], C.MT["FAILED_MESSAGE"], C.MT["ACKNOWLEDGE"]]
    for t in types:
        for nb in ([-2**31, -1, 0, 2**20, 2**20 + 1, 2**31 - 1] if tier == "thorough" else [-1, 0, 2**20 + 1]):
            if nb in (0, 2**20) and t in (C.MT["SUBSCRIBE"], C.MT["CONNECT"], C.MT["CONNECT_V2"]):
                continue   # a control frame shorter than its definition is decoded from stale buffer bytes: not modelled
                           # (and one declaring 1 MiB would need 1 MiB of control payload: nothing to learn)
            hs = C.History(loglevel=rng.choice([60, 20]), timing=True, tag="hdr-boundary")
            hs.round([], [], 0, accept=True)
            hs.round([], [], 0, accept=True)
            hs.round([(1, hs.sub("sub", C.ALL))], [1, 2], 0)
            if nb == 2**20:
                f = hs.publish(t, bytes(2**20))
            else:
                f = hs.raw(t, nb, src_mod=rng.choice(I16), src_host=rng.choice(I16), dst_mod=rng.choice(I16),
                           dst_host=rng.choice(I16), count=rng.choice(I32))
            hs.round([(2, f)], [1, 2], 1)
            hs.round([], [], 6)
            hs.round([], [], 30)
            out.append(hs)
    # non-ascii names in both name-carrying messages
    # names: non-ascii bytes, and perfectly legal ascii that looks like console markup / format directives
    for name in (b"\xff", b"caf\xc3\xa9", b"\x80" * 31, bytes(range(1, 33)), b"reader[/dev/ttyS0]", b"[/]", b"[bold]x",
                 b"[red]alert[/red]", b"%s%d%(name)s", b"{0}{name}{", b"a\\[b]"):
      for lvl in (60, 20, 10):
        hs = C.History(loglevel=lvl, tag="name-bytes")
        hs.round([], [], 0, accept=True)
        hs.round([], [], 0, accept=True)
        hs.round([(1, hs.connect_v2(mod_id=10, name=name))], [1, 2], 0)
        hs.round([(2, hs.connect_v1(src_mod=11))], [1, 2], 0)
        hs.round([(2, hs.setname(name))], [1, 2], 0)
        hs.round([], [], 30)
        out.append(hs)
    # hundreds of connections, then the periodic ACTIVE_CLIENTS / TIMING, with a dead CLIENT_INFO subscriber
    for n in ([255, 256, 257, 300] if tier == "thorough" else [257]):
        hs = C.History(loglevel=60, tag="many-connections")
        for _ in range(n):
            hs.round([], [], 0, accept=True)
        hs.round([(1, hs.sub("sub", C.MT["CLIENT_INFO"]))], [1], 0)
        hs.fault(1, 0)
        hs.round([], [], 30)
        hs.round([(2, hs.connect_v1(src_mod=0))], [2], 31)
        out.append(hs)
    # more than 100 dynamic ids
    hs = C.History(loglevel=60, tag="dynamic-exhaustion")
    for i in range(103):
        hs.round([], [], 0, accept=True)
        hs.round([(i + 1, hs.connect_v1(src_mod=0))], [i + 1], 0)
    out.append(hs)
    # pairs of simultaneous failures, both service orders, loggers, nested notices
    for order in ((2, 3), (3, 2)):
        for kind in ("eof", "reset", "fault"):
            hs = C.History(loglevel=rng.choice([60, 10]), tag="pair-failure")
            for _ in range(4):
                hs.round([], [], 0, accept=True)
            hs.round([(1, hs.connect_v1(logger=1, src_mod=10))], [1, 2, 3, 4], 0)
            hs.round([(2, hs.sub("sub", 100)), (3, hs.sub("sub", 100))], [1, 2, 3, 4], 0)
            hs.round([(2, hs.sub("sub", C.MT["CLIENT_CLOSED"])), (3, hs.sub("sub", C.MT["FAILED_MESSAGE"]))], [1, 2, 3, 4], 0)
            if kind == "fault":
                hs.fault(2, 0); hs.fault(3, 0); hs.fault(1, 2)
                hs.round([(4, hs.publish(100, b"z"))], [1, 2, 3, 4], 1)
            else:
                mk = hs.eof if kind == "eof" else hs.reset
                hs.round([(order[0], mk()), (order[1], mk()), (4, hs.publish(100, b"z"))], [1, 2, 3, 4], 1)
            hs.round([(4, hs.publish(100, b"y"))], [1, 4], 2)
            out.append(hs)
    # control frames declaring FEWER payload bytes than their definition: the manager decodes them from whatever
    # the shared receive buffer still holds.  Which bytes those are is observed in the implementation run; the
    # model is given the control message so decoded (History.short_control / finalize), so these histories are
    # in the correspondence too; whatever is decoded, the manager must not raise (C03 oracle).
    ctl = [("CONNECT", 4), ("CONNECT_V2", 44), ("SUBSCRIBE", 4), ("UNSUBSCRIBE", 4), ("PAUSE_SUBSCRIPTION", 4),
           ("RESUME_SUBSCRIPTION", 4), ("CLIENT_SET_NAME", 32), ("MODULE_READY", 4)]
    for name, size in ctl:
        for short in sorted({0, 1, size - 1}):
            for first in (True, False):
                hs = C.History(loglevel=rng.choice([60, 10]), tag="short-control")
                hs.round([], [], 0, accept=True)
                hs.round([], [], 0, accept=True)
                hs.round([(1, hs.connect_v2(mod_id=10, name=b"monitor"))], [1, 2], 0)
                hs.round([(1, hs.sub("sub", C.ALL))], [1, 2], 0)
                if not first:
                    hs.round([(2, hs.connect_v1(src_mod=11))], [1, 2], 0)
                    hs.round([(2, hs.publish(100, bytes(range(1, 65))))], [1, 2], 0)   # leaves bytes in the buffer
                hs.round([(2, hs.short_control(name, bytes([7] * short)))], [1, 2], 1)
                hs.round([(1, hs.publish(101, b"after"))], [1, 2], 2)
                hs.round([], [], 30)
                out.append(hs)
    # cascades: n subscribers of CLIENT_CLOSED all fail at the same instant; the first departure is published,
    # every failed delivery is handled INSIDE the delivery that discovered it (one nesting level per dead client)
    for n, deep in ([(12, False), (40, False), (300, True)]):
        hs = C.History(loglevel=60, tag="cascade-deep" if deep else "cascade")
        hs.impl_only = deep      # beyond the model's evaluation budget (FUEL=400): see C03_fuel_bound for the exact need
        for _ in range(n):
            hs.round([], [], 0, accept=True)
        w = list(range(1, n + 1))
        for c in range(1, n + 1):
            hs.round([(c, hs.sub("sub", C.MT["CLIENT_CLOSED"]))], w, 0)
        for c in range(2, n + 1):
            hs.fault(c, 0)
        hs.round([(1, hs.eof())], w, 1)
        hs.round([], w, 2)
        out.append(hs)
    # a statistics report that cannot be delivered: ntypes distinct types were forwarded in one interval (a report of
    # more than 64 entries is sent in pieces from inside the loop over the counters), the report falls due in a round
    # that finds its subscriber not writable / failing on write, so notices and departures are published while the
    # report is being produced
    for ntypes in (1, 63, 64, 65, 70, 130):
        for how in ("unwritable", "fault"):
            for failed_sub, timing_sub in ((False, False), (True, False), (False, True)):
                hs = C.History(loglevel=60, timing=True, tag="report-undeliverable")
                for _ in range(3):
                    hs.round([], [], 0, accept=True)
                w = [1, 2, 3]
                hs.round([(1, hs.connect_v1(src_mod=10)), (2, hs.connect_v1(src_mod=11)), (3, hs.connect_v1(src_mod=12))], w, 0)
                hs.round([(1, hs.sub("sub", C.MT["MESSAGE_TRAFFIC"]))], w, 0)
                if timing_sub:
                    hs.round([(1, hs.sub("sub", C.MT["TIMING_MESSAGE"]))], w, 0)
                if failed_sub:
                    hs.round([(3, hs.sub("sub", C.MT["FAILED_MESSAGE"])), ], w, 0)
                    hs.round([(3, hs.sub("sub", C.MT["CLIENT_CLOSED"])), ], w, 0)
                hs.round([], [], 6)                                   # closes the interval the set-up belongs to
                for t in range(1000, 1000 + ntypes):
                    hs.round([(2, hs.publish(t, b"12345678", src_mod=11))], w, 6)
                if how == "fault":
                    hs.fault(1, 0)                                    # the write of the report itself fails
                    hs.round([(2, hs.publish(1000, b"x", src_mod=11))], w, 12)
                    hs.round([], [], 12, accept=True)
                else:
                    hs.round([], [], 12, accept=True)                 # a round that only accepts: nobody is writable
                    hs.round([(2, hs.publish(1000, b"x", src_mod=11))], [2, 3, 4], 12)
                hs.round([], [], 18, accept=True)
                hs.round([(2, hs.publish(1001, b"after", src_mod=11))], [1, 2, 3, 4, 5], 19)
                out.append(hs)
    return out


def key_map(key, desc, h):
    # the recorded finding is the DEEP cascade only; a RecursionError anywhere else is a violation
    if key == "crash:RecursionError" and h.tag == "cascade-deep":
        return "crash:RecursionError:deep-cascade"
    return key


def run(chk: Check):
    mgr_check.run_property(
        chk, "C03", "Props.C03", THEOREMS,
        model_profiles={"malformed": 220, "faults": 220, "routing": 60, "nested": 100},
        oracle_flavors={},
        checkers=CHECKERS,
        extra_histories=directed, known_key_map=key_map,
        assumptions=[
            "XFuel (the model's budget for nested forward_message calls) stands for Python's recursion limit; the theorem "
            "C03_fuel_bound states how much nesting a history can need; the deep cascade (recorded finding) is run "
            "against the implementation only",
            "file-descriptor exhaustion, memory, and a peer that stops reading (documented stall) are not modelled",
        ])


def replay(path: str) -> int:
    return mgr_check.replay("C03", path, CHECKERS)
