"""C16 - compilation is deterministic; combined-YAML round trip; shipped core definitions are current."""
from __future__ import annotations

import json
import random
import re
from typing import Dict, List

from ..framework import Check, SRC
from ..defs_common import FAM, regen_or_report
from ..defs_emit_common import (F, build_corpus, closure_case, cyclic_closures, closure_coq, closure_files, closure_model_ok, coq_ap, cz, effective_options, read_py,
                                run_emit, EXC_CODE)

THEOREMS = ["C16_combined", "C16_combined_closure", "C16_combined_exact", "C16_combined_refuted_alias_of_struct",
            "C16_combined_refuted_struct_of_msg", "C16_two_reserved_roundtrip", "C16_ex_roundtrip"]
CORE_THEOREMS = ["C16_core_current", "C16_core_nonempty"]

K_ALIAS_STRUCT = "combined:alias-of-struct"
K_STRUCT_MSG = "combined:struct-uses-message"
K_RESERVED = "combined:reserved-in-several-files"
K_OPT_LEAK = "combined:imported-options-leak"
K_OPT_LOST = "combined:root-options-lost"
OPT_DEFAULTS = {"IMPORT_COREDEFS": True, "VALIDATE_ALIGNMENT": True, "AUTO_PAD": True}

RT_HEADER = """From Coq Require Import ZArith List Bool String.
From Defs Require Import Gen.TypeTables Model.Layout Model.Emit Proofs.EmitCombined.
Import ListNotations. Open Scope string_scope. Open Scope list_scope. Open Scope Z_scope.
Fixpoint zl_eqb (a b : list Z) : bool :=
  match a, b with [], [] => true | x :: r, y :: s => (x =? y) && zl_eqb r s | _, _ => false end.
Fixpoint sl_eqb (a b : list string) : bool :=
  match a, b with [], [] => true | x :: r, y :: s => String.eqb x y && sl_eqb r s | _, _ => false end.
Definition norm_code (k : Z) : Z := if k =? 3 then 14 else k.
(* decidable reading of same_defs for the comparison with the implementation: the user's entries of message_ids /
   message_defs (everything but the _RESERVED_nnnnnn placeholders) in order, the placeholders as a multiset of ids *)
Definition user_part (st : pstate) : pstate :=
  mkPS (ps_consts st) (ps_strs st) (ps_aliases st) (ps_hids st) (ps_mids st) (filter user_mt (ps_mts st)) (ps_structs st)
       (filter user_def (ps_msgs st)).
Definition rsv_ids (st : pstate) : list Z := map snd (filter (fun x => negb (user_mt x)) (ps_mts st)).
Definition rsv_def_ids (st : pstate) : list Z :=
  map (fun d => match pd_id d with Some i => i | None => -1 end) (filter (fun d => negb (user_def d)) (ps_msgs st)).
Definition zcount (x : Z) (l : list Z) : nat := List.length (filter (Z.eqb x) l).
Definition zperm (a b : list Z) : bool := forallb (fun x => Nat.eqb (zcount x a) (zcount x b)) (a ++ b).
Definition equiv_b (st st' : pstate) : bool :=
  zl_eqb (flat_state (user_part st)) (flat_state (user_part st')) && sl_eqb (names_state (user_part st)) (names_state (user_part st'))
  && zperm (rsv_ids st) (rsv_ids st') && zperm (rsv_def_ids st) (rsv_def_ids st').
(* case: (auto_pad, closure, (code of the first parse, code of re-parsing the combined YAML, same parsed model
          (entry for entry)?, same parsed model up to the position of the reserved placeholders?)) *)
Definition check_case (c : bool * closure * (Z * Z * bool * bool)) : bool :=
  let '(ap, cl, (c1, c2, same, equiv)) := c in
  match closure_items cl with
  | None => negb (c1 =? 0)
  | Some l =>
    match parse_closure ap cl with
    | POk st =>
      (c1 =? 0) &&
      match reparse_combined ap l with
      | POk st' => (c2 =? 0) && Bool.eqb same (zl_eqb (flat_state st) (flat_state st') && sl_eqb (names_state st) (names_state st'))
                   && Bool.eqb equiv (equiv_b st st')
      | r => norm_code (code_of r) =? c2
      end &&
      (* the theorems, instantiated: under their conditions the round trip gives the same definitions /
         the very same state *)
      (if backward_uses l && legal_names l then (c2 =? 0) && equiv else true) &&
      (if backward_uses l && (Nat.leb (count_reserved l) 1) then (c2 =? 0) && same else true)
    | r => norm_code (code_of r) =? c1
    end
  end.
"""


def model_key(m: dict) -> dict:
    def fd(d):
        return dict(name=d["name"], size=d["size"], alignment=d["alignment"], hash=d["hash"], type_id=d.get("type_id"),
                    fields=[[f["name"], f["type_name"], f["length"], f["offset"], f["size"], f["kind"]] for f in d["fields"]])
    return dict(constants=[[c[0], c[1]] for c in m["constants"]], strings=m["string_constants"],
                aliases=[a[:5] for a in m["aliases"]], hids=[h[:2] for h in m["host_ids"]], mids=[h[:2] for h in m["module_ids"]],
                mts=[h[:2] for h in m["message_ids"]], structs=[fd(s) for s in m["structs"]], messages=[fd(s) for s in m["messages"]])


def _user_name(n: str) -> bool:
    """Parser.check_name: declared names start with a letter; the placeholders of a _RESERVED_ block are _RESERVED_nnnnnn"""
    return n[:1].isascii() and n[:1].isalpha()


def canon_key(k: dict) -> dict:
    """model_key up to the position of the reserved placeholders in message_ids / message_defs (Coq: same_defs):
    the user's entries in order, the placeholders as a sorted multiset"""
    out = dict(k)
    out["mts"] = [x for x in k["mts"] if _user_name(x[0])]
    out["mts_reserved"] = sorted(x for x in k["mts"] if not _user_name(x[0]))
    out["messages"] = [d for d in k["messages"] if _user_name(d["name"])]
    out["messages_reserved"] = sorted((d for d in k["messages"] if not _user_name(d["name"])), key=lambda d: json.dumps(d, sort_keys=True))
    return out


def first_model_diff(a: dict, b: dict) -> str:
    for k in a:
        if a[k] != b[k]:
            if isinstance(a[k], list):
                for i, (x, y) in enumerate(zip(a[k], b[k])):
                    if x != y:
                        return f"{k}[{i}]: {json.dumps(x)[:160]} vs {json.dumps(y)[:160]}"
                return f"{k}: {len(a[k])} entries vs {len(b[k])}; original names {[x[0] if isinstance(x, list) else x['name'] for x in a[k]][:12]} re-read {[x[0] if isinstance(x, list) else x['name'] for x in b[k]][:12]}"
            return k
    return ""


def source_rt_classes(cl: dict) -> set:
    structs, msgs, cs = set(), set(), set()
    nres = 0
    for f in cl["files"]:
        for it in f["items"]:
            if it[0] == "struct":
                structs.add(it[1])
            if it[0] == "msg":
                msgs.add(it[1])
            if it[0] == "reserved":
                nres += 1
    al = {it[1]: it[2] for f in cl["files"] for it in f["items"] if it[0] == "alias"}
    for a, t in al.items():
        if t in structs:
            cs.add(K_ALIAS_STRUCT)
    for f in cl["files"]:
        for it in f["items"]:
            if it[0] == "struct":
                b = it[2]
                tys = [b[1]] if b[0] == "reuse" else [x[1] for x in b[1]]
                if any(t in msgs for t in tys):
                    cs.add(K_STRUCT_MSG)
    if nres > 1:
        cs.add(K_RESERVED)
    return cs


def options_oracle(cl: dict, raw: dict, eff: dict = None) -> List[tuple]:
    """The `compiler_options` section of the combined YAML, against the compile that wrote it.  The combined file inlines
    the core definitions and must be recompiled the way the original compile ran (YAMLCompiler.generate since fca7af6):
        IMPORT_COREDEFS: false, VALIDATE_ALIGNMENT: <effective>, AUTO_PAD: <effective>
    effective = the ROOT file's section over the defaults, then the switch-off flags of the command line (what the worker
    passed to compile(); `eff` is what it reports, cross-checked with the harness' own reading of the closure).  Sections
    of IMPORTED files configure nothing.  An absent entry counts as the default.  -> [(key, description)]"""
    out = []
    mine = effective_options(cl)
    if eff is None:
        eff = mine
    elif any(eff.get(k) != mine[k] for k in ("VALIDATE_ALIGNMENT", "AUTO_PAD")):
        out.append(("harness:effective-options", f"worker ran with {eff}, the closure says {mine}"))
    root = cl["files"][0].get("options") or {}
    others = {}
    for f in cl["files"][1:]:
        for k, v in (f.get("options") or {}).items():
            others.setdefault(k, set()).add(v)
    if raw.get("IMPORT_COREDEFS") is not False:
        out.append(("combined:options", f"combined YAML does not switch the core import off: {raw}"))
    for k in sorted(set(raw) - set(OPT_DEFAULTS)):
        out.append((K_OPT_LEAK if k in others else "combined:options", f"combined YAML carries an option of its own: {k}: {raw[k]}"))
    for k in ("VALIDATE_ALIGNMENT", "AUTO_PAD"):
        got = raw.get(k, OPT_DEFAULTS[k])
        if got == eff[k]:
            continue
        where = f"root file: {root[k]}" if k in root else "not in the root file"
        if k in raw and got in others.get(k, ()):
            out.append((K_OPT_LEAK, f"combined YAML carries {k}: {got}, which only an imported file says; the original compile ran with "
                                    f"{k} = {eff[k]} ({where}, command line switch: {'off' if (k == 'AUTO_PAD' and not cl.get('auto_pad', True)) else 'not given'})"))
        elif eff[k] != OPT_DEFAULTS[k]:
            out.append((K_OPT_LOST, f"the original compile ran with {k} = {eff[k]} ({where}); the combined YAML has "
                                    f"{k} = {raw[k] if k in raw else 'no entry (default ' + str(OPT_DEFAULTS[k]) + ')'}"))
        else:
            out.append(("combined:options", f"combined YAML carries {k}: {got}; the original compile ran with {k} = {eff[k]} ({where})"))
    return out


def extra_closures() -> List[dict]:
    out = []
    S0 = ("struct", "S0", F(("q", "uint16", ("lit", 2)), ("r", "int32", None)))
    # compiler_options sections.  PAD: definitions whose layout needs auto padding; ALIGNED: none needed
    PAD = [("struct", "P1", F(("a", "int8", None), ("b", "double", None), ("c", "int16", None))),
           ("msg", "PM", 710, F(("s", "P1", None), ("t", "int8", None), ("u", "int32", ("lit", 3))))]
    LIBPAD = [("struct", "L1", F(("x", "int8", None), ("y", "int64", None))), ("msg", "LM", 720, F(("l", "L1", None), ("z", "uint8", None)))]
    ALIGNED = [("struct", "Q1", F(("a", "int32", None), ("b", "int32", None))), ("msg", "QM", 711, F(("s", "Q1", None), ("d", "double", None)))]
    for opt in ("VALIDATE_ALIGNMENT", "AUTO_PAD", "IMPORT_COREDEFS"):
        for val in (False, True):
            v = "on" if val else "off"
            # an imported library file carries the option (the compiler ignores it), root on defaults
            out.append(dict(tag=f"opts-imported:{opt}-{v}", cl=dict(files=[
                dict(path="root.yaml", imports=[1], items=list(PAD)),
                dict(path="lib/legacy.yaml", imports=[], items=list(LIBPAD), options={opt: val})],
                auto_pad=True, import_coredefs=False), coq=True))
            # the root file carries it
            items = list(ALIGNED) if (opt, val) == ("AUTO_PAD", False) else list(PAD)
            out.append(dict(tag=f"opts-root:{opt}-{v}", cl=dict(files=[
                dict(path="root.yaml", imports=[1], items=items, options={opt: val}),
                dict(path="lib/legacy.yaml", imports=[], items=[("struct", "L0", F(("x", "int32", None)))])],
                auto_pad=True, import_coredefs=(opt == "IMPORT_COREDEFS")), coq=True))
    # a section entry that is none of the three documented options, in an imported file (handle_compiler_options takes any
    # name): the combined file carries exactly the three entries above, so this one must not appear in it
    out.append(dict(tag="opts-imported:other-entry", cl=dict(files=[
        dict(path="root.yaml", imports=[1], items=list(PAD)),
        dict(path="lib/legacy.yaml", imports=[], items=list(LIBPAD), options={"LEGACY_BUILD": True, "AUTO_PAD": True})],
        auto_pad=True, import_coredefs=False), coq=True))
    # root and imported file disagree; two imported files disagree with each other
    out.append(dict(tag="opts-root-vs-imported", cl=dict(files=[
        dict(path="root.yaml", imports=[1, 2], items=list(PAD), options={"VALIDATE_ALIGNMENT": True, "AUTO_PAD": True}),
        dict(path="lib/legacy.yaml", imports=[], items=list(LIBPAD), options={"VALIDATE_ALIGNMENT": False, "AUTO_PAD": False, "IMPORT_COREDEFS": True}),
        dict(path="lib/other.yaml", imports=[], items=[("struct", "L0", F(("x", "int8", None), ("y", "int16", None)))], options={"AUTO_PAD": True, "VALIDATE_ALIGNMENT": True})],
        auto_pad=True, import_coredefs=False), coq=True))
    out.append(dict(tag="opts-root-autopad-off-misaligned", cl=dict(files=[
        dict(path="root.yaml", imports=[], items=list(PAD), options={"AUTO_PAD": False})], auto_pad=True, import_coredefs=False), coq=True))
    out.append(dict(tag="two-reserved", cl=dict(files=[
        dict(path="root.yaml", imports=[1], items=[("msg", "M1", 5, F(("a", "int32", None))), ("reserved", [10, (12, 14)])]),
        dict(path="a.yaml", imports=[], items=[("reserved", [100, 101])])], auto_pad=True, import_coredefs=False), coq=True))
    out.append(dict(tag="three-reserved", cl=dict(files=[
        dict(path="root.yaml", imports=[1, 2], items=[("msg", "M1", 5, F(("a", "int32", None))), ("reserved", [10, (12, 14)]),
                                                      ("msg", "M2", 6, F(("m", "MA", None)))]),
        dict(path="sub/a.yaml", imports=[2], items=[("reserved", [100, 101]), ("msg", "MA", 7, F(("b", "MB", ("lit", 2))))]),
        dict(path="sub/b.yaml", imports=[], items=[("msg", "MB", 8, F(("c", "uint16", None))), ("reserved", [(200, 201)]), ("msg", "SG", 9, None)])],
        auto_pad=True, import_coredefs=False), coq=True))
    out.append(dict(tag="struct-reuses-message", cl=dict(files=[
        dict(path="root.yaml", imports=[1], items=[("struct", "S1", ("reuse", "M0"))]),
        dict(path="a.yaml", imports=[], items=[("msg", "M0", 10, F(("q", "uint16", ("lit", 2))))])], auto_pad=True, import_coredefs=False), coq=True))
    out.append(dict(tag="coredefs", cl=dict(files=[dict(path="root.yaml", imports=[1], items=[
        ("const", "N", ("lit", 4)), ("alias", "MY_ID", "MODULE_ID"), ("mid", "MY_MOD", 212), ("hid", "MY_HOST", 3),
        ("struct", "S1", F(("h", "RTMA_MSG_HEADER", None), ("m", "MODULE_ID", ("ref", "N")), ("t", "MSG_TYPE", None))),
        ("msg", "M1", 1500, F(("s", "S1", ("lit", 2)), ("n", "char", ("ref", "MAX_NAME_LEN")), ("i", "MY_ID", None))),
        ("msg", "SG", 1401, None), ("msg", "RU", 1402, ("reuse", "M1")), ("reserved", [1600, (1602, 1604)])]),
        dict(path="inc/a.yaml", imports=[], items=[S0])], auto_pad=True, import_coredefs=True), coq=False))
    out += cyclic_closures()        # import cycles: the combined file has no imports at all, the round trip must hold
    return out


def run(chk: Check):
    rng = random.Random(chk.seed + 16)
    # a translator that fails closed is reported (broken obligation); the implementation is still run against the
    # spec oracle and the (last generated) model, so that a behavioural change comes with a concrete failing input
    regen_or_report(chk)
    chk.prove(FAM, "Props.C16", THEOREMS)
    chk.prove(FAM, "Props.C16Core", CORE_THEOREMS)
    from ..translate import tables as T
    natives = [k for k, _, _, _ in T.parser_supported_types()]
    corpus = build_corpus(rng, chk.tier, natives, nrandom=(90 if chk.tier == "quick" else 900)) + extra_closures()

    # ---- (a) determinism: differential execution only (NOT a proof)
    ndet = 28 if chk.tier == "quick" else 200
    det_idx = [k for k, c in enumerate(corpus) if c["tag"].startswith("rnd:") or "sys:field" in c["tag"] or c["tag"] == "coredefs"]
    rng.shuffle(det_idx)
    det_idx = sorted(det_idx[:ndet])
    cases = []
    for k, c in enumerate(corpus):
        ops = ["rt"]
        case = closure_case(c["cl"], ops)
        if k in det_idx:
            other = corpus[det_idx[(det_idx.index(k) + 1) % len(det_idx)]]["cl"]
            case["ops"] = ["rt", "det"]
            case["other"] = dict(files=closure_files(other), root=other["files"][0]["path"], auto_pad=other.get("auto_pad", True),
                                 import_coredefs=other.get("import_coredefs", False))
            case["hashseed"] = rng.randrange(1, 4000000)
        cases.append(case)
    # ---- (c) the shipped core definitions, through the real compiler
    core_dir = SRC / "pyrtma" / "core_defs"
    core_case = dict(files={"core_defs/" + n: (core_dir / n).read_text() for n in ("core_defs.yaml", "data_logger.yaml", "quick_logger.yaml")},
                     root="core_defs/core_defs.yaml", auto_pad=True, import_coredefs=False, ops=["load_py", "core_shipped"])
    results = run_emit(cases + [core_case])
    core_res = results.pop()

    dist: Dict[str, int] = {}
    ndet_ok = 0
    coq_cases, coq_idx = [], []
    opt_stats: Dict[str, int] = {}
    rt_stats = dict(identical=0, reserved_placeholders_moved=0, differs=0, rejected=0, closures_with_several_reserved_blocks=0)
    nontrivial = set()
    for k, (c, res) in enumerate(zip(corpus, results)):
        tag = c["tag"].split(":")[0] if not c["tag"].startswith("rnd:") else c["tag"]
        dist[tag] = dist.get(tag, 0) + 1
        if res["exc"] == "HARNESS":
            chk.broken_obligation("harness failure running the implementation", res["msg"])
            return
        replay = dict(files=closure_files(c["cl"]), root=c["cl"]["files"][0]["path"], auto_pad=c["cl"].get("auto_pad", True),
                      import_coredefs=c["cl"].get("import_coredefs", False), tag=c["tag"])
        c1 = 0 if res["ok"] else EXC_CODE.get(res["exc"], 99)
        c2, same, equiv = 0, False, False
        if c.get("expect") == "accept" and not res["ok"] and res["exc"] != "HANG":
            chk.spec_failure("rejected-wellformed:" + c["tag"].split(":")[0] + ":" + str(res["exc"]),
                             f"a well-formed closure ({c['tag']}) does not compile, no combined YAML: {res['exc']}: {res['msg'][:200]}", replay)
        if res["exc"] == "HANG":         # a compile that does not terminate (worker watchdog)
            chk.spec_failure("hang:" + str(res.get("hang") or "parse"), f"the compiler does not terminate on this closure: {res['msg'][:160]}", replay)
        if res["ok"]:
            # (a)
            det = res.get("det")
            if det is not None and not res["compile_exc"]:
                for which in ("second", "sub"):
                    o2 = det[which]
                    if det.get(which + "_exc"):
                        chk.spec_failure("determinism:second-run-fails", f"the same closure fails when compiled again ({which}): {det[which + '_exc'][:160]}", replay)
                        continue
                    for lang, txt in res["outputs"].items():
                        if o2.get(lang) != txt:
                            chk.spec_failure(f"determinism:{lang}:{which}",
                                             f"{lang} output differs between two compilations of the same closure "
                                             f"({'same process, another closure compiled in between, other cwd/output dir' if which == 'second' else 'fresh process, other PYTHONHASHSEED/cwd/output dir'}): "
                                             + _first_diff(txt, o2.get(lang)), replay)
                # the same closure through a symlink to the definition directory (two depths, relative / absolute path,
                # different cwd's), and through a symlink to the root file alone
                if det.get("links_error"):
                    chk.broken_obligation("harness could not create the symlinks of the determinism part", det["links_error"])
                for how, lk in (det.get("links") or {}).items():
                    if lk["exc"]:
                        chk.spec_failure("determinism:symlinked-dir-fails", f"the same closure fails when compiled through a symlinked directory ({how}): {lk['exc'][:160]}", replay)
                        continue
                    for lang, txt in res["outputs"].items():
                        if lk["outs"].get(lang) != txt:
                            chk.spec_failure(f"determinism:{lang}:symlinked-dir",
                                             f"{lang} output differs between compiling the closure in its real directory and through a symlink "
                                             f"to that directory ({how}): " + _first_diff(txt, lk["outs"].get(lang)), replay)
                # the output directory named in different ways
                if det.get("outdirs_error"):
                    chk.broken_obligation("harness could not set up the output directories of the determinism part", det["outdirs_error"])
                for how, od in (det.get("outdirs") or {}).items():
                    if od["exc"]:
                        chk.spec_failure("determinism:outdir-fails", f"the same closure fails when compiled with {how}: {od['exc'][:160]}", replay)
                        continue
                    for lang, txt in res["outputs"].items():
                        if od["outs"].get(lang) != txt:
                            chk.spec_failure(f"determinism:{lang}:outdir",
                                             f"{lang} output differs between an absolute -o and {how}: " + _first_diff(txt, od["outs"].get(lang)), replay)
                fl = det.get("file_link")
                if fl is not None:
                    if fl["exc"]:
                        chk.spec_failure("determinism:root-file-symlink", f"the closure fails when the root file is named through a symlink: {fl['exc'][:160]}", replay)
                    else:
                        for lang, txt in res["outputs"].items():
                            if fl["outs"].get(lang) != txt:
                                chk.spec_failure("determinism:root-file-symlink",
                                                 f"{lang} output differs when the root FILE is named through a symlink in another directory: "
                                                 + _first_diff(txt, fl["outs"].get(lang)), replay)
                                break
                ndet_ok += 1
            # (b)
            rt = res.get("rt")
            if res["compile_exc"] and res["compile_exc"].startswith("HANG"):
                chk.spec_failure("hang:compile", "compile() of an accepted closure does not terminate: " + res["compile_exc"][:150], replay)
            if rt is None:
                if not res["compile_exc"]:
                    chk.spec_failure("combined:not-produced", "no combined YAML was produced", replay)
                continue
            cs = source_rt_classes(c["cl"])
            if K_RESERVED in cs:
                rt_stats["closures_with_several_reserved_blocks"] += 1
            nontrivial.add((tuple(sorted(cs)), len(c["cl"]["files"]), len(res["model"]["structs"]), len(res["model"]["messages"])))
            if not rt["ok"]:
                c2 = EXC_CODE.get(rt["exc"], 99)
                rt_stats["rejected"] += 1
                key = "hang:reparse-combined" if rt["exc"] == "HANG" else \
                    K_OPT_LEAK if any(k == K_OPT_LEAK for k, _ in options_oracle(c["cl"], rt.get("raw_opts") or {}, res.get("effective_options"))) else \
                    K_OPT_LOST if any(k == K_OPT_LOST for k, _ in options_oracle(c["cl"], rt.get("raw_opts") or {}, res.get("effective_options"))) else \
                    K_ALIAS_STRUCT if (K_ALIAS_STRUCT in cs and "alias" in rt["msg"]) else \
                    K_STRUCT_MSG if (K_STRUCT_MSG in cs and ("Unknown type" in rt["msg"] or "Unable to find definition" in rt["msg"])) else \
                    "combined:reparse-fails:" + str(rt["exc"])
                chk.spec_failure(key, f"the combined YAML of an accepted closure is rejected: {rt['exc']}: {rt['msg'][:160]}", replay)
            else:
                a, b = model_key(res["model"]), model_key(rt["model"])
                same = a == b
                ca, cb = canon_key(a), canon_key(b)
                equiv = ca == cb
                if same:
                    rt_stats["identical"] += 1
                elif equiv:
                    # same ids, hashes, sizes, layouts; the placeholders of several _RESERVED_ blocks sit together
                    rt_stats["reserved_placeholders_moved"] += 1
                else:
                    rt_stats["differs"] += 1
                    d = first_model_diff(ca, cb)
                    ok = [k for k, _ in options_oracle(c["cl"], rt.get("raw_opts") or {}, res.get("effective_options"))]
                    key = K_RESERVED if (K_RESERVED in cs and d.startswith(("mts", "messages"))) else \
                        K_OPT_LEAK if K_OPT_LEAK in ok else K_OPT_LOST if K_OPT_LOST in ok else "combined:model-differs"
                    chk.spec_failure(key, "re-parsing the combined YAML gives different ids/hashes/sizes/layouts: " + d, replay)
            # the options the combined file carries (whether or not the re-parse was accepted)
            leak = False
            if rt.get("raw_opts") is not None:
                for key, desc in options_oracle(c["cl"], rt["raw_opts"], res.get("effective_options")):
                    leak = leak or key == K_OPT_LEAK
                    opt_stats[key] = opt_stats.get(key, 0) + 1
                    chk.spec_failure(key, desc + (f"; recompiling the combined YAML: {rt['exc']}: {rt['msg'][:100]}" if not rt["ok"] else
                                                 "; recompiling it gives " + ("the same" if equiv else "DIFFERENT") + " ids/hashes/sizes/layouts"), replay)
        if c["coq"] and closure_model_ok(c["cl"]):
            coq_cases.append(f"({coq_ap(c['cl'])}, {closure_coq(c['cl'])}, "
                             f"({cz(c1)}, {cz(c2)}, {'true' if same else 'false'}, {'true' if equiv else 'false'}))")
            coq_idx.append(k)

    # ---- (c) core definitions
    core_ok = _core_check(chk, core_res)

    bad, log = FAM.eval_cases(RT_HEADER, coq_cases, per_file=20, timeout=900)
    chk.cov["evaluations"] = len(corpus) + ndet_ok * 2 + 1
    chk.cov["traces_validated_against_impl"] = len(coq_cases) - len([b for b in bad if b >= 0])
    chk.cov["distinct_nontrivial"] = len(nontrivial)
    chk.cov["rule"] = ("(a) determinism - NOT A PROOF, differential execution only: each selected closure compiled by pyrtma.compile.compile ten "
                       "times (in-process; in-process again after ANOTHER closure was compiled in between, from another closure location, cwd and "
                       "output dir; in a fresh interpreter with another PYTHONHASHSEED; through a symlink to the definition directory one level "
                       "deep with a relative path from the project directory; through such a symlink three levels deep with an absolute path from "
                       "another cwd; through a symlink to the root file alone; with a relative -o of one and of two components from two cwds, `-o .` from "
                       "inside the output directory, and the default output directory) and all five outputs compared byte for byte. "
                       "(b) every corpus closure: combined YAML re-parsed by the real Parser with the options it carries; ids, hashes, sizes, "
                       "alignments, field tables compared with the first parse (entry for entry, and up to the position of the reserved "
                       "placeholders); Model/Emit.v (parse, combined_items, re-parse, theorem conditions) "
                       "evaluated by vm_compute on the same closures. (c) the three shipped YAML files compiled by the real compiler and compared "
                       "with the shipped core_defs.py textually and through the imported modules (ids, hashes, sizes, every field's descriptor, "
                       "width, length, offset); and C16_core_current by vm_compute over Gen/CoreYaml.v and Gen/CoreDefs.v")
    chk.cov["input_distribution"] = dist
    chk.cov["determinism_closures"] = ndet_ok
    chk.cov["roundtrip"] = rt_stats
    chk.cov["closures_with_compiler_options"] = dict(
        root=sum(1 for c in corpus if c["cl"]["files"][0].get("options")),
        imported=sum(1 for c in corpus if any(f.get("options") for f in c["cl"]["files"][1:])), oracle_hits=opt_stats)
    chk.cov["core_current"] = core_ok
    chk.cov["exhaustive"] = False
    chk.add_samples([dict(tag=c["tag"], files=closure_files(c["cl"])) for c in corpus[15:16] + corpus[70:72] + corpus[-3:-2]])
    chk.assumptions += [
        "determinism (a) is decided by differential execution, not by proof: a Gallina function is deterministic by construction, the "
        "content of the claim is that the implementation has no hidden input (cwd, output dir, hash seed, earlier compilations in the process)",
        "the version string is the same in all runs (same package); time is not an input of the compiler",
        "type_hash is not part of the Coq-side core computation (SHA-256 not modelled here); it is compared on the implementation side",
        "C16_combined condition: no alias names a struct of the closure, no struct body names a message of the closure; declared and "
        "referenced names start with a letter (Parser.check_name, not modelled in Model/Emit.v's step: a hypothesis of the theorem); "
        "`same` = equal up to the position of the _RESERVED_nnnnnn placeholders in message_ids / message_defs (same_defs), "
        "entry for entry when the closure has at most one _RESERVED_ block (C16_combined_exact)",
    ]
    if bad:
        for b in bad[:4]:
            if b >= 0:
                c = corpus[coq_idx[b]]
                chk.broken_obligation("correspondence Model/Emit.v (combined round trip) vs implementation differs",
                                      f"case tag={c['tag']} impl={coq_cases[b][-40:]} files={json.dumps(closure_files(c['cl']))[:500]}")
        if any(b < 0 for b in bad):
            chk.broken_obligation("correspondence shard failed to evaluate", log[-600:])


def _first_diff(a, b):
    if a is None or b is None:
        return "one output missing"
    for i, (x, y) in enumerate(zip(a.splitlines(), b.splitlines())):
        if x != y:
            return f"line {i + 1}: {x!r} vs {y!r}"
    return "length differs"


def _core_check(chk: Check, res: dict) -> bool:
    replay = dict(core=True)
    if not res["ok"] or res["compile_exc"]:
        chk.spec_failure("core:does-not-compile", f"the shipped core YAML files do not compile: {res['exc']} {res['msg'][:160]} {res['compile_exc']}", replay)
        return False
    ok = True
    gen, shipped = res["load"].get("py"), res["load"].get("shipped")
    if not gen or not gen["ok"] or not shipped or not shipped["ok"]:
        chk.spec_failure("core:does-not-import", f"regenerated / shipped core module does not import: {gen and gen['err']} / {shipped and shipped['err']}", replay)
        return False
    for sec in ("ints", "strs", "aliases"):
        if gen[sec] != shipped[sec]:
            d = {k: (gen[sec].get(k), shipped[sec].get(k)) for k in set(gen[sec]) | set(shipped[sec]) if gen[sec].get(k) != shipped[sec].get(k)}
            chk.spec_failure("core:constants-differ", f"core_defs.py is not what the compiler produces from the shipped YAML ({sec}): {str(d)[:300]} (compiler, shipped)", replay)
            ok = False
    gc, sc = {c["name"]: c for c in gen["classes"]}, {c["name"]: c for c in shipped["classes"]}
    if list(gc) != list(sc):
        chk.spec_failure("core:classes-differ", f"class list differs: only compiler {sorted(set(gc) - set(sc))[:5]}, only shipped {sorted(set(sc) - set(gc))[:5]}", replay)
        ok = False
    for n in gc:
        if n in sc and gc[n] != sc[n]:
            a, b = gc[n], sc[n]
            what = [k for k in a if a[k] != b.get(k)]
            detail = ""
            if "fields" in what:
                for fa, fb in zip(a["fields"], b["fields"]):
                    if fa != fb:
                        detail = f" field {fa['name']}: compiler {fa} vs shipped {fb}"
                        break
            chk.spec_failure("core:class-differs", f"{n}: {what} differ: sizeof {a['size']}/{b['size']}, type_size {a['type_size']}/{b['type_size']}, "
                                                   f"type_hash {a['type_hash']}/{b['type_hash']}{detail}"[:400], replay)
            ok = False
    if res["outputs"]["python"] != res.get("shipped_text"):
        chk.spec_failure("core:text-differs", "core_defs.py differs textually from the compiler's output for the shipped YAML: "
                         + _first_diff(res["outputs"]["python"], res.get("shipped_text")), replay)
        ok = False
    return ok


def replay(path: str) -> int:
    d = json.load(open(path))
    r = d["replay"]
    if r.get("core"):
        core_dir = SRC / "pyrtma" / "core_defs"
        case = dict(files={"core_defs/" + n: (core_dir / n).read_text() for n in ("core_defs.yaml", "data_logger.yaml", "quick_logger.yaml")},
                    root="core_defs/core_defs.yaml", auto_pad=True, import_coredefs=False, ops=["load_py", "core_shipped"])
        res = run_emit([case])[0]
        g, s = res["load"]["py"], res["load"]["shipped"]
        diff = {c["name"]: (c["size"], c2["size"]) for c, c2 in zip(g["classes"], s["classes"]) if c != c2}
        print(json.dumps(dict(classes_differing_compiler_vs_shipped=diff, text_equal=res["outputs"]["python"] == res.get("shipped_text")), indent=1))
        return 0
    res = run_emit([dict(files=r["files"], root=r["root"], auto_pad=r.get("auto_pad", True),
                         import_coredefs=r.get("import_coredefs", False), ops=["rt"])])[0]
    out = dict(ok=res["ok"], exc=res["exc"], msg=res["msg"])
    if res["ok"]:
        out["combined_yaml"] = res["outputs"].get("combined")
        rt = res["rt"]
        out["reparse"] = dict(ok=rt["ok"], exc=rt["exc"], msg=rt["msg"])
        if rt["ok"]:
            out["first_difference"] = first_model_diff(canon_key(model_key(res["model"])), canon_key(model_key(rt["model"])))
            out["first_difference_entry_for_entry"] = first_model_diff(model_key(res["model"]), model_key(rt["model"]))
    print(json.dumps(out, indent=1))
    return 0
