"""C09 - field validation is sound, complete and atomic."""
from __future__ import annotations

import itertools
import json
import math
import random
from typing import Dict, List, Optional, Tuple

from ..framework import Check
from ..values_common import (FAM, INT_KINDS, FLOAT_KINDS, INT_RANGE, INT_WIDTH, CTYPE, EXC_NAMES, F32_OVERFLOW,
                             F64_OVERFLOW_INT, Layouts, get_layouts, run_worker, run_worker_parallel,
                             regen_or_report, eval_cases_robust, val_json, case_coq, CHECK_STRICT, CHECK_LENIENT, HEADER, zl,
                             f64_bits, f64_from_bits, f32_round,
                             V_int, V_bool, V_float, V_fbits, V_numlike, V_str, V_bytes, V_none, V_list, V_cinst,
                             V_struct, V_arr, V_sarr, V_carr)

THEOREMS = [
    "C09_table_ok", "C09_int_roundtrip", "C09_extent", "C09_atomic",
    "C09_readback_scalar", "C09_readback_index", "C09_readback_whole", "C09_readback_sarr_index",
    "C09_readback_sarr_whole", "C09_refuse",
    "C09_narrow_is_flocq", "C09_float_nearest", "C09_float_overflow_refused", "C09_float_inf_refused",
    "C09_flag", "C09_flag_threads_independent",
    "C09_ex_accept", "C09_ex_refuse", "C09_ex_slice", "C09_ex_ctypes_array", "C09_ex_nan_neighbour", "C09_ex_inf_in_sequence", "C09_ex_float_array", "C09_ex_flag",
]

NAN = 0x7FF8000000000000
NEG_NAN = 0xFFF8000000000000
NAN_PAYLOAD = 0x7FF8000000000123
SNAN = 0x7FF0000000000001
INF = 0x7FF0000000000000
NINF = 0xFFF0000000000000
FLT_MAX_BITS = 0x47EFFFFFE0000000
F32_T_BITS = 0x47EFFFFFF0000000          # 2^128 - 2^103 : the tie that rounds to +inf


# ---------------------------------------------------------------------------------------------
# classes

def class_specs() -> Tuple[List[dict], Dict[str, int], List[int]]:
    specs: List[dict] = []
    idx: Dict[str, int] = {}

    def add(name, base, fields, compiled=False):
        idx[name] = len(specs)
        specs.append(dict(name=name, base=base, type_id=1000 + len(specs), fields=fields))
        if compiled:
            comp.append(idx[name])

    comp: List[int] = []
    add("VS_A", "struct", [["a", ["Int8"]], ["b", ["Int16"]]])
    add("VS_B", "struct", [["a", ["Int8"]], ["b", ["Int16"]]])
    add("VS_N", "struct", [["x", ["Uint8"]], ["inner", ["Struct", 0]], ["arr", ["StructArray", 0, 2]],
                           ["y", ["Int32"]]])
    scal = [["g0", ["Uint8"]]] + [[k.lower(), [k]] for k in INT_KINDS] + \
           [["f", ["Float"]], ["d", ["Double"]], ["c", ["Char"]], ["by", ["Byte"]], ["s2", ["String", 2]],
            ["s5", ["String", 5]], ["g1", ["Uint8"]]]
    add("VM_SCALARS", "data", scal)
    for k in INT_KINDS + FLOAT_KINDS:
        for L in range(1, 6):
            arr = ["IntArray", k, L] if k in INT_KINDS else ["FloatArray", k, L]
            add(f"VM_A_{k}_{L}", "data", [["g0", ["Uint8"]], ["a", arr], ["g1", ["Uint8"]]])
    for L in range(2, 6):
        add(f"VM_A_Byte_{L}", "data", [["g0", ["Uint8"]], ["a", ["ByteArray", L]], ["g1", ["Uint8"]]])
    for L in range(1, 4):
        add(f"VM_SA_{L}", "data", [["g0", ["Uint8"]], ["st", ["Struct", 0]], ["sa", ["StructArray", 0, L]],
                                   ["sb", ["StructArray", 1, L]], ["nest", ["Struct", 2]], ["g1", ["Uint8"]]])
    # array fields of the same kind under different names (array-object-to-array-field assignment)
    pairs = [("p", ["IntArray", "Int16", 4]), ("d", ["FloatArray", "Double", 3]), ("f", ["FloatArray", "Float", 2]),
             ("b", ["ByteArray", 4]), ("u", ["IntArray", "Uint32", 2])]
    add("VM_AA", "data", [["g0", ["Uint8"]]] + [[pre + sfx, ts] for pre, ts in pairs for sfx in ("pos", "target")] + [["g1", ["Uint8"]]])
    add("VM_AB", "data", [[pre + sfx, ts] for pre, ts in pairs for sfx in ("target", "pos")])      # other type, has <x>target
    add("VM_AC", "data", [["h", ["Int32"]]] + [[pre + "pos", ts] for pre, ts in pairs])             # other type, no <x>target
    # Char leaves at top level, in a nested struct and in a struct-array element (refused-assignment atomicity)
    add("VS_C", "struct", [["ch", ["Char"]], ["n", ["Int8"]]])
    add("VM_CH", "data", [["g0", ["Uint8"]], ["c", ["Char"]], ["st", ["Struct", idx["VS_C"]]],
                          ["sa", ["StructArray", idx["VS_C"], 2]], ["g1", ["Uint8"]]])
    # the same kinds through the real definition compiler (parser + PyDefCompiler + import)
    add("VC_S", "struct", [["a", ["Int8"]], ["b", ["Int16"]]], compiled=True)
    add("VC_MSG", "data", [["i8", ["Int8"]], ["u16", ["Uint16"]], ["i64", ["Int64"]], ["f", ["Float"]],
                           ["d", ["Double"]], ["c", ["Char"]], ["by", ["Byte"]], ["s4", ["String", 4]],
                           ["ba", ["ByteArray", 3]], ["ia", ["IntArray", "Int16", 3]],
                           ["fa", ["FloatArray", "Float", 3]], ["st", ["Struct", idx["VC_S"]]],
                           ["sa", ["StructArray", idx["VC_S"], 2]]], compiled=True)
    return specs, idx, comp


# ---------------------------------------------------------------------------------------------
# boundary values

def scalar_values(L: Layouts, idx) -> List[tuple]:
    vs = []
    ints = set()
    for k in INT_KINDS:
        lo, hi = INT_RANGE[k]
        ints |= {lo - 1, lo, hi, hi + 1}
    ints |= {-1, 0, 1, 2 ** 63, -2 ** 63, 2 ** 64, -2 ** 64, 10 ** 400, -10 ** 400, 1000, 2 ** 24 + 1, 2 ** 53 + 1,
             2 ** 128, F32_OVERFLOW, F32_OVERFLOW - 1, -F32_OVERFLOW, F64_OVERFLOW_INT, F64_OVERFLOW_INT - 1,
             -F64_OVERFLOW_INT, 2 ** 64 + 5}
    vs += [V_int(z) for z in sorted(ints)]
    vs += [V_bool(True), V_bool(False)]
    fl = [1.0, 2.5, -0.0, 0.0, 1e39, -1e39, 1.1, 5e-324, 2.0 ** -149, 2.0 ** -150, 1.5 * 2.0 ** -150,
          1 + 2.0 ** -24, 1 + 2.0 ** -24 + 2.0 ** -52, 1 + 3 * 2.0 ** -24, 1.7976931348623157e308, 3.4028234663852886e38]
    vs += [V_float(x) for x in fl]
    vs += [V_fbits(b) for b in (NAN, NEG_NAN, NAN_PAYLOAD, SNAN, INF, NINF, FLT_MAX_BITS, F32_T_BITS, F32_T_BITS - 1,
                                F32_T_BITS + 1, F32_T_BITS | (1 << 63), (F32_T_BITS - 1) | (1 << 63))]
    vs += [V_str(""), V_str("a"), V_str("ab"), V_str("abcd"), V_str("abcde"), V_str("\x00"), V_str("a\x00b"),
           V_str("\x7f"), V_str("\x80"), V_str("é"), V_str("aé"), V_str("€")]
    vs += [V_bytes(b""), V_bytes(b"\xff"), V_bytes(b"\x01"), V_bytes(b"\x01\x02"), V_none(), V_numlike(0.5),
           V_list([V_int(1)]), V_list([]), V_list([V_float(1.0)])]
    for k in ("Int8", "Uint8", "Int16", "Uint64", "Float", "Double", "Char"):
        w = CTYPE[k][1]
        vs.append(V_cinst(k, [5] + [0] * (w - 1)))
    vs.append(V_cinst("Char", [0xFF]))
    vs += [V_cinst("Uint8", [200]), V_cinst("Int8", [200]), V_cinst("Uint16", [0, 128]), V_cinst("Int64", [255] * 8),
           V_cinst("Uint32", [255] * 4), V_cinst("Float", [0, 0, 128, 127]), V_cinst("Double", [0] * 6 + [240, 127]),
           V_carr("Int8", 1, [5]), V_carr("Uint8", 4, [1, 2, 200, 3]), V_carr("Char", 2, [97, 0]), V_carr("Char", 5, [97, 98, 0, 0, 0]),
           V_carr("Float", 1, [0, 0, 128, 63])]
    vs.append(V_struct(idx["VS_A"], [7, 0, 44, 1]))
    return vs


def elem_values(k: str) -> Tuple[List[tuple], List[tuple]]:
    """(valid elements, bad elements) for element kind k"""
    if k in INT_KINDS or k == "Byte":
        lo, hi = INT_RANGE[k]
        good = [V_int(lo), V_int(hi), V_int(0), V_int(1), V_bool(True)]
        bad = [V_int(lo - 1), V_int(hi + 1), V_int(10 ** 400), V_int(-2 ** 64), V_float(1.0), V_none(), V_str("a"),
               V_cinst(k if k != "Byte" else "Uint8", [1] + [0] * (INT_WIDTH[k] - 1)), V_numlike(0.5),
               V_list([V_int(1)]), V_bytes(b"\x01")]
        return good, bad
    if k == "Float":
        good = [V_float(1.5), V_float(-0.0), V_fbits(FLT_MAX_BITS), V_int(3), V_fbits(NAN), V_bool(True),
                V_float(1.1), V_numlike(0.5)]
        bad = [V_float(1e39), V_float(-1e39), V_fbits(F32_T_BITS), V_fbits(INF), V_fbits(NINF), V_int(2 ** 128),
               V_int(10 ** 400), V_int(-10 ** 400), V_none(), V_str("a"), V_cinst("Float", [0, 0, 128, 63]),
               V_list([V_float(1.0)])]
        return good, bad
    good = [V_float(1.5), V_float(-0.0), V_float(1.7976931348623157e308), V_int(3), V_fbits(NAN), V_bool(False),
            V_fbits(SNAN), V_numlike(0.5)]
    bad = [V_fbits(INF), V_fbits(NINF), V_int(10 ** 400), V_int(F64_OVERFLOW_INT), V_int(-10 ** 400), V_none(),
           V_str("a"), V_cinst("Double", [0] * 6 + [240, 63]), V_list([V_float(1.0)])]
    return good, bad


def _pack(kind: str, vals) -> list:
    import struct as _st
    if kind in INT_WIDTH:
        w = INT_WIDTH[kind]
        return [b for x in vals for b in int(x).to_bytes(w, "little", signed=kind.startswith("Int"))]
    fmt = "<f" if kind == "Float" else "<d"
    return [b for x in vals for b in _st.pack(fmt, x)]


def carr_values(k: str, Ln: int, rng: random.Random):
    """(value, key, enabled, tag) for array field kind k of length Ln, values = raw ctypes arrays"""
    out = []
    keys = [None, ["s", None, None, None]]
    if k in INT_KINDS or k == "Byte":
        lo, hi = INT_RANGE[k]
        w = INT_WIDTH[k]
        own = "Uint8" if k == "Byte" else k
        signed = own.startswith("Int")
        other = ("Uint" + own[3:]) if signed else ("Int" + own[4:])
        wider = {1: "Int16", 2: "Int32", 4: "Int64", 8: "Int8"}[w]
        olo, ohi = INT_RANGE[other]
        common = [x for x in (0, 1, min(hi, ohi), 5) if lo <= x <= hi and olo <= x <= ohi]
        inr = lambda n: [common[i % len(common)] for i in range(n)]
        for key in keys:
            out.append((V_carr(own, Ln, _pack(own, [rng.randint(lo, hi) for _ in range(Ln)])), key, True, "carr-own"))
            out.append((V_carr(other, Ln, _pack(other, inr(Ln))), key, True, "carr-other-sign-inrange"))
            # a value the OTHER signedness can hold and this field cannot, at every position
            badv = ohi if signed else olo
            for p in range(Ln):
                vals = inr(Ln)
                vals[p] = badv
                out.append((V_carr(other, Ln, _pack(other, vals)), key, True, "carr-other-sign-bad"))
            wl, wh = INT_RANGE[wider]
            small = lambda n: [[0, 1, 5][i % 3] for i in range(n)]
            out.append((V_carr(wider, Ln, _pack(wider, small(Ln))), key, True, "carr-other-width-inrange"))
            bw = [x for x in (hi + 1, lo - 1) if wl <= x <= wh]
            if bw:
                for p in range(Ln):
                    vals = small(Ln)
                    vals[p] = bw[p % len(bw)]
                    out.append((V_carr(wider, Ln, _pack(wider, vals)), key, True, "carr-other-width-bad"))
            out.append((V_carr(own, Ln + 1, _pack(own, inr(Ln + 1))), key, True, "carr-wrong-length"))
            out.append((V_carr("Float", Ln, _pack("Float", [1.0] * Ln)), key, True, "carr-float-elems"))
            out.append((V_carr("Char", Ln, [97] * Ln), key, True, "carr-char-elems"))
        if Ln >= 2:
            vals = inr(2)
            out.append((V_carr(other, 2, _pack(other, vals)), ["s", 0, 2, None], True, "carr-slice-inrange"))
            for p in range(2):
                vals = inr(2)
                vals[p] = ohi if signed else olo
                out.append((V_carr(other, 2, _pack(other, vals)), ["s", Ln - 2, Ln, None], True, "carr-slice-bad"))
        out.append((V_carr(other, Ln, _pack(other, [ohi if signed else olo] * Ln)), None, False, "carr-off"))
        out.append((V_carr(own, Ln, _pack(own, inr(Ln))), ["i", 0], True, "carr-into-element"))
    else:
        own = k
        for key in keys:
            out.append((V_carr(own, Ln, _pack(own, [1.5, -0.0, 3.25, 1e10, 2.0][:Ln])), key, True, "carr-own"))
            out.append((V_carr("Int16", Ln, _pack("Int16", [-3, 7, 300, 0, 1][:Ln])), key, True, "carr-int-elems"))
            out.append((V_carr("Uint64", Ln, _pack("Uint64", [2 ** 64 - 1] * Ln)), key, True, "carr-int-elems"))
            if k == "Float":
                for p in range(Ln):
                    vals = [1.0] * Ln
                    vals[p] = 1e39 if p % 2 == 0 else -1e39
                    out.append((V_carr("Double", Ln, _pack("Double", vals)), key, True, "carr-double-overflow"))
                nanlead = [float("nan")] + [1e39] * (Ln - 1)
                out.append((V_carr("Double", Ln, _pack("Double", nanlead)), key, True, "carr-double-overflow"))
            out.append((V_carr("Double", Ln, _pack("Double", [float("inf")] + [0.0] * (Ln - 1))), key, True, "carr-inf"))
            out.append((V_carr(own, Ln + 1, _pack(own, [0.0] * (Ln + 1))), key, True, "carr-wrong-length"))
            out.append((V_carr("Char", Ln, [97] * Ln), key, True, "carr-char-elems"))
        out.append((V_carr("Double", Ln, _pack("Double", [1e39] * Ln)), None, False, "carr-off"))
    return out


def slice_keys(L: int) -> List[Optional[list]]:
    ks: List[Optional[list]] = [None, ["s", None, None, None]]
    ks += [["i", i] for i in range(-L - 1, L + 1)]
    ks += [["s", i, j, None] for i in range(0, L + 1) for j in range(i, L + 1)]
    ks += [["s", None, None, 2], ["s", 1, None, 2], ["s", None, None, -1], ["s", None, None, 0], ["s", -10, 10, None],
           ["s", L, 0, -2], ["s", None, None, -2], ["s", -1, None, None], ["s", None, -1, None], ["s", 3, 1, None],
           ["s", L - 1, None, -1], ["s", 1, L + 3, 3]]
    return ks


def py_slice_len(k, L: int) -> Optional[int]:
    if k is None:
        return L
    if k[0] == "i":
        return None
    if k[3] == 0:
        return None
    return len(range(*slice(k[1], k[2], k[3]).indices(L)))


# ---------------------------------------------------------------------------------------------
# op generation

def gen_ops(L: Layouts, idx: Dict[str, int], rng: random.Random, tier: str) -> List[dict]:
    ops: List[dict] = []

    def img(ci: int, mode: int) -> str:
        n = L.size(ci)
        if mode == 0:
            return bytes(n).hex()
        if mode == 1:
            return bytes([0x11] * n).hex()
        return bytes(rng.randrange(256) for _ in range(n)).hex()

    def op(cname, field, val, key=None, path=(), enabled=True, tag="", mode=None, leafcls=None, view=None):
        ci = idx[cname]
        lc = ci if leafcls is None else leafcls
        ts, _, _ = L.fld(lc, field)
        ops.append(dict(view=view, cls=ci, init=img(ci, rng.randrange(3) if mode is None else mode), path=[list(p) for p in path],
                        field=field, key=key, val=val_json(val), enabled=enabled, _val=val, _ts=ts, _tag=tag,
                        _cname=cname))

    # --- scalars: every kind x whole boundary set, validation on and off
    svals = scalar_values(L, idx)
    sfields = [k.lower() for k in INT_KINDS] + ["f", "d", "c", "by", "s2", "s5"]
    for fn in sfields:
        for v in svals:
            # every (kind, value) on an all-0x11 image (no byte is NUL: a refused assignment that clears or
            # rewrites anything shows in bytes(msg)) and on a random image
            op("VM_SCALARS", fn, v, tag="scalar", mode=1)
            op("VM_SCALARS", fn, v, tag="scalar", mode=2)
            op("VM_SCALARS", fn, v, enabled=False, tag="scalar-off")
    # the VALUE is the bound array object of ANOTHER field: same message, another instance (same / other field name),
    # another message type with / without a field of the destination's name
    for pre in ("p", "d", "f", "b", "u"):
        tgt, src = pre + "target", pre + "pos"
        for rep in range(3):
            rnd = lambda c: ([rng.randrange(256) for _ in range(L.size(idx[c]))] if pre in ("p", "b", "u")
                             else [b for _ in range(L.size(idx[c]) // 4 + 1) for b in (rng.randrange(256), rng.randrange(256), rng.randrange(100), 0x3F)][:L.size(idx[c])])
            for en in (True, False):
                ia = len(ops)
                op("VM_AA", tgt, V_none(), tag="arr-field-to-field", mode=2, enabled=en)
                o = ops[ia]
                v = V_arr(idx["VM_AA"], src, list(bytes.fromhex(o["init"])), same_msg=True)   # m.target = m.pos
                o["val"], o["_val"] = val_json(v), v
                for donor, dfield in (("VM_AA", src), ("VM_AA", tgt), ("VM_AB", src), ("VM_AC", src), ("VM_AB", tgt)):
                    op("VM_AA", tgt, V_arr(idx[donor], dfield, rnd(donor)), tag="arr-field-to-field", mode=2, enabled=en)
        # wrong kind / wrong length sources are refused
        other = {"p": "upos", "d": "fpos", "f": "dpos", "b": "ppos", "u": "ppos"}[pre]
        op("VM_AA", tgt, V_arr(idx["VM_AB"], other, [1] * L.size(idx["VM_AB"])), tag="arr-field-to-field", mode=1)
    # stores through a view object (msg.arr) obtained under the OTHER validation state than the one in force at the
    # store: taken inside a disable block (left normally / nested / by exception) and used with validation on, and
    # taken with validation on and used inside a disable block
    for k in ("Int8", "Uint16", "Int64", "Float", "Double", "Byte"):
        good, bad = elem_values(k)
        cname = f"VM_A_{k}_4"
        for vm, en in (("off-normal", True), ("off-nested", True), ("off-exc", True), ("on", False)):
            for b in bad[:4] + good[:2]:
                op(cname, "a", b, key=["i", 1], enabled=en, tag="view-state", mode=1, view=vm)
                items = [good[0], good[1 % len(good)], good[0]]
                op(cname, "a", V_list(items[:2] + [b]), key=["s", 1, 4, None], enabled=en, tag="view-state", mode=1, view=vm)
                op(cname, "a", V_list([good[0], b, good[0], good[0]]), key=["s", None, None, None], enabled=en,
                   tag="view-state", mode=1, view=vm)
            if k in FLOAT_KINDS:
                op(cname, "a", V_list([V_fbits(NAN), V_float(0.5), bad[0], V_float(0.5)]), key=["s", None, None, None],
                   enabled=en, tag="view-state", mode=1, view=vm)
    sA_, sB_ = idx["VS_A"], idx["VS_B"]
    inst_ = lambda c: V_struct(c, [rng.randrange(256) for _ in range(4)])
    for vm, en in (("off-normal", True), ("off-nested", True), ("off-exc", True), ("on", False)):
        for items in ([inst_(sA_), inst_(sB_)], [inst_(sA_), inst_(sA_)], [inst_(sA_), V_none()]):
            op("VM_SA_2", "sa", V_list(items), key=["s", None, None, None], enabled=en, tag="view-state", mode=1, view=vm)
            op("VM_SA_2", "sa", items[1], key=["i", 1], enabled=en, tag="view-state", mode=1, view=vm)
    # Char fields holding a non-NUL value, refused and accepted values, at every nesting
    cvals = [V_str(""), V_str("ab"), V_str("abc"), V_str("é"), V_str("\x80"), V_int(5), V_none(), V_bytes(b""), V_bytes(b"a"),
             V_float(1.0), V_bool(True), V_list([V_str("a")]), V_list([]), V_cinst("Uint8", [65]), V_cinst("Int8", [65]),
             V_carr("Char", 1, [65]), V_str("a"), V_str("\x00"), V_str("\x7f"), V_cinst("Char", [66])]
    sC = idx["VS_C"]
    for v in cvals:
        for mode in (1, 2):
            op("VM_CH", "c", v, tag="char-atomic", mode=mode)
            op("VM_CH", "ch", v, path=[["st"]], tag="char-atomic", mode=mode, leafcls=sC)
            op("VM_CH", "ch", v, path=[["sa", 0]], tag="char-atomic", mode=mode, leafcls=sC)
            op("VM_CH", "ch", v, path=[["sa", 1]], tag="char-atomic", mode=mode, leafcls=sC)
        op("VM_CH", "c", v, tag="char-atomic-off", mode=1, enabled=False)
        op("VM_CH", "ch", v, path=[["sa", 1]], tag="char-atomic-off", mode=1, enabled=False, leafcls=sC)
    for fn, v in [("int8", V_int(1)), ("s5", V_str("a"))]:
        op("VM_SCALARS", fn, v, key=["i", 0], tag="scalar-key", mode=0)   # zero image: the getter must not fail first
    # --- histories on one string field are exercised by C10; here: every prefix length of String(5)
    for s in ["", "a", "ab", "abc", "abcd", "abcde", "ab\x00cd", "\x00abc", "ab\x00c", "a\x00bc", "abc\x00", "\x00", "\x00\x00",
              "a\x00\x00b", "\x7f\x00\x7f", "\x01\x00\x1f", "\x7f\x1f\x01\x7f"]:
        op("VM_SCALARS", "s5", V_str(s), tag="string", mode=1)
        op("VM_SCALARS", "s5", V_str(s), tag="string", mode=0)
        op("VM_SCALARS", "s5", V_str(s), tag="string", mode=2)
        op("VM_SCALARS", "s5", V_str(s), tag="string-off", mode=1, enabled=False)
    # --- arrays
    arr_ops: List[tuple] = []
    for k in INT_KINDS + FLOAT_KINDS + ["Byte"]:
        good, bad = elem_values(k)
        nanv = V_fbits(NAN)
        for Ln in range(1, 6):
            if k == "Byte" and Ln < 2:
                continue
            cname = f"VM_A_{k}_{Ln}"
            fill = [good[i % len(good)] for i in range(Ln)]
            # all-valid whole array, list / tuple-as-list / bytes
            arr_ops.append((cname, "a", V_list(fill), None, True, "arr-valid"))
            arr_ops.append((cname, "a", V_list(fill), ["s", None, None, None], True, "arr-valid"))
            arr_ops.append((cname, "a", V_bytes(bytes(range(1, Ln + 1))), None, True, "arr-bytes"))
            arr_ops.append((cname, "a", V_bytes(bytes([255] * Ln)), None, True, "arr-bytes"))
            arr_ops.append((cname, "a", V_str("a" * Ln), None, True, "arr-str"))
            arr_ops.append((cname, "a", V_list([]), None, True, "arr-empty"))
            arr_ops.append((cname, "a", V_list(fill + [good[0]]), None, True, "arr-long"))
            arr_ops.append((cname, "a", V_list(fill[:-1]), None, True, "arr-short"))
            for v in (V_none(), V_int(1), V_float(1.0), good[0]):
                arr_ops.append((cname, "a", v, None, True, "arr-scalar-into-whole"))
            # one bad element at every position, valid (and NaN) neighbours
            for p in range(Ln):
                for b in bad:
                    for nb in ([fill] + ([[nanv] * Ln, [nanv] + fill[1:]] if k in FLOAT_KINDS else [])):
                        items = list(nb)
                        items[p] = b
                        arr_ops.append((cname, "a", V_list(items), None, True, "arr-one-bad"))
                        arr_ops.append((cname, "a", V_list(items), None, False, "arr-one-bad-off"))
            # element assignment, every index, good and bad values
            for key in [["i", i] for i in range(-Ln - 1, Ln + 1)]:
                for v in good[:3] + bad:
                    arr_ops.append((cname, "a", v, key, True, "arr-index"))
                arr_ops.append((cname, "a", bad[0], key, False, "arr-index-off"))
            # slice shapes
            for key in slice_keys(Ln):
                n = py_slice_len(key, Ln)
                for ln in sorted({n if n is not None else 1, 0, 1, Ln} | ({n + 1, max(0, n - 1)} if n is not None else set())):
                    items = [good[i % len(good)] for i in range(ln)]
                    arr_ops.append((cname, "a", V_list(items), key, True, "arr-slice"))
                    if ln >= 1:
                        items2 = list(items)
                        items2[rng.randrange(ln)] = bad[rng.randrange(len(bad))]
                        arr_ops.append((cname, "a", V_list(items2), key, True, "arr-slice-bad"))
                        if k in FLOAT_KINDS and ln >= 2:
                            items3 = [nanv] + list(items2[1:])
                            if items3[1:] == items[1:]:
                                items3[-1] = bad[0]
                            arr_ops.append((cname, "a", V_list(items3), key, True, "arr-slice-nan-bad"))
                            arr_ops.append((cname, "a", V_list(items3), key, False, "arr-slice-off"))
            # raw ctypes arrays (ctype * n): own element type, other signedness of the same width, another width,
            # wrong length, float / char element types; in range, and one out-of-range element at every position
            if tier == "thorough" or Ln in (1, 2, 4):
                for v, key, en, tag in carr_values(k, Ln, rng):
                    arr_ops.append((cname, "a", v, key, en, tag))
            if k in FLOAT_KINDS:
                # +inf / -inf at every position of msg.arr = .., arr[:] = .. and of every 2-element partial slice,
                # with finite and with NaN neighbours
                okv = V_float(1.5)
                for infv in (V_fbits(INF), V_fbits(NINF)):
                    for nbv in (okv, nanv):
                        for p in range(Ln):
                            items = [nbv] * Ln
                            items[p] = infv
                            for key in (None, ["s", None, None, None]):
                                arr_ops.append((cname, "a", V_list(items), key, True, "arr-inf"))
                        for st in range(0, Ln - 1):
                            for p in range(2):
                                items = [nbv, nbv]
                                items[p] = infv
                                arr_ops.append((cname, "a", V_list(items), ["s", st, st + 2, None], True, "arr-inf"))
                    for i in range(Ln):
                        arr_ops.append((cname, "a", infv, ["i", i], True, "arr-inf"))
            if k == "Byte":
                for key in (None, ["i", 0], ["s", 0, 1, None], ["s", 0, 2, None]):
                    for v in (V_bytes(b"\x07"), V_bytes(b"\x07\x08"), V_bytes(b""), V_bytes(bytes([9] * Ln)),
                              V_list([V_bytes(b"\x01")] * Ln), V_cinst("Uint8", [9]), V_cinst("Int8", [9])):
                        arr_ops.append((cname, "a", v, key, True, "bytearray"))
                        arr_ops.append((cname, "a", v, key, False, "bytearray-off"))
            # whole-array assignment from another bound array field
            for k2, L2 in [(k, Ln), (k, Ln % 5 + 1 if k != "Byte" else (Ln - 1) % 4 + 2),
                           ("Uint8" if k != "Uint8" else "Int8", Ln), ("Byte", max(2, Ln)), ("Float", Ln)]:
                if k2 == "Byte" and L2 < 2:
                    continue
                dn = f"VM_A_{k2}_{L2}"
                raw = [rng.randrange(256) for _ in range(L.size(idx[dn]))]
                if k2 in FLOAT_KINDS:   # donor floats: keep them finite and small
                    raw = list(bytes(L.size(idx[dn])))
                for en in (True, False):
                    arr_ops.append((cname, "a", V_arr(idx[dn], "a", raw), None, en, "arr-from-array"))
                arr_ops.append((cname, "a", V_arr(idx[dn], "a", raw), ["s", None, None, None], True, "arr-from-array-slice"))
    # --- structs / struct arrays
    sA, sB = idx["VS_A"], idx["VS_B"]
    inst = lambda c: V_struct(c, [rng.randrange(256) for _ in range(4)])
    for Ln in range(1, 4):
        cname = f"VM_SA_{Ln}"
        for v in (inst(sA), inst(sB), V_none(), V_int(5), V_list([inst(sA)]), V_bytes(b"\x01\x02\x03\x04"),
                  V_struct(idx["VS_N"], [0] * L.size(idx["VS_N"]))):
            for en in (True, False):
                arr_ops.append((cname, "st", v, None, en, "struct"))
        for p in range(Ln):
            for badv in (inst(sB), V_none(), V_int(1), V_list([inst(sA)])):
                items = [inst(sA) for _ in range(Ln)]
                items[p] = badv
                for en in (True, False):
                    arr_ops.append((cname, "sa", V_list(items), None, en, "sarr-one-bad"))
        arr_ops.append((cname, "sa", V_list([inst(sA) for _ in range(Ln)]), None, True, "sarr-valid"))
        arr_ops.append((cname, "sa", V_list([inst(sA) for _ in range(Ln + 1)]), None, True, "sarr-long"))
        arr_ops.append((cname, "sa", V_list([]), None, True, "sarr-empty"))
        arr_ops.append((cname, "sa", V_list([]), ["s", 0, 0, None], True, "sarr-empty-slice"))
        arr_ops.append((cname, "sa", inst(sA), None, True, "sarr-scalar"))
        for key in [["i", i] for i in range(-Ln - 1, Ln + 1)] + [["s", 0, 1, None], ["s", None, None, -1]]:
            for v in (inst(sA), inst(sB), V_list([inst(sA)]), V_list([inst(sB)]), V_none()):
                arr_ops.append((cname, "sa", v, key, True, "sarr-key"))
        for dn, fld in [(cname, "sa"), (cname, "sb"), (f"VM_SA_{Ln % 3 + 1}", "sa"), (f"VM_A_Int8_{Ln}", "a")]:
            raw = [rng.randrange(256) for _ in range(L.size(idx[dn]))]
            val = V_sarr(idx[dn], fld, raw) if fld != "a" else V_arr(idx[dn], fld, raw)
            for en in (True, False):
                arr_ops.append((cname, "sa", val, None, en, "sarr-from-array"))
    quick_keep = {"arr-valid", "sarr-valid", "struct", "sarr-one-bad", "sarr-key", "sarr-from-array", "bytearray"}
    quick_keep |= {a[5] for a in arr_ops if a[5].startswith("carr-")} | {"arr-inf"}
    if tier == "quick":
        keep = lambda a: a[5] in quick_keep or (a[5] == "arr-one-bad" and a[0].endswith(("_2", "_3")))
        must = [a for a in arr_ops if keep(a)]
        rest = [a for a in arr_ops if not keep(a)]
        rng.shuffle(rest)
        arr_ops = must + rest[:2500]
    for (cname, field, val, key, en, tag) in arr_ops:
        op(cname, field, val, key=key, enabled=en, tag=tag)
    # --- nested leaf fields (shared buffer): m.st.a, m.sa[i].b, m.nest.inner.a, m.nest.arr[j].b
    for Ln in range(1, 4):
        cname = f"VM_SA_{Ln}"
        for v in (V_int(5), V_int(-128), V_int(128), V_int(40000), V_float(1.0), V_none()):
            op(cname, "a", v, path=[["st"]], tag="nested", leafcls=sA)
            op(cname, "b", v, path=[["sa", Ln - 1]], tag="nested", leafcls=sA)
            op(cname, "a", v, path=[["nest"], ["inner"]], tag="nested", leafcls=sA)
            op(cname, "b", v, path=[["nest"], ["arr", 1]], tag="nested", leafcls=sA)
            op(cname, "y", v, path=[["nest"]], tag="nested", leafcls=idx["VS_N"])
        op(cname, "inner", inst(sA), path=[["nest"]], tag="nested", leafcls=idx["VS_N"])
        op(cname, "inner", inst(sB), path=[["nest"]], tag="nested", leafcls=idx["VS_N"])
        op(cname, "arr", V_list([inst(sA), inst(sB)]), path=[["nest"]], tag="nested", leafcls=idx["VS_N"])
        op(cname, "arr", V_list([inst(sA), inst(sA)]), path=[["nest"]], tag="nested", leafcls=idx["VS_N"])
    # --- classes built by the real compiler
    cm = "VC_MSG"
    cvals = {"i8": [V_int(127), V_int(128), V_float(1.0)], "u16": [V_int(65535), V_int(65536), V_int(-1)],
             "i64": [V_int(2 ** 63 - 1), V_int(2 ** 63)], "f": [V_float(1.1), V_float(1e39), V_fbits(NAN)],
             "d": [V_float(1.1), V_fbits(INF)], "c": [V_str("a"), V_str("ab"), V_str("é")],
             "by": [V_bytes(b"\x07"), V_int(256), V_int(255)], "s4": [V_str("abc"), V_str("abcd"), V_str("aé")],
             "ba": [V_bytes(b"\x01\x02\x03"), V_list([V_int(1), V_int(2), V_int(256)]), V_bytes(b"\x01")],
             "ia": [V_list([V_int(1), V_int(-32768), V_int(32767)]), V_list([V_int(1), V_int(2), V_int(32768)]),
                    V_list([V_int(1), V_float(2.0), V_int(3)])],
             "fa": [V_list([V_float(1.0), V_float(2.5), V_int(3)]), V_list([V_float(1.0), V_float(1e39), V_int(3)]),
                    V_list([V_fbits(NAN), V_float(1e39), V_int(3)]), V_list([V_fbits(NAN), V_float(1.0), V_int(10 ** 400)])],
             "st": [V_struct(idx["VC_S"], [1, 2, 3, 4]), inst(sA)],
             "sa": [V_list([V_struct(idx["VC_S"], [1, 2, 3, 4])] * 2), V_list([V_struct(idx["VC_S"], [1, 2, 3, 4]), inst(sA)])]}
    for fn, vals in cvals.items():
        for v in vals:
            op(cm, fn, v, tag="compiled")
            op(cm, fn, v, enabled=False, tag="compiled-off")
    op(cm, "ia", V_list([V_int(5), V_int(6)]), key=["s", 0, 2, None], tag="compiled")
    op(cm, "b", V_int(40000), path=[["sa", 1]], tag="compiled", leafcls=idx["VC_S"])
    op(cm, "b", V_int(-5), path=[["sa", 1]], tag="compiled", leafcls=idx["VC_S"])
    return ops


# ---------------------------------------------------------------------------------------------
# independent spec oracle (uses only the implementation's observations and the C type ranges)

def _is_int(v): return v[0] in ("int", "bool")
def _ival(v): return int(v[1])
def _is_nan_bits(b): return (b >> 52) & 0x7FF == 0x7FF and (b & ((1 << 52) - 1)) != 0
def _is_inf_bits(b): return (b >> 52) & 0x7FF == 0x7FF and (b & ((1 << 52) - 1)) == 0


def elem_ood(kind: str, v) -> Optional[bool]:
    """is v outside the domain of a scalar of this kind (per the property text)?  None = no claim"""
    t = v[0]
    if kind in INT_RANGE:
        if t == "cinst":
            return None if (v[1], v[2]) == CTYPE[kind] else True
        if kind == "Byte" and t == "bytes":
            return len(v[1]) != 1
        if not _is_int(v):
            return True
        lo, hi = INT_RANGE[kind]
        return not (lo <= _ival(v) <= hi)
    if kind in FLOAT_KINDS:
        if t == "cinst":
            return None if (v[1], v[2]) == CTYPE[kind] else True
        if t == "numlike":
            return None
        if t == "float":
            if _is_nan_bits(v[1]):
                return None
            if _is_inf_bits(v[1]):
                return True       # the value read back must be finite: an explicit infinity is out of domain
            x = abs(f64_from_bits(v[1]))
            return kind == "Float" and x >= F32_OVERFLOW
        if _is_int(v):
            return abs(_ival(v)) >= (F32_OVERFLOW if kind == "Float" else F64_OVERFLOW_INT)
        return True
    raise ValueError(kind)


def seq_items(v, L: Layouts) -> Optional[list]:
    t = v[0]
    if t == "list":
        return list(v[1])
    if t == "bytes":
        return [V_int(b) for b in v[1]]
    if t == "str":
        return [("str", [c]) for c in v[1]]
    if t == "arr":
        ts2, off, size = L.fld(v[1], v[2])
        kind = "Uint8" if ts2[0] == "ByteArray" else ts2[1]
        n = ts2[1] if ts2[0] == "ByteArray" else ts2[2]
        return seq_items(("carr", CTYPE[kind][0], CTYPE[kind][1], n, v[3][off:off + size]), L)
    if t == "carr":
        ck, cw, n, raw = v[1], v[2], v[3], v[4]
        out = []
        for i in range(n):
            b = bytes(raw[i * cw:(i + 1) * cw])
            if ck <= 1:
                out.append(V_int(int.from_bytes(b, "little", signed=(ck == 0))))
            elif ck == 2:
                import struct as _st
                out.append(V_float(float(_st.unpack("<f" if cw == 4 else "<d", b)[0])))
            else:
                out.append(("bytes", list(b)))
        return out
    return None


def out_of_domain(ts, key, v, L: Layouts) -> Optional[bool]:
    k = ts[0]
    if k in INT_RANGE or k in FLOAT_KINDS:
        return elem_ood(k, v) if key is None else None
    if k == "Char":
        if v[0] == "cinst":
            return None if (v[1], v[2]) == CTYPE["Char"] else True
        if v[0] != "str":
            return True
        return len(v[1]) > 1 or any(c > 127 for c in v[1])
    if k == "String":
        if v[0] != "str":
            return True
        return len(v[1]) > ts[1] - 1 or any(c > 127 for c in v[1])
    if k in ("IntArray", "FloatArray", "ByteArray"):
        ek = "Byte" if k == "ByteArray" else ts[1]
        n = ts[1] if k == "ByteArray" else ts[2]
        if key is not None and key[0] == "i":
            if not (-n <= key[1] < n):
                return None
            return elem_ood(ek, v)
        if v[0] == "arr":
            return None                 # another bound array: a sequence of its elements; no claim
        if v[0] == "sarr":
            return True
        if key is not None and key[3] == 0:
            return None
        want = py_slice_len(key, n)
        if k == "ByteArray" and v[0] == "bytes":
            return len(v[1]) != want
        items = seq_items(v, L)
        if items is None:
            return True
        if len(items) != want:
            return True
        flags = [elem_ood(ek, x) if x[0] not in ("bytes",) or ek != "Byte" else True for x in items]
        if any(f is True for f in flags):
            return True
        return None if any(f is None for f in flags) else False
    if k == "Struct":
        return not (v[0] == "struct" and v[1] == ts[1])
    if k == "StructArray":
        n = ts[2]
        if key is not None and key[0] == "i":
            if not (-n <= key[1] < n):
                return None
            return not (v[0] == "struct" and v[1] == ts[1])
        if v[0] == "sarr":
            ts2, _, _ = L.fld(v[1], v[2])
            return not (ts2[1] == ts[1] and ts2[2] == n)
        if v[0] == "arr":
            return True
        if key is not None and key[3] == 0:
            return None
        items = seq_items(v, L)
        if items is None or len(items) != py_slice_len(key, n):
            return True
        return any(not (x[0] == "struct" and x[1] == ts[1]) for x in items)
    raise ValueError(ts)


def expected_elem(kind: str, v) -> Optional[list]:
    """flat encoding of the value that must be read back (None = no claim)"""
    t = v[0]
    if kind in INT_RANGE:
        signed = kind.startswith("Int")
        if _is_int(v):
            return [1, _ival(v)]
        if t == "cinst":
            return [1, int.from_bytes(bytes(v[3]), "little", signed=signed)]
        if t == "bytes" and len(v[1]) == 1:
            return [1, v[1][0]]
        return None
    if kind in FLOAT_KINDS:
        if t == "float" or t == "numlike":
            x = f64_from_bits(v[1])
        elif _is_int(v):
            if abs(_ival(v)) > 2 ** 53:
                return None       # int -> double -> float rounds twice: no claim (reported as an observation)
            x = float(_ival(v))
        else:
            return None
        if math.isnan(x):
            return [2, "nan"]
        y = f32_round(x) if kind == "Float" else x
        return None if y is None else [2, f64_bits(y)]
    raise ValueError(kind)


def expected_rb(ts, key, v, L: Layouts) -> Optional[list]:
    k = ts[0]
    if k in INT_RANGE or k in FLOAT_KINDS:
        return expected_elem(k, v)
    if k in ("Char", "String"):
        if v[0] != "str":
            return None
        cs = v[1][:v[1].index(0)] if (0 in v[1] and k == "String") else v[1]
        return [3, len(cs)] + cs
    if k in ("IntArray", "FloatArray", "ByteArray"):
        ek = "Byte" if k == "ByteArray" else ts[1]
        if key is not None and key[0] == "i":
            e = expected_elem(ek, v)
            if e is None:
                return None
            return [4, 1, e[1]] if k == "ByteArray" else e
        if k == "ByteArray" and v[0] == "bytes":
            return [4, len(v[1])] + v[1]
        items = seq_items(v, L)
        if items is None:
            return None
        es = [expected_elem(ek, x) for x in items]
        if any(e is None for e in es):
            return None
        if k == "ByteArray":
            return [4, len(es)] + [e[1] for e in es]
        return [5, len(es)] + [y for e in es for y in e]
    if k == "Struct":
        return [6, len(v[2])] + v[2] if v[0] == "struct" else None
    if k == "StructArray":
        if key is not None and key[0] == "i":
            return [6, len(v[2])] + v[2] if v[0] == "struct" else None
        items = seq_items(v, L)
        if items is None or any(x[0] != "struct" for x in items):
            return None
        return [5, len(items)] + [y for x in items for y in [6, len(x[2])] + x[2]]
    return None


def rb_matches(exp: list, got: list) -> bool:
    if len(exp) != len(got):
        return False
    i = 0
    while i < len(exp):
        if exp[i] == "nan":
            if not _is_nan_bits(got[i]):
                return False
        elif exp[i] != got[i]:
            return False
        i += 1
    return True


def first_is_nan(v) -> bool:
    return v[0] == "list" and len(v[1]) > 0 and v[1][0][0] == "float" and _is_nan_bits(v[1][0][1])


def oracle(op: dict, res: dict, L: Layouts) -> Optional[Tuple[str, str]]:
    """(key, description) of a C09 violation visible in the implementation's own observations"""
    if not op.get("enabled", True):
        return None                     # inside an explicit disable block the property makes no claim
    ts, key, v = op["_ts"], op.get("key"), op["_val"]
    before, after = bytes.fromhex(op["init"]), bytes.fromhex(res["after"])
    kind = ts[0] + ("(" + ts[1] + ")" if ts[0] in ("IntArray", "FloatArray") else "")
    nanfirst = ts[0] == "FloatArray" and first_is_nan(v)
    if res["code"] != 0:
        if after != before:
            ch = [i for i in range(len(before)) if before[i] != after[i]]
            k = "float-array-nan-first-partial-write" if nanfirst else f"partial-write:{kind}"
            return k, f"{res['exc']} raised but bytes {ch[:8]} of the message changed ({kind}, value {json.dumps(val_json(v))[:200]})"
        return None
    off, size = res["off"], res["size"]
    if before[:off] != after[:off] or before[off + size:] != after[off + size:]:
        return f"extent:{kind}", f"bytes outside [{off},{off + size}) changed"
    ood = out_of_domain(ts, key, v, L)
    if ood:
        k = "float-array-nan-first-accepts-overflow" if nanfirst else f"accepts-out-of-domain:{kind}"
        return k, f"out-of-domain value accepted by {kind}: {json.dumps(val_json(v))[:200]} key={key}"
    exp = expected_rb(ts, key, v, L)
    if exp is not None and "rb" in res and not rb_matches(exp, res["rb"]):
        return f"readback:{kind}", f"read back {res['rb'][:12]} after assigning {json.dumps(val_json(v))[:160]} (expected {exp[:12]})"
    return None


# ---------------------------------------------------------------------------------------------
# validation flag scenarios

def gen_flag_scripts(rng: random.Random, tier: str):
    """manual enter/exit scripts (several threads) and genuine `with` programs"""
    scripts = []
    # every well-nested single-thread sequence up to depth 3 with every exit kind, probed after each event
    def seqs(depth, maxdepth, length):
        if length == 0:
            yield []
            return
        if depth < maxdepth:
            for ig in (0, 1):
                for r in seqs(depth + 1, maxdepth, length - 1):
                    yield [ig] + r
        if depth > 0:
            for ex in (2, 3):
                for r in seqs(depth - 1, maxdepth, length - 1):
                    yield [ex] + r
    allseq = [s for n in range(1, 7) for s in seqs(0, 3, n)]
    if tier == "quick":
        rng.shuffle(allseq)
        allseq = sorted(allseq[:260] + [[0, 3], [0, 2], [0, 0, 3, 2], [0, 0, 3, 3], [1, 3], [0, 3, 0, 2]])
    for s in allseq:
        sc = [[0, 4]]
        for c in s:
            sc += [[0, c], [0, 4]]
        scripts.append(dict(script=sc, threads=1))
    # two / three threads interleaved: one inside a block, another assigning
    scripts.append(dict(script=[[0, 0], [1, 4], [0, 4], [1, 0], [0, 2], [1, 4], [0, 4], [1, 2], [1, 4]], threads=2))
    scripts.append(dict(script=[[0, 0], [0, 3], [1, 4], [0, 4], [2, 4]], threads=3))
    for _ in range(40 if tier == "quick" else 400):
        nt = rng.choice([2, 3])
        depth = [0] * nt
        sc = []
        for _ in range(rng.randint(4, 14)):
            t = rng.randrange(nt)
            c = rng.choice([0, 0, 1, 2, 3, 4, 4]) if depth[t] > 0 else rng.choice([0, 0, 1, 4, 4])
            if c in (0, 1):
                depth[t] += 1
            elif c in (2, 3):
                depth[t] -= 1
            sc.append([t, c])
        sc += [[t, 4] for t in range(nt)]
        scripts.append(dict(script=sc, threads=nt))
    # programs with real `with` statements
    progs = []

    def rnd_prog(d):
        nodes = []
        for _ in range(rng.randint(1, 3)):
            r = rng.random()
            if r < 0.35 or d >= 3:
                nodes.append(["probe"])
            elif r < 0.75:
                nodes.append(["with", int(rng.random() < 0.2), rnd_prog(d + 1)])
            elif r < 0.9:
                nodes.append(["try", rnd_prog(d + 1)])
            else:
                nodes.append(["raise"])
        nodes.append(["probe"])
        return nodes
    progs.append([["probe"], ["try", [["with", 0, [["probe"], ["raise"]]]]], ["probe"]])
    progs.append([["with", 0, [["try", [["with", 0, [["raise"]]]]], ["probe"]]], ["probe"]])
    progs.append([["try", [["with", 0, [["with", 0, [["raise"]]]]]]], ["probe"], ["with", 0, [["probe"]]], ["probe"]])
    progs.append([["try", [["with", 1, [["raise"]]]]], ["probe"]])
    for _ in range(60 if tier == "quick" else 600):
        progs.append(rnd_prog(0))
    return scripts, progs


def flatten_prog(prog) -> List[int]:
    """event codes (single thread) of a `with` program: 0/1 enter, 2 exit normal, 3 exit by exception, 4 probe"""
    out: List[int] = []

    class Boom(Exception):
        pass

    def ex(nodes):
        for n in nodes:
            if n[0] == "probe":
                out.append(4)
            elif n[0] == "raise":
                raise Boom()
            elif n[0] == "with":
                out.append(1 if n[1] else 0)
                try:
                    ex(n[2])
                except Boom:
                    out.append(3)
                    raise
                out.append(2)
            elif n[0] == "try":
                try:
                    ex(n[1])
                except Boom:
                    pass
    try:
        ex(prog)
    except Boom:
        pass
    return out


FLAG_HEADER = HEADER + """
Definition ev_of (c : Z) : tev :=
  if c =? 0 then TEv (Enter false) else if c =? 1 then TEv (Enter true) else if c =? 2 then TEv ExitNormal
  else if c =? 3 then TEv ExitExc else TProbe.
Definition check_case (c : list (Z * Z) * list Z) : bool :=
  let '(script, obs) := c in
  zl_eqb (map Z.b2z (trun [] (map (fun p => (Z.to_nat (fst p), ev_of (snd p))) script))) obs.
"""


def flag_spec_failures(script: List[List[int]], obs: List[int]):
    """spec: a probe outside every non-ignore block (of its own thread) must find validation on"""
    stacks: Dict[int, List[int]] = {}
    exc_seen: Dict[int, bool] = {}
    k = 0
    out = []
    for tid, c in script:
        st = stacks.setdefault(tid, [])
        if c in (0, 1):
            st.append(c)
        elif c in (2, 3):
            top = st.pop()
            if c == 3 and top == 0:
                exc_seen[tid] = True
        else:
            if k < len(obs) and obs[k] == 0 and not any(x == 0 for x in st):
                key = "flag-not-restored-after-exception" if exc_seen.get(tid) else "flag-off-outside-block"
                out.append((key, f"thread {tid}: out-of-range int accepted outside every disable block at event {k}"))
            k += 1
    return out


# ---------------------------------------------------------------------------------------------

def run(chk: Check):
    rng = random.Random(chk.seed)
    seen: Dict[str, int] = {}

    def _report(key, desc, replay):
        # one replay per failing class (key); every occurrence is counted in the evidence
        seen[key] = seen.get(key, 0) + 1
        if seen[key] == 1:
            chk.spec_failure(key=key, desc=desc, replay=replay)

    gen_ok = regen_or_report(chk)
    if gen_ok:
        proved = chk.prove(FAM, "Props.C09", THEOREMS, extra_targets=["Model/Values.vo", "Model/Flag.vo"])
        if proved and chk.tier == "thorough":
            ok, out = FAM.coqchk("Props.C09", timeout=2400)
            chk.cov["coqchk"] = out[-1200:]
            if not ok:
                chk.broken_obligation("coqchk rejected Val.Props.C09", out[-600:])
    else:
        chk.note("translator failed closed: model correspondence skipped, failing-input search (spec oracle on the "
                 "implementation) still runs")

    specs, idx, comp = class_specs()
    L = get_layouts(specs, comp)
    if L.compile_error:
        chk.note("classes could not be built through the real definition compiler (" + L.compile_error[:160] +
                 "): built directly from the validator descriptors instead")
    ops = gen_ops(L, idx, rng, chk.tier)
    base = dict(classes=specs, compiled=comp)
    wire = [{k: v for k, v in o.items() if not k.startswith("_")} for o in ops]
    results = run_worker_parallel(base, "ops", wire)

    dist: Dict[str, int] = {}
    nontrivial = set()
    cases = []
    for o, r in zip(ops, results):
        dist[o["_tag"]] = dist.get(o["_tag"], 0) + 1
        outcome = "raise:" + str(r["exc"]) if r["code"] else "ok"
        dist[outcome] = dist.get(outcome, 0) + 1
        if r.get("init_mismatch"):
            chk.broken_obligation("harness: initial image not reproduced", o["_cname"])
        cases.append(case_coq(L, o, r))
        nontrivial.add((json.dumps(o["_ts"]), json.dumps(o.get("key")), json.dumps(val_json(o["_val"]))[:300],
                        o.get("enabled", True)))
        v = oracle(o, r, L)
        if v:
            _report(v[0], v[1], dict(kind="op", classes=specs, compiled=comp,
                                                              op={k: x for k, x in o.items() if not k.startswith("_")},
                                                              observed=r))
    bad, log = eval_cases_robust(CHECK_STRICT, cases, per_file=250) if gen_ok else ([], "")
    hard = []
    soft = 0
    if bad:
        if any(b < 0 for b in bad):
            chk.broken_obligation("correspondence shard failed to evaluate", log[:1500])
        cand = [b for b in bad if b >= 0]
        bad2, log2 = eval_cases_robust(CHECK_LENIENT, [cases[b] for b in cand], per_file=250)
        if any(b < 0 for b in bad2):
            chk.broken_obligation("correspondence shard failed to evaluate", log2[:1500])
        hard = [cand[b] for b in bad2 if b >= 0]
        soft = len(cand) - len(hard)
    for b in hard[:4]:
        o, r = ops[b], results[b]
        chk.broken_obligation("correspondence Model/Values.v vs descriptors differs",
                              f"case {b} tag={o['_tag']} class={o['_cname']} field={o['field']} path={o['path']} "
                              f"key={o.get('key')} enabled={o.get('enabled')} val={json.dumps(val_json(o['_val']))[:300]} "
                              f"impl: exc={r['exc']} after={r['after'][:80]} rb={r.get('rb')}")
    if soft:
        chk.note(f"{soft} cases differ from the model only in the exception class (not part of the property)")

    # ---- validation flag
    scripts, progs = gen_flag_scripts(rng, chk.tier)
    fr = run_worker(dict(flags=scripts, withs=progs))
    fcases = []
    nflag = 0
    for s, obs in zip(scripts, fr["flags"]):
        if any(o is None or o < 0 for o in obs):
            chk.broken_obligation("flag harness: command failed", json.dumps(s)[:300])
            continue
        fcases.append("([" + ";".join(f"({t},{c})" for t, c in s["script"]) + "], " + zl(obs) + ")")
        nflag += 1
        for key, desc in flag_spec_failures(s["script"], obs):
            _report(key, desc, dict(kind="flag", script=s, observed=obs))
    for p, obs in zip(progs, fr["withs"]):
        ev = flatten_prog(p)
        sc = [[0, c] for c in ev]
        fcases.append("([" + ";".join(f"(0,{c})" for c in ev) + "], " + zl(obs) + ")")
        nflag += 1
        for key, desc in flag_spec_failures(sc, obs):
            _report(key, desc, dict(kind="with", prog=p, observed=obs))
    fbad, flog = eval_cases_robust(FLAG_HEADER, fcases, per_file=400, tag="f") if gen_ok else ([], "")
    for b in fbad[:3]:
        if b < 0:
            chk.broken_obligation("flag correspondence shard failed to evaluate", flog[:1500])
        else:
            chk.broken_obligation("correspondence Model/Flag.v vs disable_message_validation differs", fcases[b][:400])

    dist["flag-scripts"] = len(scripts)
    dist["with-programs"] = len(progs)
    dist["multi-thread-scripts"] = len([s for s in scripts if s["threads"] > 1])
    chk.cov["evaluations"] = len(cases) + nflag
    chk.cov["traces_validated_against_impl"] = (len(cases) - len(hard) + nflag - len([b for b in fbad if b >= 0])) if gen_ok else 0
    chk.cov["distinct_nontrivial"] = len(nontrivial)
    chk.cov["rule"] = ("one case = one assignment (attribute / index / slice, validation on or inside a disable block) on a "
                       "message with a zero, 0x11 or random byte image, run through the real descriptors+ctypes and through "
                       "Model/Values.v (vm_compute): compared = raised or not, bytes(msg) afterwards, value read back "
                       "(exception class compared softly); distinct by (field type, key, value, flag). Flag: enter/exit/"
                       "exit-by-exception scripts on 1-3 threads and programs with real `with` statements vs Model/Flag.v")
    chk.cov["input_distribution"] = dist
    chk.cov["spec_oracle_failures_by_key"] = seen
    chk.cov["exception_class_only_mismatches"] = soft
    chk.cov["exhaustive"] = chk.tier == "thorough"
    step = max(1, len(ops) // 5)
    chk.add_samples([dict(cls=o["_cname"], field=o["field"], path=o["path"], key=o.get("key"), enabled=o.get("enabled"),
                          val=json.dumps(val_json(o["_val"]))[:200], exc=r["exc"], rb=r.get("rb", [])[:10])
                     for o, r in list(zip(ops, results))[::step]])
    chk.assumptions += [
        "ctypes setfunc/getfunc, CPython max/min/isinstance/str.encode semantics are modelled and validated by the "
        "correspondence, not verified",
        "x86-64 Linux: c_int8..c_int64/c_uint8..c_uint64 are the aliases recorded in the translator; NaN payload handling of "
        "cvtsd2ss/cvtss2sd is bit-level model, validated",
        "value universe: int, bool, float, Fraction-like, str, bytes/bytearray, None, list/tuple, simple ctypes instances, "
        "struct instances, bound array fields; objects with hostile __gt__/__float__/__index__ are not carried",
        "an int assigned to a Float field is converted int->double->float (two roundings); the read-back claim for ints is "
        "checked only for |z| <= 2^53",
        "bool is accepted by integer fields and Fraction-like objects by float ARRAYS (not by float scalars): modelled as "
        "accepted, observation not violation",
    ]


def replay(path: str) -> int:
    d = json.load(open(path))
    r = d["replay"]
    if r.get("kind") == "op":
        res = run_worker(dict(classes=r["classes"], compiled=r["compiled"], ops=[r["op"]]))["ops"][0]
        print(json.dumps(dict(op=r["op"], observed_now=res, observed_then=r["observed"]), indent=1)[:4000])
    elif r.get("kind") == "flag":
        res = run_worker(dict(flags=[r["script"]]))["flags"][0]
        print(json.dumps(dict(script=r["script"], observed_now=res, observed_then=r["observed"])))
    elif r.get("kind") == "with":
        res = run_worker(dict(withs=[r["prog"]]))["withs"][0]
        print(json.dumps(dict(prog=r["prog"], observed_now=res, observed_then=r["observed"])))
    else:
        print(json.dumps(d, indent=1)[:4000])
    return 0
