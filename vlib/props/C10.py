"""C10 - serialisation round trips are the identity."""
from __future__ import annotations

import json
import random
from typing import Dict, List, Optional, Tuple

from ..framework import Check, REPO
from ..values_common import (FAM, INT_KINDS, FLOAT_KINDS, INT_RANGE, Layouts, get_layouts, run_worker,
                             run_worker_parallel, regen_or_report, eval_cases_robust, val_json, key_coq, HEADER, zl, z,
                             f64_bits, V_int, V_bool, V_float, V_fbits, V_str, V_bytes, V_list, V_none, V_cinst)

THEOREMS = [
    "C10_bytes", "C10_reach_invariant", "C10_reach_strings_clean", "C10_dict", "C10_json_partial", "C10_json_refuted",
    "C10_copy", "C10_version", "C10_message_partial",
    "C10_ex_string_history", "C10_ex_canonical", "C10_ex_message",
]

NAN = 0x7FF8000000000000
NEG_NAN = 0xFFF8000000000000
NAN_PAYLOAD = 0x7FF8000000000123
SNAN = 0x7FF0000000000001
FLT_MAX_BITS = 0x47EFFFFFE0000000
IMPORTS = ["header", "pyrtma.core_defs", "file:" + str(REPO / "tests" / "test_msg_defs" / "test_defs.py")]
COQ_MAX_SIZE = 400


# ---------------------------------------------------------------------------------------------
# classes

def class_specs(rng: random.Random, tier: str) -> Tuple[List[dict], Dict[str, int], List[int]]:
    specs: List[dict] = []
    idx: Dict[str, int] = {}
    comp: List[int] = []

    def add(name, base, fields, compiled=False):
        idx[name] = len(specs)
        specs.append(dict(name=name, base=base, type_id=2000 + len(specs), type_hash=0x1000 + 7 * len(specs),
                          fields=fields))
        if compiled:
            comp.append(idx[name])
        return idx[name]

    add("CS_IN", "struct", [["a", ["Int8"]], ["b", ["Int16"]], ["f", ["Float"]], ["s", ["String", 3]]])
    add("CS_MID", "struct", [["x", ["Uint8"]], ["inner", ["Struct", 0]], ["arr", ["StructArray", 0, 2]],
                             ["y", ["Int32"]]])
    allf = [[k.lower(), [k]] for k in INT_KINDS] + \
           [["f", ["Float"]], ["d", ["Double"]], ["c", ["Char"]], ["by", ["Byte"]], ["s2", ["String", 2]],
            ["s6", ["String", 6]], ["ba2", ["ByteArray", 2]], ["ba4", ["ByteArray", 4]]] + \
           [[f"a_{k.lower()}", ["IntArray", k, 1 + i % 3]] for i, k in enumerate(INT_KINDS)] + \
           [["fa", ["FloatArray", "Float", 3]], ["da", ["FloatArray", "Double", 2]]]
    add("CM_LEAVES", "data", allf)
    add("CM_NEST", "data", [["hd", ["Int16"]], ["mid", ["Struct", 1]], ["mids", ["StructArray", 1, 2]],
                            ["tl", ["String", 4]]])
    add("CM_SIGNAL", "data", [])                     # signal: no data segment, type_size == 0
    add("CC_SIGNAL", "data", [], compiled=True)      # `fields: null` through the real compiler
    # random definitions (depth <= 2), half of them through the real compiler
    nrand = 10 if tier == "quick" else 40
    kinds = INT_KINDS + FLOAT_KINDS + ["Byte", "Char", "String", "ByteArray", "IntArray", "FloatArray"]
    for j in range(nrand):
        compiled = (j % 2 == 0)
        sfields = []
        for i in range(rng.randint(1, 4)):
            sfields.append([f"p{i}", rnd_tspec(rng, kinds)])
        si = add(f"CR_S{j}", "struct", sfields, compiled)
        mfields = []
        for i in range(rng.randint(2, 7)):
            r = rng.random()
            if r < 0.15:
                mfields.append([f"q{i}", ["Struct", si]])
            elif r < 0.3:
                mfields.append([f"q{i}", ["StructArray", si, rng.randint(1, 3)]])
            else:
                mfields.append([f"q{i}", rnd_tspec(rng, kinds)])
        add(f"CR_M{j}", "data", mfields, compiled)
    return specs, idx, comp


def rnd_tspec(rng, kinds):
    k = rng.choice(kinds)
    if k == "String":
        return ["String", rng.randint(2, 9)]
    if k == "ByteArray":
        return ["ByteArray", rng.randint(2, 6)]
    if k == "IntArray":
        return ["IntArray", rng.choice(INT_KINDS), rng.randint(1, 4)]
    if k == "FloatArray":
        return ["FloatArray", rng.choice(FLOAT_KINDS), rng.randint(1, 4)]
    return [k]


def flatten(L: Layouts, ci: int, base: int = 0, path: Tuple = ()) -> List[dict]:
    """leaves of class ci: [{path, field, off, ts}] (structs and struct arrays expanded)"""
    out = []
    for fname, ts in L.specs[ci]["fields"]:
        _, off, size = L.fld(ci, fname)
        if ts[0] == "Struct":
            out += flatten(L, ts[1], base + off, path + ((fname,),))
        elif ts[0] == "StructArray":
            esz = L.size(ts[1])
            for i in range(ts[2]):
                out += flatten(L, ts[1], base + off + i * esz, path + ((fname, i),))
        else:
            out.append(dict(path=[list(p) for p in path], field=fname, off=base + off, ts=ts, size=size))
    return out


# ---------------------------------------------------------------------------------------------
# values

def leaf_values(ts, rng: random.Random) -> Tuple[List[tuple], List[tuple]]:
    """(in-domain values incl. extremes, a few out-of-domain ones)"""
    k = ts[0]
    if k in INT_KINDS:
        lo, hi = INT_RANGE[k]
        return [V_int(lo), V_int(hi), V_int(0), V_int(1), V_int(rng.randint(lo, hi)), V_bool(True)], [V_int(hi + 1), V_float(1.0)]
    if k == "Byte":
        return [V_int(0), V_int(255), V_bytes(b"\x7f"), V_bytes(b"\xff"), V_int(rng.randrange(256))], [V_int(256)]
    if k == "Float":
        return ([V_float(0.0), V_float(-0.0), V_float(1.1), V_float(-2.5), V_fbits(FLT_MAX_BITS), V_fbits(FLT_MAX_BITS | 1 << 63),
                 V_float(2.0 ** -149), V_float(1e-50), V_fbits(NAN), V_fbits(NEG_NAN), V_fbits(NAN_PAYLOAD), V_fbits(SNAN),
                 V_int(3), V_float(rng.uniform(-1e6, 1e6))], [V_float(1e39), V_fbits(0x7FF0000000000000)])
    if k == "Double":
        return ([V_float(0.0), V_float(-0.0), V_float(1.1), V_float(1.7976931348623157e308), V_float(-1.7976931348623157e308),
                 V_float(5e-324), V_fbits(NAN), V_fbits(NEG_NAN), V_fbits(NAN_PAYLOAD), V_fbits(SNAN), V_int(2 ** 53 + 1),
                 V_float(rng.uniform(-1e300, 1e300))], [V_fbits(0x7FF0000000000000)])
    if k == "Char":
        return [V_str(c) for c in ["a", "\x00", "\x7f", '"', "\\", "\n", "\x01"]], [V_str("é"), V_str("ab")]
    if k == "String":
        n = ts[1]
        good = ["", "a" * (n - 1), "b", ("\x01\x1f\n\t" * n)[:n - 1], ('"\\/' * n)[:n - 1], "\x7f", ("xy" * n)[:max(1, (n - 1) // 2)]]
        good += nul_strings(n)
        return [V_str(s) for s in good], [V_str("a" * n), V_str("é")]
    if k == "ByteArray":
        n = ts[1]
        return ([V_bytes(bytes(n)), V_bytes(b"\xff" * n), V_bytes(bytes(rng.randrange(256) for _ in range(n))),
                 V_list([V_int(rng.randrange(256)) for _ in range(n)])], [V_bytes(b"\x01" * (n + 1))])
    if k == "IntArray":
        lo, hi = INT_RANGE[ts[1]]
        n = ts[2]
        return ([V_list([V_int(lo)] * n), V_list([V_int(hi)] * n), V_list([V_int(rng.randint(lo, hi)) for _ in range(n)])],
                [V_list([V_int(hi + 1)] * n)])
    if k == "FloatArray":
        n = ts[2]
        g, _ = leaf_values([ts[1]], rng)
        nonnan = [x for x in g if not (x[0] == "float" and (x[1] >> 52) & 0x7FF == 0x7FF)]
        return ([V_list([rng.choice(nonnan)] + [rng.choice(g) for _ in range(n - 1)]),
                 V_list([rng.choice(nonnan) for _ in range(n)]),
                 V_list([V_fbits(NEG_NAN)] + [rng.choice(nonnan) for _ in range(n - 1)])], [V_list([V_float(1e39) if ts[1] == "Float" else V_fbits(0x7FF0000000000000)] * n)])
    raise ValueError(ts)


def nul_strings(n: int) -> List[str]:
    """validator-accepted strings (length <= n-1, ASCII) with a NUL at the first, an interior and the last position,
    maximum length with a NUL inside, other control characters and DEL around the NUL"""
    m = n - 1
    out = ["\x00"[:m]]
    if m >= 2:
        out += ["\x00" + "t" * (m - 1), "t" * (m - 1) + "\x00", "\x7f\x00"[:m]]
    if m >= 3:
        out += ["a" + "\x00" + "c" * (m - 2), ("ab\x00cd" + "e" * m)[:m], "\x01\x00\x1f"[:m], "a\x00\x00b"[:m],
                "\x7f" * (m - 2) + "\x00" + "\x7f"]
    return [x for x in out if x]


def mkset(leaf: dict, val) -> dict:
    return dict(path=leaf["path"], field=leaf["field"], key=None, val=val_json(val), _val=val, _leaf=leaf)


def gen_cases(L: Layouts, own: List[int], imported: List[int], hdr_ci: int, rng: random.Random, tier: str):
    cases = []
    leaves_of = {}

    def leaves(ci):
        if ci not in leaves_of:
            leaves_of[ci] = flatten(L, ci)
        return leaves_of[ci]

    def add(ci, sets, tag, hdr=None):
        cases.append(dict(cls=ci, sets=sets, _tag=tag, hdr=hdr))

    nhist = 25 if tier == "quick" else 80
    for ci in own + imported:
        lv = leaves(ci)
        is_data = L.specs[ci]["base"] == "data"
        if not lv:
            if is_data:
                add(ci, [], "signal")
            continue
        big = L.size(ci) > 4000
        add(ci, [], "zero")
        # every leaf at an extreme
        for which in range(2 if ci in imported else 4):
            sets = []
            for lf in lv if not big else rng.sample(lv, min(len(lv), 8)):
                g, _ = leaf_values(lf["ts"], rng)
                sets.append(mkset(lf, g[which % len(g)]))
            add(ci, sets, "extremes")
        if big:
            continue
        # histories with two or more assignments to the same field (strings: long then short)
        for _ in range(nhist if ci in own else 2):
            sets = []
            for _ in range(rng.randint(1, 10)):
                lf = rng.choice(lv)
                g, b = leaf_values(lf["ts"], rng)
                r = rng.random()
                if lf["ts"][0] == "String" and r < 0.5:
                    n = lf["ts"][1]
                    sets.append(mkset(lf, V_str(("pq" * n)[:n - 1])))
                    sets.append(mkset(lf, V_str(("r" * n)[:rng.randint(0, max(0, n - 2))])))
                elif r < 0.9:
                    sets.append(mkset(lf, rng.choice(g)))
                    if rng.random() < 0.4:
                        sets.append(mkset(lf, rng.choice(g)))
                else:
                    sets.append(mkset(lf, rng.choice(b)))
            add(ci, sets, "history")
    # strings with NULs over a zero image and over a maximum-length previous value: every String leaf of the own
    # classes (top level, nested struct, struct-array element)
    for ci in own:
        for lf in leaves(ci):
            if lf["ts"][0] == "String" and lf["ts"][1] >= 3:
                n = lf["ts"][1]
                for sv in nul_strings(n):
                    add(ci, [mkset(lf, V_str(sv))], "string-nul-on-zero")
                    add(ci, [mkset(lf, V_str("z" * (n - 1))), mkset(lf, V_str(sv))], "string-nul-on-nonzero")
    # targeted: stale string tail, signed / payload NaN, -0.0, one per own class that has such leaves
    for ci in own:
        lv = leaves(ci)
        for lf in lv:
            k = lf["ts"][0]
            if k == "String" and lf["ts"][1] >= 3:
                n = lf["ts"][1]
                add(ci, [mkset(lf, V_str("z" * (n - 1))), mkset(lf, V_str("y"))], "string-long-then-short")
                add(ci, [mkset(lf, V_str("z" * (n - 1))), mkset(lf, V_str(""))], "string-long-then-empty")
                add(ci, [mkset(lf, V_str("y")), mkset(lf, V_str("z" * (n - 1)))], "string-short-then-long")
                break
        for lf in lv:
            if lf["ts"][0] in FLOAT_KINDS:
                for b in (NEG_NAN, NAN_PAYLOAD, SNAN, NAN):
                    add(ci, [mkset(lf, V_fbits(b))], "nan-variant")
                add(ci, [mkset(lf, V_float(-0.0))], "neg-zero")
                break
        # a ctypes instance of the field's own type is accepted without validation
        for lf in lv:
            if lf["ts"][0] == "Float":
                add(ci, [mkset(lf, V_cinst("Float", [0, 0, 128, 127]))], "cinst-bypass")
                break
        for lf in lv:
            if lf["ts"][0] == "Double":
                add(ci, [mkset(lf, V_cinst("Double", [0, 0, 0, 0, 0, 0, 240, 255]))], "cinst-bypass")
                break
        for lf in lv:
            if lf["ts"][0] == "Char":
                add(ci, [mkset(lf, V_cinst("Char", [255]))], "cinst-bypass")
                break
    # header + data (Message.to_json / from_json, version check)
    hl = leaves(hdr_ci)
    datas = [ci for ci in own if L.specs[ci]["base"] == "data"] + \
            [ci for ci in imported if L.specs[ci]["base"] == "data" and L.size(ci) == 0][:8]
    for ci in datas:
        th = L.lay[ci]["type_hash"]
        tid = L.lay[ci]["type_id"]
        for ver, tag in ((0, "version-0"), (th, "version-hash"), (th + 1, "version-other"), (1, "version-one")):
            for minify in (False, True):
                lv = leaves(ci)
                sets = []
                for lf in lv:
                    g, _ = leaf_values(lf["ts"], rng)
                    nn = [x for x in g if not (x[0] == "float" and (x[1] >> 52) & 0x7FF == 0x7FF)]
                    sets.append(mkset(lf, rng.choice(nn)))
                hf = [("msg_type", V_int(tid)), ("msg_count", V_int(rng.randint(0, 2 ** 31 - 1))),
                      ("send_time", V_float(rng.uniform(0, 1e9))), ("recv_time", V_float(-0.0)),
                      ("src_host_id", V_int(-32768)), ("src_mod_id", V_int(32767)), ("dest_host_id", V_int(0)),
                      ("dest_mod_id", V_int(9)), ("num_data_bytes", V_int(L.size(ci))), ("remaining_bytes", V_int(0)),
                      ("is_dynamic", V_int(1)), ("reserved", V_int(ver))]
                add(ci, sets, tag, hdr=dict(fields=[[n, val_json(v)] for n, v in hf], registry=[ci], minify=minify,
                                            _fields=hf, _ver=ver))
        # the same message carried by the OTHER shipped header class (TimeCodeMessageHeader, non-zero utc fields):
        # copy must keep the header class and every header / data byte
        for rep in range(2):
            lv = leaves(ci)
            sets = []
            for lf in lv:
                g, _ = leaf_values(lf["ts"], rng)
                nn = [x for x in g if not (x[0] == "float" and (x[1] >> 52) & 0x7FF == 0x7FF)]
                sets.append(mkset(lf, rng.choice(nn)))
            hf = [("msg_type", V_int(tid)), ("msg_count", V_int(7)), ("send_time", V_float(12.5)),
                  ("src_mod_id", V_int(11)), ("num_data_bytes", V_int(L.size(ci))), ("reserved", V_int(0 if rep else th)),
                  ("utc_seconds", V_int(rng.randint(1, 2 ** 32 - 1))), ("utc_fraction", V_int(rng.randint(1, 2 ** 32 - 1)))]
            add(ci, sets, "timecode-header", hdr=dict(fields=[[n, val_json(v)] for n, v in hf], registry=[ci], minify=bool(rep),
                                                      timecode=True, _fields=hf, _ver=0 if rep else th, _timecode=True))
        # unknown message type, NaN time stamp in the header
        hf = [("msg_type", V_int(tid + 5)), ("reserved", V_int(0))]
        add(ci, [], "unknown-type", hdr=dict(fields=[[n, val_json(v)] for n, v in hf], registry=[ci], minify=False, _fields=hf, _ver=0))
        hf = [("msg_type", V_int(tid)), ("send_time", V_fbits(NEG_NAN)), ("reserved", V_int(0))]
        add(ci, [], "header-nan", hdr=dict(fields=[[n, val_json(v)] for n, v in hf], registry=[ci], minify=False, _fields=hf, _ver=0))
    return cases, leaves_of


# ---------------------------------------------------------------------------------------------
# spec oracle on the implementation's outputs

def classify_diff(orig: bytes, got: bytes, lv: List[dict], json: bool) -> str:
    """why do the bytes differ?  returns a stable key"""
    if len(orig) != len(got):
        return "length"
    diff = [i for i in range(len(orig)) if orig[i] != got[i]]
    reasons = set()
    for i in diff:
        lf = next((l for l in lv if l["off"] <= i < l["off"] + l["size"]), None)
        if lf is None:
            reasons.add("padding")
            continue
        k = lf["ts"][0]
        seg = orig[lf["off"]:lf["off"] + lf["size"]]
        if k == "String" and 0 in seg and i - lf["off"] > seg.index(0):
            reasons.add("string-stale-bytes-after-nul")
        elif json and k in ("Float", "Double", "FloatArray"):
            w = 4 if (k == "Float" or (k == "FloatArray" and lf["ts"][1] == "Float")) else 8
            j = (i - lf["off"]) // w
            e = seg[j * w:(j + 1) * w]
            u = int.from_bytes(e, "little")
            isnan = ((u >> 23) & 0xFF == 0xFF and u & 0x7FFFFF) if w == 4 else ((u >> 52) & 0x7FF == 0x7FF and u & ((1 << 52) - 1))
            canon = u == (0x7FC00000 if w == 4 else NAN)
            reasons.add("json-nan-sign-payload-lost" if (isnan and not canon) else f"{k}-value")
        else:
            reasons.add(f"{k}-value")
    return "+".join(sorted(reasons))


def type_name(L: Layouts, ci: int, mc: dict) -> str:
    return mc.get("data_cls")      # data class identity is checked by the bytes; kept for symmetry


def oracle(case: dict, res: dict, lv: List[dict], hlv: List[dict], L: Layouts) -> List[Tuple[str, str]]:
    out = []
    orig = bytes.fromhex(res["orig"])
    name = L.specs[case["cls"]]["name"]

    def unvalidated_content() -> bool:
        # an infinity in a float leaf or a non-ASCII byte in a char leaf: only a ctypes instance of the field's own
        # type (accepted without validation) or the float-array NaN defect of C09 can put it there
        for lf in lv:
            k = lf["ts"][0]
            seg = orig[lf["off"]:lf["off"] + lf["size"]]
            if k in ("Char", "String") and any(b > 127 for b in seg):
                return True
            if k in ("Float", "Double", "FloatArray"):
                w = 4 if (k == "Float" or (k == "FloatArray" and lf["ts"][1] == "Float")) else 8
                for j in range(len(seg) // w):
                    u = int.from_bytes(seg[j * w:(j + 1) * w], "little")
                    if (w == 4 and u & 0x7FFFFFFF == 0x7F800000) or (w == 8 and u & (2 ** 63 - 1) == 0x7FF0000000000000):
                        return True
        return False

    def rt(which, r, js):
        if r["code"] != 0:
            if which != "bytes" and unvalidated_content() and any(s["_val"][0] == "cinst" for s in case["sets"]):
                out.append(("ctypes-instance-bypasses-validation",
                            f"{name}: {which} round trip raised {r.get('exc')} on an image holding inf / non-ASCII stored through a ctypes instance"))
                return
            out.append((f"{which}-decode-error:{r.get('exc')}", f"{name}: {which} round trip raised {r.get('exc')}: {r.get('msg', '')[:100]}"))
            return
        got = bytes.fromhex(r["bytes"])
        if got != orig:
            why = classify_diff(orig, got, lv, js)
            key = why if why in ("string-stale-bytes-after-nul", "json-nan-sign-payload-lost",
                                 "json-nan-sign-payload-lost+string-stale-bytes-after-nul") else f"{which}-roundtrip:{why}"
            for k in key.split("+") if "roundtrip" not in key else [key]:
                out.append((k, f"{name}: {which} round trip is not byte-identical ({why}); orig={orig.hex()[:80]} got={got.hex()[:80]}"))

    rt("bytes", res["bytes_rt"], False)
    rt("dict", res["dict_rt"], False)
    rt("json", res["json_rt"], True)
    rt("json", res["json_min_rt"], True)
    cp = res["copy"]
    if cp.get("code", 1) != 0:
        out.append(("copy-raises", f"{name}: copy raised {cp.get('exc')}"))
    else:
        if bytes.fromhex(cp["bytes"]) != orig:
            out.append(("copy-differs", f"{name}: copy has different bytes"))
        if bytes.fromhex(cp["orig_after_copy_mutation"]) != orig or bytes.fromhex(cp["copy_after_orig_mutation"]) != orig:
            out.append(("copy-shares-storage", f"{name}: mutating the copy changed the original (or vice versa)"))
    hd = case.get("hdr")
    if hd is not None and "msg_rt" in res:
        m = res["msg_rt"]
        th = L.lay[case["cls"]]["type_hash"]
        ver = hd["_ver"]
        horig = bytes.fromhex(res["hdr_orig"])
        registered = any(n == "msg_type" and v[1] == L.lay[case["cls"]]["type_id"] for n, v in hd["_fields"])
        timecode = bool(hd.get("_timecode"))
        if timecode:
            # header + data JSON round trip with the timecode header class (pretty and minified)
            registered = False
            if m["code"] != 0 or m.get("hdr_cls") != res.get("hdr_cls") or bytes.fromhex(m.get("hdr", "")) != horig \
                    or bytes.fromhex(m.get("data", "")) != orig:
                out.append(("json-timecode-header-fields-lost",
                            f"{name}: Message.to_json -> Message.from_json of a message with a {res.get('hdr_cls')}: "
                            + (f"raised {m.get('exc')}: {m.get('msg', '')[:120]}" if m["code"] != 0 else
                               f"decoded a {m.get('hdr_cls')} header {m.get('hdr')} instead of {horig.hex()}")))
        if registered and ver != 0 and ver != th:
            if m["code"] != 11:
                out.append(("version-mismatch-not-refused", f"{name}: header version {ver} != hash {th} decoded with code {m['code']}"))
        elif registered:
            if m["code"] != 0:
                out.append((f"message-decode-error:{m.get('exc')}", f"{name}: Message.from_json raised {m.get('exc')}"))
            else:
                gh, gd = bytes.fromhex(m["hdr"]), bytes.fromhex(m["data"])
                if gh != horig:
                    why = classify_diff(horig, gh, hlv, True)
                    out.append((why if why == "json-nan-sign-payload-lost" else f"message-header-roundtrip:{why}",
                                f"{name}: header not byte-identical after Message JSON round trip ({why})"))
                if gd != orig:
                    why = classify_diff(orig, gd, lv, True)
                    for k in (why.split("+") if set(why.split("+")) <= {"string-stale-bytes-after-nul", "json-nan-sign-payload-lost"} else [f"message-data-roundtrip:{why}"]):
                        out.append((k, f"{name}: data not byte-identical after Message JSON round trip ({why})"))
        nd = res.get("msg_rt_nodata")
        if nd is not None and registered and ver != 0 and ver != th and nd["code"] != 11:
            out.append(("version-mismatch-not-refused",
                        f"{name}: JSON without a data member, header version {ver} != hash {th}, decoded with code {nd['code']}"))
        mc = res.get("msg_copy", {})
        if mc.get("code", 1) != 0:
            out.append(("message-copy-raises", f"{name}: Message.copy raised"))
        elif mc.get("hdr_cls") != res.get("hdr_cls") or bytes.fromhex(mc["hdr"]) != horig:
            out.append(("message-copy-header-differs",
                        f"{name}: Message.copy of a message with a {res.get('hdr_cls')} ({len(horig)} bytes) has a "
                        f"{mc.get('hdr_cls')} ({len(mc['hdr']) // 2} bytes): header bytes {horig.hex()} -> {mc['hdr']}"))
        elif bytes.fromhex(mc["data"]) != orig or mc.get("data_cls") != type_name(L, case["cls"], mc):
            out.append(("message-copy-data-differs", f"{name}: Message.copy has different data bytes / class"))
        elif mc["orig_after"] != horig.hex() + "|" + orig.hex():
            out.append(("message-copy-shares-storage", f"{name}: mutating the Message copy changed the source"))
    return out


# ---------------------------------------------------------------------------------------------
# Coq cases

C10_HEADER = HEADER.replace("Model.Values Model.Flag.", "Model.Values Model.Flag Model.Codec Gen.CodecGuards.") + """
Definition cexn_code (e : cexn) : Z :=
  match e with CJSONDecoding => 10 | CUnknownMessageType => 12 | CInvalidMessageDefinition => 11
  | CUnicodeDecode => 7 | CValue => 2 | CKeyError => 13 end.
Definition res_eq (r : cexn + list Z) (exp : Z * list Z) : bool :=
  match r with inl e => cexn_code e =? fst exp | inr m => (fst exp =? 0) && zl_eqb m (snd exp) end.
Definition apply_sets (sets : list (field * key * pyval)) (m : list Z) : list Z :=
  fold_left (fun m s => let '(f, k, v) := s in snd (set true f k m v)) sets m.
"""
C10_CHECK = C10_HEADER + """
Definition check_case (c : (list field * nat * list (field * key * pyval)) * (list Z * (Z * list Z) * (Z * list Z))) : bool :=
  let '((leaves, size, sets), (orig, dres, jres)) := c in
  zl_eqb (apply_sets sets (repeat 0 size)) orig &&
  res_eq (dict_roundtrip leaves size orig) dres && res_eq (json_roundtrip leaves size orig) jres &&
  res_eq (from_bytes size (to_bytes orig)) (0, orig).
"""
C10_MSG_CHECK = C10_HEADER + """
Definition msg_nodata (hc : hclass) (reg : list (Z * mclass)) (h : list Z) : cexn + (list Z * list Z) :=
  match to_dict (h_leaves hc) h with
  | inr hv => msg_from_json hc reg (map jrt hv) None
  | inl _ => inl CUnicodeDecode
  end.
Definition check_case (c : (hclass * Z * mclass * list Z * list Z) * (Z * list Z * list Z) * Z) : bool :=
  let '((hc, tid, mc, h, d), (code, eh, ed), code_nodata) := c in
  match msg_json_roundtrip hc [(tid, mc)] mc h d with
  | inl e => cexn_code e =? code
  | inr (h', d') => (code =? 0) && zl_eqb h' eh && zl_eqb d' ed
  end &&
  match msg_nodata hc [(tid, mc)] h with
  | inl e => cexn_code e =? code_nodata
  | inr _ => code_nodata =? 0
  end.
"""


def leaf_field_coq(L: Layouts, lf: dict) -> str:
    return f"(mkField {lf['off']} {L.ftype_coq(lf['ts'])})"


def leaves_coq(L: Layouts, lv: List[dict]) -> str:
    if not lv:
        return "(@nil field)"
    return "[" + ";".join(leaf_field_coq(L, lf) for lf in lv) + "]"


def hexl(h: str) -> str:
    return zl(bytes.fromhex(h))


def run(chk: Check):
    rng = random.Random(chk.seed)
    seen: Dict[str, int] = {}

    def _report(key, desc, replay):
        # one replay per failing class (key); every occurrence is counted in the evidence
        seen[key] = seen.get(key, 0) + 1
        if seen[key] == 1:
            chk.spec_failure(key=key, desc=desc, replay=replay)

    gen_ok = regen_or_report(chk)
    if gen_ok:
        proved = chk.prove(FAM, "Props.C10", THEOREMS, extra_targets=["Model/Codec.vo"])
        if proved and chk.tier == "thorough":
            ok, out = FAM.coqchk("Props.C10", timeout=2400)
            chk.cov["coqchk"] = out[-1200:]
            if not ok:
                chk.broken_obligation("coqchk rejected Val.Props.C10", out[-600:])
    else:
        chk.note("translator failed closed: model correspondence skipped, failing-input search still runs")

    specs, idx, comp = class_specs(rng, chk.tier)
    L = get_layouts(specs, comp, IMPORTS)
    if L.compile_error:
        chk.note("classes could not be built through the real definition compiler (" + L.compile_error[:160] +
                 "): built directly from the validator descriptors instead")
    own = [i for i in range(len(specs))]
    allimp = [i for i in range(len(specs), len(L.specs)) if not L.specs[i].get("skipped")
              and (L.specs[i]["fields"] or L.specs[i]["base"] == "data")]
    hdr_ci = next(i for i in allimp if L.specs[i]["name"] == "MessageHeader")
    imported = [i for i in allimp if i != hdr_ci]
    if chk.tier == "quick":
        core = [i for i in imported if L.specs[i]["name"] in (
            "MDF_CONNECT_V2", "MDF_CLIENT_INFO", "MDF_FAILED_MESSAGE", "MDF_DATA_LOGGER_STATUS", "MDF_MESSAGE_TRAFFIC",
            "MDF_LM_STATUS", "MDF_SAVE_MESSAGE_LOG", "DATA_SET", "MDF_TIMING_MESSAGE", "MDF_ACTIVE_CLIENTS",
            "MDF_VALIDATOR_A", "VALIDATOR_STRUCT", "MDF_ADD_DATA_SET", "MDF_EXIT", "MDF_KILL", "MDF_PAUSE_LOGGING",
            "MDF_DATA_LOGGER_START", "MDF_LM_EXIT")]
        rest = [i for i in imported if i not in core]
        rng.shuffle(rest)
        imported = core + rest[:25]
    cases, leaves_of = gen_cases(L, own, imported, hdr_ci, rng, chk.tier)
    base = dict(classes=specs, compiled=comp, imports=IMPORTS)
    wire = []
    for c in cases:
        w = dict(cls=c["cls"], sets=[{k: v for k, v in s.items() if not k.startswith("_")} for s in c["sets"]])
        if c["hdr"] is not None:
            w["hdr"] = {k: v for k, v in c["hdr"].items() if not k.startswith("_")}
        wire.append(w)
    results = run_worker_parallel(base, "codec", wire)

    hlv = leaves_of.get(hdr_ci) or flatten(L, hdr_ci)
    dist: Dict[str, int] = {}
    nontrivial = set()
    coq_cases, coq_idx = [], []
    msg_cases, msg_idx = [], []
    hc_coq = (f"(mkHdr {leaves_coq(L, hlv)} {L.size(hdr_ci)} "
              f"{leaf_field_coq(L, next(l for l in hlv if l['field'] == 'msg_type'))} "
              f"{leaf_field_coq(L, next(l for l in hlv if l['field'] == 'reserved'))})")
    for n, (c, r) in enumerate(zip(cases, results)):
        lv = leaves_of[c["cls"]]
        dist[c["_tag"]] = dist.get(c["_tag"], 0) + 1
        src = "imported" if c["cls"] >= len(specs) else ("compiled" if c["cls"] in comp else "direct")
        dist["class:" + src] = dist.get("class:" + src, 0) + 1
        if r["orig"] != "00" * (len(r["orig"]) // 2):
            nontrivial.add((c["cls"], r["orig"]))
        for key, desc in oracle(c, r, lv, hlv, L):
            _report(key, desc, dict(classes=specs, compiled=comp, imports=IMPORTS, case=wire[n],
                                                             observed={k: v for k, v in r.items() if k != "json_text"},
                                                             json=r.get("json_text", "")[:600]))
        if not gen_ok or L.size(c["cls"]) > COQ_MAX_SIZE:
            dist["oracle-only(large)"] = dist.get("oracle-only(large)", 0) + 1
            continue
        sets = ("[" + ";".join(f"({leaf_field_coq(L, s['_leaf'])}, KAttr, {L.val_coq(s['_val'])})" for s in c["sets"]) + "]"
                if c["sets"] else "(@nil (field * key * pyval))")
        dres = f"({r['dict_rt']['code']}, {hexl(r['dict_rt'].get('bytes', ''))})"
        jres = f"({r['json_rt']['code']}, {hexl(r['json_rt'].get('bytes', ''))})"
        coq_cases.append(f"(({leaves_coq(L, lv)}, {L.size(c['cls'])}%nat, {sets}), ({hexl(r['orig'])}, {dres}, {jres}))")
        coq_idx.append(n)
        if c["hdr"] is not None and "msg_rt" in r and not c["hdr"].get("_timecode"):
            m = r["msg_rt"]
            mc = f"(mkClass {leaves_coq(L, lv)} {L.size(c['cls'])} {L.lay[c['cls']]['type_hash']})"
            exp = f"({m['code']}, {hexl(m.get('hdr', ''))}, {hexl(m.get('data', ''))})"
            msg_cases.append(f"(({hc_coq}, {L.lay[c['cls']]['type_id']}, {mc}, {hexl(r['hdr_orig'])}, {hexl(r['orig'])}), {exp}, "
                             f"{r['msg_rt_nodata']['code']})")
            msg_idx.append(n)
    bad, log = eval_cases_robust(C10_CHECK, coq_cases, per_file=60) if gen_ok else ([], "")
    mbad, mlog = eval_cases_robust(C10_MSG_CHECK, msg_cases, per_file=40, tag="m") if gen_ok else ([], "")
    for b in bad[:4]:
        if b < 0:
            chk.broken_obligation("correspondence shard failed to evaluate", log[:1500])
        else:
            c, r = cases[coq_idx[b]], results[coq_idx[b]]
            chk.broken_obligation("correspondence Model/Codec.v vs codecs differs",
                                  f"class={L.specs[c['cls']]['name']} tag={c['_tag']} sets={json.dumps(wire[coq_idx[b]]['sets'])[:400]} "
                                  f"orig={r['orig'][:120]} dict={r['dict_rt']} json={r['json_rt']}")
    for b in mbad[:4]:
        if b < 0:
            chk.broken_obligation("correspondence shard failed to evaluate", mlog[:1500])
        else:
            c, r = cases[msg_idx[b]], results[msg_idx[b]]
            chk.broken_obligation("correspondence Model/Codec.v (Message.from_json) vs implementation differs",
                                  f"class={L.specs[c['cls']]['name']} tag={c['_tag']} msg_rt={r.get('msg_rt')}")
    nbad = len([b for b in bad if b >= 0]) + len([b for b in mbad if b >= 0])
    chk.cov["evaluations"] = len(cases) + len(msg_cases)
    chk.cov["traces_validated_against_impl"] = (len(coq_cases) + len(msg_cases) - nbad) if gen_ok else 0
    chk.cov["distinct_nontrivial"] = len(nontrivial)
    chk.cov["rule"] = ("one case = a class (own: all leaf kinds, nested structs, struct arrays, random definitions, half of "
                       "them through the real compiler; imported: shipped core and test definitions, MessageHeader) + a "
                       "history of validated assignments from the zero message (>= 2 assignments to one field in many) -> "
                       "bytes/dict/json/json-minified round trips, copy + mutation of copy and original, Message.to_json/"
                       "from_json with version 0 / hash / other; compared with Model/Codec.v by vm_compute (classes <= "
                       f"{COQ_MAX_SIZE} bytes; larger ones: spec oracle only); non-trivial = distinct non-zero image")
    chk.cov["input_distribution"] = dist
    chk.cov["spec_oracle_failures_by_key"] = seen
    chk.cov["classes"] = dict(own=len(own), imported=len(imported), compiled=len(comp))
    chk.cov["exhaustive"] = False
    step = max(1, len(cases) // 5)
    chk.add_samples([dict(cls=L.specs[c["cls"]]["name"], tag=c["_tag"], sets=json.dumps(w["sets"])[:300], orig=r["orig"][:80],
                          dict_rt=r["dict_rt"]["code"], json_rt=r["json_rt"]["code"])
                     for c, w, r in list(zip(cases, wire, results))[::step]])
    chk.assumptions += [
        "json.dumps/json.loads are modelled on the value tree (identity on ints, ASCII strings, lists, non-NaN floats; NaN -> "
        "canonical quiet NaN; bytes -> list of ints): validated by the correspondence, not verified",
        "classes are given to the model as their flattened leaf lists (offsets measured on the real ctypes classes)",
        "the dictionary is keyed by position in the model (field names are distinct Python attribute names)",
        "ctypes / CPython semantics as for C09",
    ]


def replay(path: str) -> int:
    d = json.load(open(path))
    r = d["replay"]
    if "case" in r:
        res = run_worker(dict(classes=r["classes"], compiled=r["compiled"], imports=r["imports"], codec=[r["case"]]))["codec"][0]
        res.pop("json_text", None)
        print(json.dumps(dict(case=r["case"], observed_now=res, observed_then=r["observed"]), indent=1)[:6000])
    else:
        print(json.dumps(d, indent=1)[:4000])
    return 0
