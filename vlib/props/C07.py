"""C07 - A departed client leaves no trace."""
from ..framework import Check
from .. import mgr_check

THEOREMS = ["C07_gone", "C07_lists_only_live", "C07_departed_not_recipient", "C07_rest_untouched", "C07_ex"]
CHECKERS = ["C07", "C01", "C03"]


def run(chk: Check):
    mgr_check.run_property(
        chk, "C07", "Props.C07", THEOREMS,
        model_profiles={"faults": 260, "ids": 80},
        oracle_flavors={"depart": 220, "drops": 220},
        checkers=CHECKERS,
        assumptions=[
            "'exactly one CLIENT_CLOSED' is decided by the spec oracle on the implementation (monitor stream) and by the "
            "model correspondence; the Coq theorems cover unregistration, non-recipiency and the frame property",
        ])


def replay(path: str) -> int:
    return mgr_check.replay("C07", path, CHECKERS)
