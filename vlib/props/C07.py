"""C07 - A departed client leaves no trace."""
import random
from ..framework import Check
from .. import mgr_check, mgr_common as C

THEOREMS = ["C07_gone", "C07_lists_only_live", "C07_departed_not_recipient", "C07_rest_untouched", "C07_ex", 'C07_departure_exact', 'C07_closed_state_clean', 'C07_second_removal_noop', 'C07_id_and_name_free', 'C07_departed_not_in_use', 'C07_inflight_delivery_unaffected', 'C07_inflight_delivery_unconditional', 'C07_closed_at_most_once', 'C07_closed_reaches_healthy', 'C07_is_cc_meaning', 'C07_closed_once_ex', 'C07_loggers_only_live', 'C07_departed_in_no_table', 'C07_tables_ex']
CHECKERS = ["C07", "C01", "C03"]


def directed(rng: random.Random, tier: str):
    """a departure discovered on the write side while a manager-originated message (CLIENT_CLOSED of another
    client leaving in the same round) is being delivered, with a recipient still to be served"""
    out = []
    for lvl in (60, 40, 10):
        for first in ("eof", "disconnect", "reset"):
            hs = C.History(loglevel=lvl, tag="nested-departure")
            for _ in range(4):
                hs.round([], [], 0, accept=True)
            hs.round([(1, hs.connect_v2(logger=1, mod_id=0))], [1, 2, 3, 4], 0)
            hs.round([(1, hs.sub("sub", C.ALL))], [1, 2, 3, 4], 0)
            hs.round([(2, hs.connect_v1(src_mod=20)), (3, hs.connect_v1(src_mod=21)), (4, hs.connect_v1(src_mod=22))], [1, 2, 3, 4], 0)
            hs.round([(3, hs.sub("sub", C.MT["CLIENT_CLOSED"])), (4, hs.sub("sub", C.MT["CLIENT_CLOSED"]))], [1, 2, 3, 4], 0)
            hs.fault(3, 0)
            f = dict(eof=hs.eof, disconnect=hs.disconnect, reset=hs.reset)[first]()
            hs.round([(2, f)], [1, 2, 3, 4], 1)
            hs.round([(4, hs.publish(100, b"after"))], [1, 4], 2)
            out.append(hs)
    # a subscriber that is removed (nested, while the CLIENT_CLOSED of an earlier recipient of the SAME message is being
    # delivered to it) and is still ahead in the recipient list of that message: it must be skipped, not written to again
    for lvl in (60, 40):
        for both_types in (True, False):
            hs = C.History(loglevel=lvl, tag="removed-during-own-delivery")
            for _ in range(4):
                hs.round([], [], 0, accept=True)
            hs.round([(1, hs.connect_v2(logger=1, mod_id=0))], [1, 2, 3, 4], 0)
            hs.round([(1, hs.sub("sub", C.ALL))], [1, 2, 3, 4], 0)
            hs.round([(2, hs.connect_v1(src_mod=20)), (3, hs.connect_v1(src_mod=21)), (4, hs.connect_v1(src_mod=22))], [1, 2, 3, 4], 0)
            hs.round([(2, hs.sub("sub", 100))], [1, 2, 3, 4], 0)
            if both_types:
                hs.round([(3, hs.sub("sub", 100))], [1, 2, 3, 4], 0)
                hs.round([(3, hs.sub("sub", C.MT["CLIENT_CLOSED"]))], [1, 2, 3, 4], 0)
            else:
                hs.round([(3, hs.sub("sub", C.ALL))], [1, 2, 3, 4], 0)
            hs.fault(2, 0)
            hs.fault(3, 0)
            hs.round([(4, hs.publish(100, b"x"))], [1, 2, 3, 4], 1)
            hs.round([(4, hs.publish(100, b"after"))], [1, 4], 2)
            out.append(hs)
    # death discovered on the write side of the ACKNOWLEDGE of the victim's own SUBSCRIBE / RESUME (after each protocol
    # step: fresh, subscribed to individual types, paused): whatever the request registered must be gone with it
    for lvl in (60, 10):
        for step in ("sub", "sub-all-after-one", "resume-after-pause", "unsub", "pause"):
            for v2 in (True, False):
                hs = C.History(loglevel=lvl, tag="dies-on-own-ack")
                for _ in range(4):
                    hs.round([], [], 0, accept=True)
                w = [1, 2, 3, 4]
                hs.round([(1, hs.connect_v2(logger=1, mod_id=0))], w, 0)
                hs.round([(1, hs.sub("sub", C.ALL))], w, 0)
                hs.round([(2, hs.connect_v2(mod_id=42, name=b"victim") if v2 else hs.connect_v1(src_mod=42)),
                          (3, hs.connect_v1(src_mod=21)), (4, hs.connect_v1(src_mod=22))], w, 0)
                hs.round([(3, hs.sub("sub", 100))], w, 0)
                if step == "sub-all-after-one":
                    hs.round([(2, hs.sub("sub", 101, src_mod=42))], w, 0)
                if step in ("resume-after-pause", "unsub", "pause"):
                    hs.round([(2, hs.sub("sub", 100, src_mod=42))], w, 0)
                if step == "resume-after-pause":
                    hs.round([(2, hs.sub("pause", 100, src_mod=42))], w, 0)
                hs.fault(2, 0)
                req = dict([("sub", ("sub", 100)), ("sub-all-after-one", ("sub", C.ALL)), ("resume-after-pause", ("resume", 100)),
                            ("unsub", ("unsub", 100)), ("pause", ("pause", 100))])[step]
                hs.round([(2, hs.sub(req[0], req[1], src_mod=42))], w, 1)
                hs.round([(4, hs.publish(100, b"after"))], [1, 3, 4], 2)
                out.append(hs)
    # death in the middle of its own connection request: the client listens to everything before it connects, the
    # manager logs while it examines the request (debug level), the forwarded log line is the write that fails - the
    # request must not register the departed client anywhere (it asked to be a logger)
    for lvl in (10, 20):
        for v2 in (True, False):
            for named in (True, False):
                hs = C.History(loglevel=lvl, tag="dies-while-connecting")
                hs.round([], [], 0, accept=True)
                hs.round([], [], 0, accept=True)
                hs.round([(1, hs.connect_v1(src_mod=10))], [1, 2], 0)
                hs.round([(2, hs.sub("sub", C.ALL))], [1, 2], 0)
                hs.fault(2, 0)
                hs.round([(2, hs.connect_v2(logger=1, mod_id=20, name=b"nm" if named else b"") if v2
                           else hs.connect_v1(logger=1, src_mod=20))], [1, 2], 1)
                hs.round([(1, hs.publish(100, b"x", src_mod=10))], [1], 2)
                out.append(hs)
    return out


def run(chk: Check):
    mgr_check.run_property(
        chk, "C07", "Props.C07", THEOREMS,
        model_profiles={"faults": 260, "ids": 80, "nested": 120},
        oracle_flavors={"depart": 220, "drops": 220},
        checkers=CHECKERS,
        extra_histories=directed,
        assumptions=[
            "'exactly one CLIENT_CLOSED' is decided by the spec oracle on the implementation (monitor stream) and by the "
            "model correspondence; the Coq theorems cover unregistration, non-recipiency and the frame property",
        ])


def replay(path: str) -> int:
    return mgr_check.replay("C07", path, CHECKERS)
