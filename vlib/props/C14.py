"""C14 - undeliverable messages are reported."""
from ..framework import Check
from .. import mgr_check

THEOREMS = ['C14_unwritable_reported', 'C14_logger_waited_for', 'C14_write_failure_reported', 'C14_notice_content', 'C14_no_cascade', 'C14_guarded_types', 'C14_others_still_served', 'C14_ex']
CHECKERS = ['C14', 'C03']


def run(chk: Check):
    mgr_check.run_property(
        chk, "C14", "Props.C14", THEOREMS,
        model_profiles={'faults': 260, 'routing': 100},
        oracle_flavors={'drops': 320, 'routing': 120},
        checkers=CHECKERS,
        assumptions=['a recipient that already died while the notice / CLIENT_CLOSED caused by another undeliverable recipient of the same message was delivered to it gets its notice for that nested message (it is no longer a subscriber when its turn comes): tolerated by the oracle, see DESIGN.md C14'])


def replay(path: str) -> int:
    return mgr_check.replay("C14", path, CHECKERS)
