"""C14 - undeliverable messages are reported."""
import random
from ..framework import Check
from .. import mgr_check, mgr_common as C

THEOREMS = ['C14_unwritable_reported', 'C14_logger_waited_for', 'C14_write_failure_reported', 'C14_notice_content', 'C14_no_cascade', 'C14_guarded_types', 'C14_others_still_served', 'C14_ex', 'C14_notice_delivered', 'C14_failing_send', 'C14_remaining_spec', 'C14_failing_send_ex_hypotheses', 'C14_failing_send_ex_outcome', 'C14_mixed_delivery', 'C14_kinds', 'C14_mixed_delivery_ex_hypotheses', 'C14_mixed_delivery_ex_outcome', 'C14_notice_reaches_blocked', 'C14_notice_reaches_failing', 'C14_forward_notice_blocked', 'C14_no_notice_about_notices', 'C14_notices_only_about_reportable', 'C14_notice_once_meaning', 'C14_notice_served_ex']
CHECKERS = ['C14', 'C03']


def directed(rng: random.Random, tier: str):
    """undeliverable FAILED_MESSAGE / RTMA_LOG* messages (published by a client, so at every type id of the family)
    must not produce a notice; every neighbouring type id must"""
    out = []
    for t in [8, 40, 41, 42, 43, 44, 45, 7, 9, 39, 46]:
        for how in ("unwritable", "fault"):
            hs = C.History(loglevel=60, tag="no-cascade")
            for _ in range(3):
                hs.round([], [], 0, accept=True)
            hs.round([(1, hs.connect_v2(logger=1, mod_id=0))], [1, 2, 3], 0)
            hs.round([(1, hs.sub("sub", C.ALL))], [1, 2, 3], 0)
            hs.round([(2, hs.connect_v1(src_mod=20)), (3, hs.connect_v1(src_mod=21))], [1, 2, 3], 0)
            hs.round([(2, hs.sub("sub", t))], [1, 2, 3], 0)
            if how == "fault":
                hs.fault(2, 0)
                hs.round([(3, hs.publish(t, b"q" * 8, src_mod=21))], [1, 2, 3], 1)
            else:
                hs.round([(3, hs.publish(t, b"q" * 8, src_mod=21))], [1, 3], 1)
            out.append(hs)
    return out


def run(chk: Check):
    mgr_check.run_property(
        chk, "C14", "Props.C14", THEOREMS,
        model_profiles={'faults': 260, 'routing': 100},
        oracle_flavors={'drops': 320, 'routing': 120},
        checkers=CHECKERS,
        extra_histories=directed,
        assumptions=['a recipient that already died while the notice / CLIENT_CLOSED caused by another undeliverable recipient of the same message was delivered to it gets its notice for that nested message (it is no longer a subscriber when its turn comes): tolerated by the oracle, see DESIGN.md C14'])


def replay(path: str) -> int:
    return mgr_check.replay("C14", path, CHECKERS)
