"""C14 - undeliverable messages are reported."""
import random
from ..framework import Check
from .. import mgr_check, mgr_common as C

THEOREMS = ['C14_unwritable_reported', 'C14_logger_waited_for', 'C14_write_failure_reported', 'C14_notice_content', 'C14_no_cascade', 'C14_guarded_types', 'C14_others_still_served', 'C14_ex', 'C14_notice_delivered', 'C14_failing_send', 'C14_remaining_spec', 'C14_failing_send_ex_hypotheses', 'C14_failing_send_ex_outcome', 'C14_mixed_delivery', 'C14_kinds', 'C14_mixed_delivery_ex_hypotheses', 'C14_mixed_delivery_ex_outcome', 'C14_notice_reaches_blocked', 'C14_notice_reaches_failing', 'C14_forward_notice_blocked', 'C14_no_notice_about_notices', 'C14_notices_only_about_reportable', 'C14_notice_once_meaning', 'C14_notice_served_ex']
CHECKERS = ['C14', 'C03']


def directed(rng: random.Random, tier: str):
    """undeliverable FAILED_MESSAGE / RTMA_LOG* messages (published by a client, so at every type id of the family)
    must not produce a notice; every neighbouring type id must"""
    out = []
    for t in [8, 40, 41, 42, 43, 44, 45, 7, 9, 39, 46]:
        for how in ("unwritable", "fault"):
            hs = C.History(loglevel=60, tag="no-cascade")
            for _ in range(3):
                hs.round([], [], 0, accept=True)
            hs.round([(1, hs.connect_v2(logger=1, mod_id=0))], [1, 2, 3], 0)
            hs.round([(1, hs.sub("sub", C.ALL))], [1, 2, 3], 0)
            hs.round([(2, hs.connect_v1(src_mod=20)), (3, hs.connect_v1(src_mod=21))], [1, 2, 3], 0)
            hs.round([(2, hs.sub("sub", t))], [1, 2, 3], 0)
            if how == "fault":
                hs.fault(2, 0)
                hs.round([(3, hs.publish(t, b"q" * 8, src_mod=21))], [1, 2, 3], 1)
            else:
                hs.round([(3, hs.publish(t, b"q" * 8, src_mod=21))], [1, 3], 1)
            out.append(hs)
    # notices nested inside the delivery of a notice: the subscriber of type 100 cannot be served; among the
    # FAILED_MESSAGE subscribers the FIRST one visited fails on the write (so it is removed and CLIENT_CLOSED is
    # published while the first notice is still being handed out), a subscriber of CLIENT_CLOSED cannot be served
    # either (a second notice is built inside the first one's delivery), and a later FAILED_MESSAGE subscriber - the
    # monitor - must still receive the ORIGINAL notice, intact, and the nested one
    for first_how in ("unwritable", "fault"):
        for cc_how in ("unwritable", "fault"):
            for lvl in (60, 40):
                hs = C.History(loglevel=lvl, tag="nested-notice")
                for _ in range(5):
                    hs.round([], [], 0, accept=True)
                w = [1, 2, 3, 4, 5]
                # conn 1 = monitor (logger, subscribed to ALL): subscribers of a specific type are visited before the
                # subscribers of all types, so the failing FAILED_MESSAGE subscriber (conn 3) comes before the monitor
                hs.round([(1, hs.connect_v2(logger=1, mod_id=25))], w, 0)
                hs.round([(1, hs.sub("sub", C.ALL))], w, 0)
                hs.round([(2, hs.connect_v1(src_mod=20)), (3, hs.connect_v1(src_mod=21)), (4, hs.connect_v1(src_mod=22)),
                          (5, hs.connect_v1(src_mod=23))], w, 0)
                hs.round([(2, hs.sub("sub", 100))], w, 0)                          # cannot be served below
                hs.round([(3, hs.sub("sub", C.MT["FAILED_MESSAGE"]))], w, 0)       # first FAILED subscriber: write fails
                hs.round([(4, hs.sub("sub", C.MT["CLIENT_CLOSED"]))], w, 0)        # cannot be served below
                hs.fault(3, 0)
                wr = [1, 3, 5]
                if first_how == "fault":
                    hs.fault(2, 0); wr.append(2)
                if cc_how == "fault":
                    hs.fault(4, 0); wr.append(4)
                hs.round([(5, hs.publish(100, b"payload!", src_mod=23))], sorted(wr), 1)
                hs.round([(5, hs.publish(101, b"after", src_mod=23))], [1, 5], 2)
                out.append(hs)
    # nobody is a logger and nobody subscribed to FAILED_MESSAGE by its id: the only listener is an ordinary module
    # subscribed to ALL message types (kept writable by the history) - it is "subscribed to FAILED_MESSAGE" all the same
    for how in ("unwritable", "fault"):
        for extra_failed_sub in (False, True):
            for lvl in (60, 40):
                hs = C.History(loglevel=lvl, tag="wildcard-listener")
                hs.plain_monitor = True
                for _ in range(4):
                    hs.round([], [], 0, accept=True)
                w = [1, 2, 3, 4]
                hs.round([(1, hs.connect_v2(logger=0, mod_id=12))], w, 0)
                hs.round([(1, hs.sub("sub", C.ALL))], w, 0)
                hs.round([(2, hs.connect_v1(src_mod=11)), (3, hs.connect_v1(src_mod=13)), (4, hs.connect_v1(src_mod=14))], w, 0)
                hs.round([(2, hs.sub("sub", 5000))], w, 0)
                if extra_failed_sub:
                    hs.round([(4, hs.sub("sub", C.MT["FAILED_MESSAGE"]))], w, 0)
                if how == "fault":
                    hs.fault(2, 0)
                    hs.round([(3, hs.publish(5000, b"payload!", src_mod=13))], w, 1)
                else:
                    hs.round([(3, hs.publish(5000, b"payload!", src_mod=13))], [1, 3, 4], 1)
                hs.round([(3, hs.publish(5001, b"after", src_mod=13))], [1, 3, 4], 2)
                out.append(hs)
    # a logger module outside the writable set (it subscribed to individual types / to ALL; alone or next to an ordinary
    # subscriber that is outside too): it is waited for - it gets the message and no notice names it
    for logger_sub in (5000, C.ALL):
        for other_unwritable in (False, True):
            for lvl in (60, 40):
                hs = C.History(loglevel=lvl, tag="logger-waited-for")
                for _ in range(4):
                    hs.round([], [], 0, accept=True)
                w = [1, 2, 3, 4]
                hs.round([(1, hs.connect_v2(logger=1, mod_id=30))], w, 0)
                hs.round([(1, hs.sub("sub", C.ALL))], w, 0)
                hs.round([(2, hs.connect_v2(logger=1, mod_id=77)), (3, hs.connect_v1(src_mod=13)), (4, hs.connect_v1(src_mod=14))], w, 0)
                hs.round([(2, hs.sub("sub", logger_sub, src_mod=77))], w, 0)
                hs.round([(4, hs.sub("sub", 5000, src_mod=14))], w, 0)
                for k in range(3):
                    hs.round([(3, hs.publish(5000, bytes([k]) * 8, src_mod=13))], [1, 3] if other_unwritable else [1, 3, 4], 1 + k)
                hs.round([(3, hs.publish(5000, b"after", src_mod=13))], w, 9)
                out.append(hs)
    return out


def run(chk: Check):
    mgr_check.run_property(
        chk, "C14", "Props.C14", THEOREMS,
        model_profiles={'faults': 260, 'routing': 100, 'nested': 160},
        oracle_flavors={'drops': 320, 'routing': 120},
        checkers=CHECKERS,
        extra_histories=directed,
        assumptions=['a recipient that already died while the notice / CLIENT_CLOSED caused by another undeliverable recipient of the same message was delivered to it gets its notice for that nested message (it is no longer a subscriber when its turn comes): tolerated by the oracle, see DESIGN.md C14'])


def replay(path: str) -> int:
    return mgr_check.replay("C14", path, CHECKERS)
