"""C05 - order, whole frames, sequence numbers."""
from ..framework import Check
from .. import mgr_check

THEOREMS = ['C05_stamp', 'C05_sendall_appends', 'C05_failed_notice_sized', 'C05_ack_is_whole_frame', 'C05_forward_sized', 'C05_ex', 'C05_stream_frames', 'C05_append_only', 'C05_per_connection_order', 'C05_service_appends', 'C05_sender_order', 'C05_same_relative_order', 'C05_in_order_meaning', 'C05_order_served_ex']
CHECKERS = ['C05', 'C03']


def directed(rng, tier):
    """a send fails in the MIDDLE of a manager-originated broadcast (CLIENT_INFO, the periodic statistics, a failure
    notice, an acknowledgement copy) while recipients are still to be served: the notices published from inside that
    delivery (CLIENT_CLOSED, the error log) must not disturb the frames the later recipients get"""
    from .. import mgr_common as C
    out = []
    triggers = ["ready", "setname", "timing", "traffic", "active", "drop", "ackcopy"]
    for trig in triggers:
        for lvl in (60, 40, 20):
            hs = C.History(loglevel=lvl, timing=True, tag="broadcast-interrupted")
            for _ in range(4):
                hs.round([], [], 0, accept=True)
            w = [1, 2, 3, 4]
            hs.round([(1, hs.connect_v2(logger=1, mod_id=30))], w, 0)
            hs.round([(1, hs.sub("sub", C.ALL))], w, 0)
            hs.round([(2, hs.connect_v2(logger=1 if trig == "ackcopy" else 0, mod_id=31)),
                      (3, hs.connect_v1(src_mod=32)), (4, hs.connect_v1(src_mod=33))], w, 0)
            t = dict(ready="CLIENT_INFO", setname="CLIENT_INFO", timing="TIMING_MESSAGE", traffic="MESSAGE_TRAFFIC",
                     active="ACTIVE_CLIENTS", drop="FAILED_MESSAGE", ackcopy=None)[trig]
            if t:
                hs.round([(2, hs.sub("sub", C.MT[t]))], w, 0)       # visited before the monitor (type-specific list first)
            if trig == "drop":
                hs.round([(4, hs.sub("sub", 100))], w, 0)
            hs.fault(2, 0)
            if trig == "ready":
                hs.round([(3, hs.ready(4242))], w, 1)
            elif trig == "setname":
                hs.round([(3, hs.setname(b"renamed"))], w, 1)
            elif trig == "drop":
                hs.round([(3, hs.publish(100, b"zz", src_mod=32))], [1, 2, 3], 1)      # conn 4 not writable -> notice
            elif trig == "ackcopy":
                hs.round([(3, hs.sub("sub", 101))], w, 1)                               # ack copied to loggers 1 and 2
            else:
                hs.round([(3, hs.publish(101, b"x", src_mod=32))], w, 1)
                hs.round([], w, 30)                                                      # periodic senders fire
            hs.round([(3, hs.publish(102, b"after", src_mod=32))], [1, 3, 4], 31)
            out.append(hs)
    # a subscriber whose send buffer has little room left (it reads, but slowly): a blocking send waits for it - the
    # documented design, so nothing changes for the code as it is; an implementation that sends without waiting must
    # not leave part of a frame on a connection that stays open
    for room in (0, 10, 48, 51, 48 + 64, 48 + 64 + 20, 400):
        for lvl in (60, 40):
            hs = C.History(loglevel=lvl, tag="slow-reader")
            for _ in range(4):
                hs.round([], [], 0, accept=True)
            w = [1, 2, 3, 4]
            hs.round([(1, hs.connect_v2(logger=1, mod_id=30))], w, 0)
            hs.round([(1, hs.sub("sub", C.ALL))], w, 0)
            hs.round([(2, hs.connect_v1(src_mod=31)), (3, hs.connect_v1(src_mod=32)), (4, hs.connect_v1(src_mod=33))], w, 0)
            hs.round([(2, hs.sub("sub", 100))], w, 0)
            hs.round([(4, hs.sub("sub", 100))], w, 0)
            hs.cap(2, room)
            for k in range(4):
                hs.round([(3, hs.publish(100, bytes([65 + k]) * 64, src_mod=32))], w, 1 + k)
            hs.round([(3, hs.publish(100, b"after", src_mod=32))], w, 9)
            out.append(hs)
    # payloads around and far beyond 64 KiB (the manager takes up to 1 MiB), mixed with empty and small ones: each
    # forwarded frame carries exactly the bytes it declares
    for sizes in ([16, 0, 2000, 65535, 65536, 65537, 0, 8], [70000, 0, 8, 2 ** 20, 4, 0, 300000, 0, 12]):
        hs = C.History(loglevel=60, tag="large-payloads")
        for _ in range(3):
            hs.round([], [], 0, accept=True)
        w = [1, 2, 3]
        hs.round([(1, hs.connect_v2(logger=1, mod_id=30))], w, 0)
        hs.round([(1, hs.sub("sub", C.ALL))], w, 0)
        hs.round([(2, hs.connect_v1(src_mod=31)), (3, hs.connect_v1(src_mod=32))], w, 0)
        hs.round([(2, hs.sub("sub", 100))], w, 0)
        for k, n in enumerate(sizes):
            hs.round([(3, hs.publish(100, bytes((7 * k + j) % 251 for j in range(n)), src_mod=32))], w, 1 + k)
        out.append(hs)
    # the application stops the manager from ANOTHER thread (MessageManager.close()) while the manager thread is in the
    # middle of a frame - between the header and the payload, or before the header: close() only asks the loop to end;
    # whatever it does must not put bytes of its own into the frame being written (implementation only: the model has
    # one thread)
    for lvl in (20, 10, 60):
        for at in (1, 2, 3, 4):
            hs = C.History(loglevel=lvl, tag="closed-from-another-thread")
            hs.impl_only = True
            for _ in range(3):
                hs.round([], [], 0, accept=True)
            w = [1, 2, 3]
            hs.round([(1, hs.connect_v2(logger=1, mod_id=30))], w, 0)
            hs.round([(1, hs.sub("sub", C.ALL))], w, 0)
            hs.round([(2, hs.connect_v1(src_mod=31)), (3, hs.connect_v1(src_mod=32))], w, 0)
            hs.round([(2, hs.sub("sub", 100))], w, 0)
            hs.round([(2, hs.sub("sub", C.MT["RTMA_LOG_INFO"]))], w, 0)
            hs.close_at(2, at)
            hs.round([(3, hs.publish(100, b"A" * 300, src_mod=32))], w, 1)
            hs.round([(3, hs.publish(100, b"B" * 300, src_mod=32))], w, 2)
            out.append(hs)
    return out


def run(chk: Check):
    mgr_check.run_property(
        chk, "C05", "Props.C05", THEOREMS,
        model_profiles={'routing': 200, 'faults': 160, 'periodic': 80, 'nested': 100},
        oracle_flavors={'routing': 160, 'drops': 160, 'stats': 60},
        checkers=CHECKERS,
        extra_histories=directed,
        assumptions=['TCP preserves order per connection; a failing sendall writes nothing (all-or-nothing per call in the harness)'])


def replay(path: str) -> int:
    return mgr_check.replay("C05", path, CHECKERS)
