"""C05 - order, whole frames, sequence numbers."""
from ..framework import Check
from .. import mgr_check

THEOREMS = ['C05_stamp', 'C05_sendall_appends', 'C05_failed_notice_sized', 'C05_ack_is_whole_frame', 'C05_forward_sized', 'C05_ex', 'C05_stream_frames', 'C05_append_only', 'C05_per_connection_order', 'C05_service_appends']
CHECKERS = ['C05', 'C03']


def run(chk: Check):
    mgr_check.run_property(
        chk, "C05", "Props.C05", THEOREMS,
        model_profiles={'routing': 200, 'faults': 160, 'periodic': 80, 'nested': 100},
        oracle_flavors={'routing': 160, 'drops': 160, 'stats': 60},
        checkers=CHECKERS,
        assumptions=['TCP preserves order per connection; a failing sendall writes nothing (all-or-nothing per call in the harness)'])


def replay(path: str) -> int:
    return mgr_check.replay("C05", path, CHECKERS)
