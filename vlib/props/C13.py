"""C13 - the version hash identifies the definition text, everywhere the same."""
from __future__ import annotations

import ast
import hashlib
import json
import keyword
import random
import re
import subprocess
from typing import Dict, List, Optional, Tuple

from ..framework import Check, PY, VERIF, impl_env, SRC
from ..defs_common import FAM, run_impl, native_names
from ..defs_reg_common import regen_cone

THEOREMS = [
    "C13_depends_only", "C13_raw_shapes", "C13_wf_excludes_reserved_field_names", "C13_injective",
    "C13_every_edit_changes_text", "C13_reordering_changes_text", "C13_signal_message_struct_differ",
    "C13_hex_case_all_nibbles", "C13_same_everywhere", "C13_sha256_vectors", "C13_ex_wf", "C13_ex_struct_reuse",
    "C13_ex_former_lookalike",
]

HEADER = """From Coq Require Import ZArith NArith List Bool String Ascii.
From Defs Require Import Lib.Sha256 Model.HashText.
Import ListNotations. Open Scope string_scope. Open Scope list_scope. Open Scope Z_scope.
Fixpoint zl_eqb (a b : list Z) : bool :=
  match a, b with [], [] => true | x :: r, y :: s => (x =? y) && zl_eqb r s | _, _ => false end.
Definition B (l : list Z) : string := string_of_list_ascii (map (fun z => ascii_of_nat (Z.to_nat z)) l).
Definition opt_eqb (got : string) (exp : list Z) : bool :=
  match exp with [] => true | _ => zl_eqb (enc_string got) exp end.
(* case: definition, then expected raw, hash (hex), and the four literals (empty list = not emitted) *)
Definition check_case (c : defn * list (list Z)) : bool :=
  let '(d, exp) := c in
  let h := hash_hex d in
  match exp with
  | [r; hx; py; cl; js; ml] =>
      zl_eqb (enc_string (raw d)) r && zl_eqb (enc_string h) hx && opt_eqb (py_literal h) py
      && opt_eqb (c_literal h) cl && opt_eqb (js_literal h) js && opt_eqb (matlab_literal h) ml
      && match lit0x_value (py_literal h), lit0x_value (c_literal h), hex_value (js_literal h) with
         | Some a, Some b, Some c => (a =? hash32 d)%N && (b =? hash32 d)%N && (c =? hash32 d)%N
         | _, _, _ => false
         end
  | _ => false
  end.
"""

RESERVED_FIELDS = {"type_id", "type_name", "type_hash", "type_source", "type_def", "type_size", "hexdump"}
YAML_WORDS = {"true", "false", "null", "yes", "no", "on", "off", "y", "n", "True", "False", "Null", "NULL", "TRUE", "FALSE"}


# ---- definitions ---------------------------------------------------------------------------
# d = {"kind": "signal"|"message"|"struct", "name": str, "id": int|None, "fields": [(fname, type text)] | None,
#      "reuse": str|None}

def ident(rng: random.Random, lo=1, hi=10, upper=False) -> str:
    first = "ABCDEFGHIJKLMNOPQRSTUVWXYZ" + ("" if upper else "abcdefghijklmnopqrstuvwxyz")
    rest = first + "0123456789_"
    while True:
        s = rng.choice(first) + "".join(rng.choice(rest) for _ in range(rng.randint(lo, hi) - 1))
        if not keyword.iskeyword(s) and s not in RESERVED_FIELDS and s not in YAML_WORDS and s != "fields" \
                and not s.startswith("MT_") and not s.startswith("MDF_") and not s.startswith("MID_"):
            return s


def yaml_def(d: dict, comments: Optional[random.Random] = None, fields_first: bool = False, ind: int = 2) -> str:
    """one definition; `fields_first` writes the `fields` key before the `id` key, `ind` is the indentation step
    of the mapping (the canonical text always uses 2)"""
    def c():
        if comments is None:
            return ""
        return comments.choice(["", "", "   # a comment", "\n", "\n      # full line comment\n"])
    i1, i2 = " " * (2 + ind), " " * (2 + 2 * ind)
    head = f"  {d['name']}:\n"
    idl = "" if d["kind"] == "struct" else f"{i1}id: {d['id']}" + (c().split("\n")[0]) + "\n"
    if d["kind"] == "signal":
        fl = f"{i1}fields: null" + (c().split("\n")[0]) + "\n"
    elif d.get("reuse"):
        fl = f"{i1}fields: {d['reuse']}\n"
    else:
        fl = f"{i1}fields:\n"
        for fn, ty in d["fields"]:
            fl += f"{i2}{fn}: {ty}" + (c().split("\n")[0]) + "\n"
            if comments is not None and comments.random() < 0.3:
                fl += "\n"
    sep = ("\n" + i1 + "# between the sections\n\n") if comments is not None and comments.random() < 0.5 else ""
    return head + ((fl + sep + idl) if fields_first else (idl + sep + fl))


def yaml_file(imports=(), consts=(), aliases=(), structs=(), msgs=(), comments: Optional[random.Random] = None,
              order=None, fields_first: bool = False, ind: int = 2) -> str:
    parts = {}
    if imports:
        parts["imports"] = "imports:\n" + "".join(f"  - {i}\n" for i in imports)
    if consts:
        parts["constants"] = "constants:\n" + "".join(f"  {n}: {v}\n" for n, v in consts)
    if aliases:
        parts["aliases"] = "aliases:\n" + "".join(f"  {n}: {t}\n" for n, t in aliases)
    if structs:
        parts["struct_defs"] = "struct_defs:\n" + "\n".join(yaml_def(s, comments, fields_first, ind) for s in structs)
    if msgs:
        parts["message_defs"] = "message_defs:\n" + "\n".join(yaml_def(m, comments, fields_first, ind) for m in msgs)
    order = order or ["imports", "constants", "aliases", "struct_defs", "message_defs"]
    head = "# header comment\n\n" if comments is not None else ""
    return head + ("\n\n" if comments is not None else "\n").join(parts[s] for s in order if s in parts) + "\n"


def canonical_text(d: dict) -> Optional[str]:
    """the canonical definition text, written from the property: name, id, then the ordered fields with their type
    texts (or the name of the reuse target) - always in that order, whatever the order of the keys in the source.
    (None for a struct written `fields: OTHER`, whose text the parser builds character by character: model only.)"""
    if d["kind"] == "signal":
        return f"{d['name']}:\n  id: {d['id']}\n  fields: null"
    body = f"    fields: {d['reuse']}" if d.get("reuse") else "\n".join(f"    {a}: {b}" for a, b in d["fields"])
    if d["kind"] == "message":
        return f"{d['name']}:\n  id: {d['id']}\n  fields:\n{body}"
    return None if d.get("reuse") else f"{d['name']}:\n  fields:\n{body}"


def coq_bytes(s: str) -> str:
    return "[" + "; ".join(str(b) for b in s.encode("utf-8")) + "]"


def coq_str(s: str) -> str:
    if all(32 <= ord(ch) < 127 and ch != '"' for ch in s):
        return '"' + s + '"'
    return f"(B {coq_bytes(s)})"


def coq_defn(d: dict) -> str:
    if d["kind"] == "signal":
        return f"DSignal {coq_str(d['name'])} {d['id']}"
    f = (f"FReuse {coq_str(d['reuse'])}" if d.get("reuse")
         else "FDict [" + "; ".join(f"({coq_str(a)}, {coq_str(b)})" for a, b in d["fields"]) + "]")
    if d["kind"] == "struct":
        return f"DStruct {coq_str(d['name'])} ({f})"
    return f"DMessage {coq_str(d['name'])} {d['id']} ({f})"


def key_of(d: dict):
    return (d["kind"], d["name"], d.get("id"), tuple(d["fields"]) if d.get("fields") is not None else None, d.get("reuse"))


# ---- emitted literals ---------------------------------------------------------------------------

def parse_literals(outputs: Dict[str, str]) -> Dict[str, Dict[str, str]]:
    """language -> {definition name -> literal text as written}"""
    res: Dict[str, Dict[str, str]] = {"python": {}, "c": {}, "javascript": {}, "matlab": {}}
    py = outputs.get("python") or ""
    for m in re.finditer(r"^class (?:MDF_)?(\w+)\((.*?)(?=^class |^@pyrtma|\Z)", py, re.S | re.M):
        h = re.search(r"type_hash: ClassVar\[int\] = (0x[0-9A-Fa-f]+)", m.group(2))
        if h:
            res["python"][m.group(1)] = h.group(1)
    for m in re.finditer(r"^#define HASH_(\S+)\s+(0x[0-9a-fA-F]+)\s*$", outputs.get("c") or "", re.M):
        res["c"][m.group(1)] = m.group(2)
    for m in re.finditer(r'^RTMA\.HASH\.(\w+) = "([0-9a-fA-F]*)";$', outputs.get("javascript") or "", re.M):
        res["javascript"][m.group(1)] = m.group(2)
    for m in re.finditer(r'^RTMA\.hash\.(\w+) = "([0-9a-fA-F]*)";$', outputs.get("matlab") or "", re.M):
        res["matlab"][m.group(1)] = m.group(2)
    return res


# ---- generators -------------------------------------------------------------------------------------

def gen_library(rng: random.Random):
    """constants, aliases and structs that type texts may refer to"""
    consts = [("NA", 4), ("NB", 3), ("MAXLEN", 16)]
    aliases = [("AL_I32", "int32"), ("AL_D", "double"), ("AL_UI", "unsigned int")]
    structs = [dict(kind="struct", name="S_PT", id=None, fields=[("x", "double"), ("y", "double")], reuse=None),
               dict(kind="struct", name="S_MIX", id=None, fields=[("a", "int32"), ("b", "AL_I32"), ("p", "S_PT"),
                                                                  ("q", "S_PT[2]")], reuse=None),
               dict(kind="struct", name="S_COPY", id=None, fields=None, reuse="S_PT"),
               dict(kind="struct", name="S_COPY_OF_A_LONGER_NAME_0123456789", id=None, fields=None, reuse="S_MIX")]
    return consts, aliases, structs


def type_text(rng: random.Random, natives: Dict[int, List[str]]) -> str:
    base = rng.choice(["nat", "nat", "nat", "alias", "struct"])
    if base == "nat":
        t = rng.choice([n for n in sum(natives.values(), []) if n != "signed char"])
    elif base == "alias":
        t = rng.choice(["AL_I32", "AL_D", "AL_UI"])
    else:
        t = rng.choice(["S_PT", "S_MIX", "S_COPY"])
    r = rng.random()
    if r < 0.45:
        return t
    ln = rng.choice(["2", "4", "NA", "NB*2", "NA + 1", "MAXLEN", "(NA+NB)*2", "8"])
    return t + rng.choice(["[%s]", " [%s]", "[ %s ]", "[%s ]"]) % ln


def gen_message(rng, natives, name=None, mid=0, nfields=None) -> dict:
    n = nfields if nfields is not None else rng.randint(1, 7)
    names = []
    while len(names) < n:
        f = ident(rng, 1, 9)
        if f not in names:
            names.append(f)
    return dict(kind="message", name=name or ident(rng, 2, 14, upper=rng.random() < 0.7), id=mid,
                fields=[(f, type_text(rng, natives)) for f in names], reuse=None)


def edits(rng: random.Random, base: dict, natives) -> List[Tuple[str, dict]]:
    """every single edit of a message definition named in the property"""
    out = []
    fs = base["fields"]

    def v(tag, **kw):
        d = dict(base)
        d.update(kw)
        out.append((tag, d))
    v("rename", name=base["name"] + "x")
    v("rename-case", name=base["name"].swapcase() if base["name"].swapcase() != base["name"] else base["name"] + "_")
    v("id-change", id=base["id"] + 1)
    v("id-digit", id=base["id"] * 10 + 1)
    for k in range(len(fs)):
        g = list(fs)
        g[k] = (fs[k][0] + "_", fs[k][1])
        v("field-rename", fields=g)
        g = list(fs)
        t = fs[k][1]
        g[k] = (fs[k][0], "int8" if t != "int8" else "uint8")
        v("type-change", fields=g)
        g = list(fs)
        g[k] = (fs[k][0], t + "[2]" if "[" not in t else t.split("[")[0].strip())
        v("array-change", fields=g)
        g = list(fs)
        g.insert(k, ("ins_%d" % k, "int32"))
        v("insertion", fields=g)
        if len(fs) > 1:
            g = list(fs)
            del g[k]
            v("deletion", fields=g)
    g = list(fs) + [("appended", "double")]
    v("insertion", fields=g)
    for i in range(len(fs)):
        for j in range(i + 1, len(fs)):
            if fs[i] != fs[j]:
                g = list(fs)
                g[i], g[j] = g[j], g[i]
                v("reordering", fields=g)
            if fs[i][1] != fs[j][1]:          # types swapped between two field names
                g = list(fs)
                g[i], g[j] = (fs[i][0], fs[j][1]), (fs[j][0], fs[i][1])
                v("type-swap", fields=g)
    out.append(("message->signal", dict(kind="signal", name=base["name"], id=base["id"], fields=None, reuse=None)))
    out.append(("message->reuse", dict(kind="message", name=base["name"], id=base["id"], fields=None, reuse="S_PT")))
    return out


def run_worker_env(cases: List[dict], extra_env: dict) -> List[dict]:
    p = subprocess.run([PY, str(VERIF / "vlib" / "defs_worker.py")], input=json.dumps(cases), capture_output=True,
                       text=True, env=impl_env(extra_env), timeout=900, cwd="/")
    if p.returncode != 0:
        raise RuntimeError("defs_worker failed: " + p.stderr[-800:])
    return json.loads(p.stdout)


def run_client_worker(cases: List[dict]) -> List[Optional[dict]]:
    """one fresh interpreter per case (the id -> class registry of pyrtma is process-wide), in parallel"""
    from concurrent.futures import ThreadPoolExecutor

    def one(c):
        try:
            p = subprocess.run([PY, str(VERIF / "vlib" / "defs_client_worker.py")], input=json.dumps([c]),
                               capture_output=True, text=True, env=impl_env(), timeout=600, cwd="/")
            if p.returncode != 0:
                return dict(ok=False, err=p.stderr[-600:], frames=[])
            return json.loads(p.stdout)[0]
        except Exception as e:  # noqa
            return dict(ok=False, err=f"{type(e).__name__}: {e}", frames=[])
    with ThreadPoolExecutor(8) as ex:
        return list(ex.map(one, cases))


def gen_revision_cases(rng: random.Random, thorough: bool):
    """pairs of definition files that give ONE id to two different texts"""
    cases, metas = [], []
    nid = 6000
    kinds = ["field-rename", "type-change-same-size", "type-change-other-size", "reorder", "insertion", "message-rename"]
    for rep in range(2 if thorough else 1):
        for edit in kinds:
            nid += 10
            nm = ident(rng, 4, 10, upper=True)
            f1, f2, f3 = ident(rng, 2, 8), ident(rng, 2, 8) + "_b", ident(rng, 2, 8) + "_c"
            base = dict(kind="message", name=nm, id=nid, fields=[(f1, "int32"), (f2, "int32"), (f3, "double")], reuse=None)
            other = dict(base)
            fs = list(base["fields"])
            if edit == "field-rename":
                fs[1] = (f2 + "x", "int32")
            elif edit == "type-change-same-size":
                fs[1] = (f2, rng.choice(["uint32", "float", "unsigned int"]))
            elif edit == "type-change-other-size":
                fs[1] = (f2, rng.choice(["int16", "char[4]", "int8"]))
                fs[0] = (f1, "double")
            elif edit == "reorder":
                fs[0], fs[1] = fs[1], fs[0]
            elif edit == "insertion":
                fs.append(("extra", "double"))
            else:
                other["name"] = nm + "_V2"
            other["fields"] = fs
            # a signal that keeps its text, and one that is renamed under the same id
            same = dict(kind="signal", name="SAME_" + nm, id=nid + 1, fields=None, reuse=None)
            sig_a = dict(kind="signal", name="SIG_" + nm, id=nid + 2, fields=None, reuse=None)
            sig_b = dict(kind="signal", name="SIG_" + nm + "_RENAMED", id=nid + 2, fields=None, reuse=None)
            revs = []
            for msg, sig in ((base, sig_a), (other, sig_b)):
                revs.append(dict(files={"root.yaml": yaml_file(msgs=[msg, same, sig])}, root="root.yaml",
                                 messages=[msg["name"]], signals=[same["name"], sig["name"]]))
            for order in ([0, 1], [1, 0]):
                cases.append(dict(revs=revs, order=order))
                metas.append(dict(edit=edit, signal_differs=True, defs=[[base, same, sig_a], [other, same, sig_b]]))
    return cases, metas


def check_client_source() -> List[str]:
    """fail-closed reading of client.py: which send paths assign header.version"""
    tree = ast.parse((SRC / "pyrtma" / "client.py").read_text())
    cls = [n for n in tree.body if isinstance(n, ast.ClassDef) and n.name == "Client"]
    errs = []
    if len(cls) != 1:
        return ["class Client not found once"]
    fns = {n.name: n for n in cls[0].body if isinstance(n, ast.FunctionDef)}
    senders = [n for n, f in fns.items() if any(isinstance(c, ast.Call) and ast.unparse(c.func) == "self._sendall"
                                                for c in ast.walk(f))]
    if sorted(senders) != ["forward_message", "send_message", "send_signal"]:
        errs.append(f"functions that write to the socket changed: {sorted(senders)}")

    def version_assigns(fn):
        out = []
        for n in ast.walk(fn):
            if isinstance(n, ast.Assign):
                for t in n.targets:
                    if isinstance(t, ast.Attribute) and t.attr in ("version",):
                        out.append(ast.unparse(n))
        return out
    if "send_message" in fns and version_assigns(fns["send_message"]) != ["header.version = msg_data.type_hash"]:
        errs.append(f"send_message stamps: {version_assigns(fns['send_message'])}")
    if "send_signal" in fns:
        va = version_assigns(fns["send_signal"])
        if va != ["header.version = get_msg_cls(signal_type).type_hash"]:
            errs.append(f"send_signal stamps: {va}")
        tr = [n for n in ast.walk(fns["send_signal"]) if isinstance(n, ast.Try)
              and any(ast.unparse(b) == "header.version = get_msg_cls(signal_type).type_hash" for b in n.body)]
        if len(tr) != 1 or len(tr[0].handlers) != 1 or ast.unparse(tr[0].handlers[0].type) != "(UnknownMessageType, AttributeError)" \
                or [ast.unparse(b) for b in tr[0].handlers[0].body] != ["pass"]:
            errs.append("send_signal: the stamp is no longer `try: ... except (UnknownMessageType, AttributeError): pass`")
        else:
            src = ast.unparse(fns["send_signal"])
            if src.index("header.reserved = 0") > src.index("header.version = get_msg_cls") or \
                    src.index("header.version = get_msg_cls") > src.index("self._sendall(header)"):
                errs.append("send_signal: the stamp is not between the header initialisation and the send")
    if "forward_message" in fns and version_assigns(fns["forward_message"]):
        errs.append(f"forward_message now assigns a version: {version_assigns(fns['forward_message'])} (statement out of date)")
    hdr = ast.parse((SRC / "pyrtma" / "header.py").read_text())
    src = ast.unparse(hdr)
    if "def version(self, value: int):\n        self.reserved = value" not in src:
        errs.append("header.version is no longer the `reserved` field")
    return errs


# ---- run ---------------------------------------------------------------------------------------------

def run(chk: Check):
    rng = random.Random(chk.seed)
    regen_cone(chk, ())
    proved = chk.prove(FAM, "Props.C13", THEOREMS, extra_targets=["Model/HashText.vo", "Lib/Sha256.vo"])
    if proved and chk.tier == "thorough":
        okc, outc = FAM.coqchk("Props.C13")
        chk.cov["coqchk"] = outc[-1500:]
        if not okc:
            chk.broken_obligation("coqchk rejected Props.C13", outc[-600:])
    natives = native_names()
    thorough = chk.tier == "thorough"
    consts, aliases, structs = gen_library(rng)
    dist: Dict[str, int] = {}
    model_defs: Dict[tuple, Tuple[dict, str, str, Dict[str, str]]] = {}   # key -> (def, raw, hash, literals)
    nontrivial = set()

    def note_defs(res: dict, defs: List[dict], lits=None):
        by = {m["name"]: m for m in res["messages"]}
        by.update({("S", s["name"]): s for s in res["structs"]})
        for d in defs:
            m = by.get(("S", d["name"]) if d["kind"] == "struct" else d["name"])
            if m is None:
                chk.broken_obligation("harness: definition missing from parser dump", d["name"])
                continue
            if hashlib.sha256(m["raw"].encode()).hexdigest() != m["hash"]:
                chk.spec_failure("hash-is-not-sha256-of-raw", f"{d['name']}: hash differs from sha256(raw)",
                                 dict(defn=d, raw=m["raw"], hash=m["hash"]))
            ct = canonical_text(d)
            if ct is not None and hashlib.sha256(ct.encode()).hexdigest() != m["hash"]:
                chk.spec_failure("hash-is-not-sha256-of-the-canonical-text",
                                 f"{d['name']}: version {m['hash'][:8]}, the canonical text hashes to "
                                 f"{hashlib.sha256(ct.encode()).hexdigest()[:8]}; hashed text was {m['raw']!r}",
                                 dict(defn=d, canonical=ct, raw=m["raw"], hash=m["hash"], source=res.get("_source")))
            l = {}
            if lits:
                for lang in ("python", "c", "javascript", "matlab"):
                    nm = d["name"]
                    if lang == "matlab":
                        nm = nm.lstrip("_0123456789")
                    if nm in lits[lang]:
                        l[lang] = lits[lang][nm]
            old = model_defs.get(key_of(d))
            if old is not None and (old[1] != m["raw"] or old[2] != m["hash"]):
                chk.spec_failure("same-definition-different-hash", f"{d['name']}: {old[2][:8]} vs {m['hash'][:8]}",
                                 dict(defn=d, raw1=old[1], raw2=m["raw"]))
            if old is None or l:
                model_defs[key_of(d)] = (d, m["raw"], m["hash"], l or (old[3] if old else {}))

    def must_ok(res, what):
        if not res["ok"]:
            chk.broken_obligation(f"harness: generated closure rejected ({what})", f"{res['exc']}: {res['msg'][:200]}")
            return False
        return True

    # (1) generated definitions: model raw / sha256 against Parser.raw / .hash
    n_closures = 60 if thorough else 14
    cases, metas = [], []
    mid = 1000
    for _ in range(n_closures):
        msgs = []
        for _ in range(rng.randint(4, 10)):
            r = rng.random()
            mid += rng.randint(1, 40)
            if r < 0.2:
                msgs.append(dict(kind="signal", name=ident(rng, 1, 20, upper=True), id=mid, fields=None, reuse=None))
            elif r < 0.3:
                msgs.append(dict(kind="message", name=ident(rng, 3, 12), id=mid, fields=None,
                                 reuse=rng.choice(["S_PT", "S_MIX", "S_COPY"] + [m["name"] for m in msgs if m["kind"] == "message" and m.get("fields")])))
            else:
                msgs.append(gen_message(rng, natives, mid=mid))
        names = set()
        msgs = [m for m in msgs if not (m["name"] in names or names.add(m["name"]))]
        cases.append(dict(files={"root.yaml": yaml_file(consts=consts, aliases=aliases, structs=structs, msgs=msgs)},
                          root="root.yaml", import_coredefs=False, auto_pad=True, validate_alignment=True))
        metas.append(structs + msgs)
        # the same definitions with `fields:` written before `id:`, comments, blank lines, another indentation step
        cases.append(dict(files={"root.yaml": yaml_file(consts=consts, aliases=aliases, structs=structs, msgs=msgs,
                                                         comments=rng, fields_first=True, ind=rng.choice([2, 3, 4]))},
                          root="root.yaml", import_coredefs=False, auto_pad=True, validate_alignment=True))
        metas.append(structs + msgs)
    gres = run_impl(cases)
    for k, (res, defs, case) in enumerate(zip(gres, metas, cases)):
        if must_ok(res, "generated definitions"):
            res["_source"] = case["files"]
            note_defs(res, defs)
            dist["generated-definition" if k % 2 == 0 else "generated-definition:fields-before-id"] = \
                dist.get("generated-definition" if k % 2 == 0 else "generated-definition:fields-before-id", 0) + len(defs)
            if k % 2 == 1 and gres[k - 1]["ok"]:
                h0 = {m["name"]: m["hash"] for m in gres[k - 1]["messages"]}
                for m in res["messages"]:
                    nontrivial.add(("key-order", m["name"]))
                    if h0.get(m["name"]) != m["hash"]:
                        chk.spec_failure("hash-depends-on-key-order",
                                         f"{m['name']}: {h0.get(m['name'], '?')[:8]} written id-then-fields, {m['hash'][:8]} written "
                                         "fields-then-id (same name, id, fields)",
                                         dict(defn=next(d for d in defs if d["name"] == m["name"]),
                                              source_id_first=cases[k - 1]["files"], source_fields_first=case["files"]))

    # (2) every single edit of a base definition changes the hash (checked on the real compiler)
    nbases = 40 if thorough else 8
    ecases, emeta = [], []

    def edit_case(d, emit=False):
        return dict(files={"root.yaml": yaml_file(consts=consts, aliases=aliases,
                                                   structs=structs + ([d] if d["kind"] == "struct" else []),
                                                   msgs=[d] if d["kind"] != "struct" else [])},
                    root="root.yaml", import_coredefs=False, auto_pad=True, validate_alignment=True,
                    emit=(["python", "c", "javascript", "matlab"] if emit else []))
    for b in range(nbases):
        base = gen_message(rng, natives, name=ident(rng, 3, 10, upper=True), mid=200 + 7 * b,
                           nfields=rng.randint(2, 4))
        variants = [("base", base)] + edits(rng, base, natives)
        for tag, d in variants:
            ecases.append(edit_case(d, emit=(b == 0)))      # the four emitted literals too, for the first base
            emeta.append((b, tag, d))
    # the string form `fields: OTHER` (messages and structs): change of the reuse target, reuse <-> the explicit
    # dict of the very same fields (same layout, different definition text: C13_injective), and the usual edits
    lib = {x["name"]: x for x in structs}
    gid = 10 ** 5
    for kind in ("message", "struct"):
        for tgt in ("S_PT", "S_MIX"):
            gid += 1
            nm = ident(rng, 4, 10, upper=True)
            base = dict(kind=kind, name=nm, id=(900 + gid % 50 if kind == "message" else None), fields=None, reuse=tgt)
            other_t = "S_MIX" if tgt == "S_PT" else "S_PT"
            variants = [("base", base),
                        ("reuse-target-change", dict(base, reuse=other_t)),
                        ("reuse-target-change", dict(base, reuse="S_COPY")),          # S_COPY copies S_PT: same layout as S_PT
                        ("reuse->explicit-dict-of-the-same-fields", dict(base, reuse=None, fields=list(lib[tgt]["fields"]))),
                        ("reuse->single-field-of-that-type", dict(base, reuse=None, fields=[("body", tgt)])),
                        ("rename", dict(base, name=nm + "x"))]
            if kind == "message":
                variants += [("id-change", dict(base, id=base["id"] + 1)),
                             ("message->signal", dict(kind="signal", name=nm, id=base["id"], fields=None, reuse=None)),
                             ("message->struct", dict(kind="struct", name=nm, id=None, fields=None, reuse=tgt))]
            for tag, d in variants:
                ecases.append(edit_case(d, emit=True))
                emeta.append((gid, tag, d))
    # `fields: OTHER` against a single field called `fields` of type OTHER: the same text; the second spelling
    # must not be an accepted definition (for messages and for structs)
    a = dict(kind="message", name="LOOKALIKE", id=77, fields=None, reuse="S_PT")
    ecases.append(edit_case(a))
    emeta.append((10 ** 6, "base", a))
    lk = [dict(kind="message", name="LOOKALIKE", id=77, fields=[("fields", "S_PT")], reuse=None),
          dict(kind="message", name="LOOKALIKE2", id=78, fields=[("x", "int32"), ("fields", "double")], reuse=None),
          dict(kind="struct", name="LOOKALIKE_S", id=None, fields=[("fields", "S_PT")], reuse=None)]
    lres = run_impl([dict(files={"root.yaml": yaml_file(consts=consts, aliases=aliases,
                                                         structs=structs + ([d] if d["kind"] == "struct" else []),
                                                         msgs=[d] if d["kind"] != "struct" else [])},
                          root="root.yaml", import_coredefs=False, auto_pad=True, validate_alignment=True) for d in lk])
    for d, res in zip(lk, lres):
        dist["field-named-fields"] = dist.get("field-named-fields", 0) + 1
        nontrivial.add(("lookalike", d["name"]))
        if res["ok"]:
            chk.spec_failure("hash-unchanged:reuse->field-named-fields",
                             f"{d['name']}: a field called `fields` is accepted; its text coincides with that of `fields: {d['fields'][-1][1]}`",
                             dict(edited=d))
        elif res["exc"] != "RTMASyntaxError":
            chk.spec_failure("field-named-fields:wrong-error", f"{d['name']}: {res['exc']}: {res['msg'][:100]}", dict(edited=d))
    eres = run_impl(ecases)
    base_info: Dict[int, Tuple[dict, dict, Dict[str, str]]] = {}

    def own(res, d):
        pool = res["structs"] if d["kind"] == "struct" else res["messages"]
        return next(m for m in pool if m["name"] == d["name"])

    def own_literals(res, d) -> Dict[str, str]:
        if not res.get("outputs"):
            return {}
        lits = parse_literals(res["outputs"])
        langs = ("python",) if d["kind"] == "struct" else ("python", "c", "javascript", "matlab")
        return {l: lits[l].get(d["name"].lstrip("_0123456789") if l == "matlab" else d["name"]) for l in langs}
    for (b, tag, d), res in zip(emeta, eres):
        if not must_ok(res, f"edit {tag}"):
            continue
        if res.get("emit_exc"):
            chk.broken_obligation("harness: a back end failed on an edit variant", str(res["emit_exc"]))
        note_defs(res, [d], parse_literals(res["outputs"]) if res.get("outputs") else None)
        m = own(res, d)
        lits = own_literals(res, d)
        for lang, lit in lits.items():
            if lit is None:
                chk.spec_failure(f"literal-missing:{lang}", f"{d['name']}: no hash literal in the {lang} output", dict(defn=d, lang=lang))
            elif int(lit, 16) != int(m["hash"][:8], 16):
                chk.spec_failure(f"literal-differs:{lang}", f"{d['name']}: {lang} literal {lit} != {m['hash'][:8]}", dict(defn=d, lang=lang))
        if tag == "base":
            base_info[b] = (d, m, lits)
            continue
        dist["edit:" + tag] = dist.get("edit:" + tag, 0) + 1
        nontrivial.add(("edit", key_of(d)))
        if b not in base_info:
            continue
        bd, bm, blits = base_info[b]
        rep = dict(base=bd, edited=d, base_raw=bm["raw"], edited_raw=m["raw"], base_hash=bm["hash"], edited_hash=m["hash"])
        # the model's C13_injective: different (well-formed) definitions have different texts; the digest must follow
        if m["raw"] == bm["raw"] or m["hash"] == bm["hash"]:
            chk.spec_failure("edit-does-not-change-hash:" + tag,
                             f"{tag}: {bd['kind']} {bd['name']} -> {d['kind']} {d['name']}: the hashed text"
                             f"{' is unchanged' if m['raw'] == bm['raw'] else ' changed'} and the version stays {m['hash'][:8]}", rep)
        elif m["hash"][:8] == bm["hash"][:8]:
            chk.spec_failure("truncated-hash-collision", f"{tag}: 32-bit prefixes equal ({m['hash'][:8]})", rep)
        for lang in lits:
            if lits.get(lang) is not None and blits.get(lang) is not None and int(lits[lang], 16) == int(blits[lang], 16):
                chk.spec_failure(f"edit-does-not-change-hash:{tag}:{lang}-literal",
                                 f"{tag}: the {lang} output carries {lits[lang]} before and after the edit of {bd['name']}", rep)
                dist["edit-literal-unchanged"] = dist.get("edit-literal-unchanged", 0) + 1
        if lits:
            dist["edit-with-literals"] = dist.get("edit-with-literals", 0) + 1

    # (3) the same definition elsewhere / with noise: the hash must not change
    icases, imeta = [], []
    for b in range(12 if thorough else 4):
        target = gen_message(rng, natives, name=ident(rng, 3, 10, upper=True), mid=3000 + b, nfields=rng.randint(2, 5))
        others = [gen_message(rng, natives, mid=3100 + 10 * b + k) for k in range(3)]
        sig = dict(kind="signal", name="SIG_" + target["name"], id=3500 + b, fields=None, reuse=None)
        lib = dict(consts=consts, aliases=aliases, structs=structs)
        libfile = yaml_file(**lib)
        variants = {
            "plain": (dict(files={"root.yaml": yaml_file(msgs=[target, sig], **lib)}, root="root.yaml"), None),
            "comments-blank-lines": (dict(files={"root.yaml": yaml_file(msgs=[target, sig], comments=rng, **lib)}, root="root.yaml"), None),
            "unrelated-before-after": (dict(files={"root.yaml": yaml_file(msgs=[others[0], target, others[1], sig, others[2]], **lib)}, root="root.yaml"), None),
            "sections-reordered": (dict(files={"root.yaml": yaml_file(msgs=[sig, target], order=["message_defs", "struct_defs", "aliases", "constants"], **lib)}, root="root.yaml"), None),
            "fields-before-id": (dict(files={"root.yaml": yaml_file(msgs=[target, sig], fields_first=True, **lib)}, root="root.yaml"), None),
            "fields-before-id-comments-indent4-subdir": (dict(files={"root.yaml": yaml_file(imports=["deep/dir/t.yaml"]),
                                                                      "deep/dir/t.yaml": yaml_file(msgs=[sig, target], fields_first=True, comments=rng, ind=4, **lib)},
                                                               root="root.yaml"), None),
            "other-file-name": (dict(files={"zz_defs.yaml": yaml_file(msgs=[target, sig], **lib)}, root="zz_defs.yaml"), None),
            "imported-subdir": (dict(files={"root.yaml": yaml_file(imports=["sub/dir/lib.yaml", "sub/t.yaml"], msgs=[others[0]]),
                                            "sub/dir/lib.yaml": libfile,
                                            "sub/t.yaml": yaml_file(imports=["dir/lib.yaml"], msgs=[target, sig])}, root="root.yaml"), None),
            "imported-last-diamond": (dict(files={"root.yaml": yaml_file(imports=["a/o.yaml", "b/t.yaml"], msgs=[others[1]]),
                                                  "lib.yaml": libfile,
                                                  "a/o.yaml": yaml_file(imports=["../lib.yaml"], msgs=[others[0]]),
                                                  "b/t.yaml": yaml_file(imports=["../lib.yaml", "../a/o.yaml"], msgs=[sig, target])}, root="root.yaml"), None),
            "other-cwd": (dict(files={"deep/er/root.yaml": yaml_file(imports=["../../lib.yaml"], msgs=[target, sig]), "lib.yaml": libfile,
                                      "elsewhere/x.txt": "x"}, root="deep/er/root.yaml", cwd="elsewhere"), None),
            "with-core-defs": (dict(files={"root.yaml": yaml_file(msgs=[target, sig], **lib)}, root="root.yaml", import_coredefs=True), None),
            "no-auto-pad-no-validation": (dict(files={"root.yaml": yaml_file(msgs=[target, sig], **lib)}, root="root.yaml",
                                               validate_alignment=False), None),
        }
        for tag, (c, _) in variants.items():
            c.setdefault("import_coredefs", False)
            c.setdefault("auto_pad", True)
            c.setdefault("validate_alignment", True)
            icases.append(c)
            imeta.append((b, tag, target, sig))
    ires = run_impl(icases)
    # a second interpreter with another hash seed: "the same on every run"
    ires2 = run_worker_env([c for c, m in zip(icases, imeta) if m[1] == "plain"], {"PYTHONHASHSEED": "12345"})
    ref: Dict[int, Dict[str, str]] = {}
    for (b, tag, target, sig), res in list(zip(imeta, ires)) + [((m[0], "second-run-other-hashseed", m[2], m[3]), r)
                                                                 for m, r in zip([m for m in imeta if m[1] == "plain"], ires2)]:
        if not must_ok(res, f"relocation {tag}"):
            continue
        hs = {m["name"]: m["hash"] for m in res["messages"]}
        note_defs(res, [target, sig])
        dist["relocate:" + tag] = dist.get("relocate:" + tag, 0) + 1
        if tag == "plain":
            ref[b] = hs
            continue
        nontrivial.add(("relocate", tag, b))
        for nm in (target["name"], sig["name"]):
            if hs.get(nm) != ref[b].get(nm):
                chk.spec_failure("hash-changed:" + tag, f"{nm}: {ref[b].get(nm, '?')[:8]} -> {str(hs.get(nm))[:8]} under {tag}",
                                 dict(defn=target, variant=tag))

    # (4) the literal in each of the four outputs
    lcases, lmeta = [], []
    for k in range(6 if thorough else 2):
        msgs = [gen_message(rng, natives, name=nm, mid=4000 + 10 * k + j)
                for j, nm in enumerate(["Short%d" % k, "A_NAME_OF_EXACTLY_46_CHARACTERS_0123456789_ABC%d" % k,
                                        "A_NAME_OF_48_CHARACTERS_0123456789_0123456789_AB%d" % k,
                                        "A_MUCH_LONGER_NAME_THAN_THE_COLUMN_WIDTH_OF_THE_C_HEADER_0123456789_%d" % k])]
        msgs.append(dict(kind="signal", name="SIG_%d_WITH_A_LONG_NAME_0123456789_0123456789_0123456789" % k, id=4900 + k, fields=None, reuse=None))
        msgs.append(dict(kind="message", name="Reuser%d" % k, id=4950 + k, fields=None, reuse="S_MIX"))
        lcases.append(dict(files={"root.yaml": yaml_file(consts=consts, aliases=aliases, structs=structs, msgs=msgs)},
                           root="root.yaml", import_coredefs=False, auto_pad=True, validate_alignment=True,
                           emit=["python", "c", "javascript", "matlab"]))
        lmeta.append(structs + msgs)
    for res, defs in zip(run_impl(lcases), lmeta):
        if not must_ok(res, "emission"):
            continue
        if res.get("emit_exc"):
            chk.broken_obligation("harness: a back end failed on a generated closure", str(res["emit_exc"]))
            continue
        lits = parse_literals(res["outputs"])
        note_defs(res, defs, lits)
        by = {m["name"]: m for m in res["messages"]}
        by.update({s["name"]: s for s in res["structs"]})
        for d in defs:
            want = int(by[d["name"]]["hash"][:8], 16)
            for lang in ("python", "c", "javascript", "matlab"):
                if d["kind"] == "struct" and lang != "python":
                    continue                       # only the python output carries struct hashes
                lit = lits[lang].get(d["name"].lstrip("_0123456789") if lang == "matlab" else d["name"])
                dist["literal:" + lang] = dist.get("literal:" + lang, 0) + 1
                if lit is None:
                    chk.spec_failure(f"literal-missing:{lang}", f"{d['name']}: no hash literal in the {lang} output",
                                     dict(defn=d, lang=lang))
                elif int(lit, 16) != want:
                    chk.spec_failure(f"literal-differs:{lang}", f"{d['name']}: {lang} literal {lit} != {want:#x}",
                                     dict(defn=d, lang=lang, literal=lit))
                nontrivial.add(("literal", lang, d["name"]))

    # (5) header.version of frames written by a real Client
    errs = check_client_source()
    for e in errs:
        chk.broken_obligation("client.py no longer matches the statement of C13_client_stamping", e)
    cm = [gen_message(rng, natives, name="CliMsg%d" % j, mid=5000 + j) for j in range(6 if thorough else 3)]
    cs = [dict(kind="signal", name="CliSig%d" % j, id=5100 + j, fields=None, reuse=None) for j in range(2)]
    ccase = dict(files={"root.yaml": yaml_file(consts=consts, aliases=aliases, structs=structs, msgs=cm + cs)},
                 root="root.yaml", messages=[m["name"] for m in cm], signals=[s["name"] for s in cs],
                 undefined_ids=[5999, 9876])
    frames = []
    r = run_client_worker([ccase])[0]
    if r is None or not r["ok"]:
        chk.broken_obligation("client worker failed", (r or {}).get("err", "no result")[-600:])
    else:
        frames = r["frames"]
    for f in list(frames):
        want = int(f["parser_hash"][:8], 16)
        if f["path"] == "send_signal:undefined-type":
            dist["frame:" + f["path"]] = dist.get("frame:" + f["path"], 0) + 1
            if f["version"] != 0:
                chk.spec_failure("send_signal-undefined-type-version", f"id {f['name']}: version {f['version']:#x}", f)
            continue
        dist["frame:" + f["path"]] = dist.get("frame:" + f["path"], 0) + 1
        nontrivial.add(("frame", f["path"], f["name"]))
        if f["type_hash"] != want:
            chk.spec_failure("type_hash-differs-from-parser-hash", f"{f['name']}: class {f['type_hash']:#x} vs parser {want:#x}", f)
        if f["path"] == "send_message" and f["version"] != want:
            chk.spec_failure("unstamped:send_message", f"{f['name']}: header.version {f['version']:#x} != {want:#x}", f)
        if f["path"] == "send_signal" and f["version"] != want:
            chk.spec_failure("unstamped:send_signal",
                             f"{f['name']}: send_signal wrote header.version {f['version']} while the signal's hash is {want:#x}", f)
        if f["path"] == "forward_message:stamped-header" and f["version"] != 0x0BADC0DE:
            chk.spec_failure("forward_message-rewrites-version", f"{f['name']}: {f['version']:#x}", f)
        if f["path"] == "forward_message:fresh-header" and f["version"] not in (0, want):
            chk.spec_failure("forward_message-writes-wrong-version", f"{f['name']}: {f['version']:#x}", f)

    # (6) two revisions of a definition under ONE id, both imported into one sending process: every frame must carry
    #     the hash of the definition of the object that was sent, whichever revision was imported last
    rev_cases, rev_meta = gen_revision_cases(rng, thorough)
    rev_yaml = [r["files"]["root.yaml"] for c in rev_cases for r in c["revs"]]
    for (res, defs) in zip(run_impl([dict(files={"root.yaml": y}, root="root.yaml", import_coredefs=False, auto_pad=True,
                                          validate_alignment=True) for y in rev_yaml],),
                           [d for m in rev_meta for d in m["defs"]]):
        if must_ok(res, "revision pair"):
            note_defs(res, defs)                      # their text / digest also go through the model below
    rframes = run_client_worker(rev_cases)
    for c, m, r in zip(rev_cases, rev_meta, rframes):
        if r is None or not r["ok"]:
            chk.broken_obligation("client worker failed on a revision pair", (r or {}).get("err", "no result")[-600:])
            continue
        for f in r["frames"]:
            want = int(f["parser_hash"][:8], 16)
            frames.append(f)
            tag = f"frame:two-revisions:{f['path']}"
            dist[tag] = dist.get(tag, 0) + 1
            dist["revision-edit:" + m["edit"]] = dist.get("revision-edit:" + m["edit"], 0) + 1
            nontrivial.add(("revframe", m["edit"], tuple(c["order"]), f["path"], f["rev"], f["name"]))
            rep = dict(revisions=[x["files"]["root.yaml"] for x in c["revs"]], import_order=c["order"], edit=m["edit"],
                       frame=f, case=c)
            if f["type_hash"] != want:
                chk.spec_failure("type_hash-differs-from-parser-hash", f"{f['name']}: class {f['type_hash']:#x} vs parser {want:#x}", rep)
            if f["version"] == want:
                continue
            last = c["order"][-1]
            desc = (f"{m['edit']}: {f['path']} of {f['name']} (revision {f['rev']}, import order {c['order']}) carries "
                    f"header.version {f['version']:#010x}; the definition of what was sent hashes to {want:#010x}")
            if f["path"] == "send_message":
                chk.spec_failure("stamp:not-the-sent-objects-hash", desc, rep)
            elif f["rev"] != last and m["signal_differs"]:
                # send_signal takes a bare id.  With two DIFFERENT definitions registered under that id in one process the
                # call does not say which one is meant (the registry keeps the last import): not a statement of C13,
                # which is about the definition of what is sent.  Counted, not judged.
                chk.cov["send_signal_ambiguous_id_frames"] = chk.cov.get("send_signal_ambiguous_id_frames", 0) + 1
            else:
                chk.spec_failure("stamp:send_signal-wrong-hash", desc, rep)

    # (7) send_signal of an id before its definition is imported, after, and after a redefinition under the same id
    late_cases = []
    for j in range(4 if thorough else 2):
        sid = 7000 + 3 * j
        n0 = "LATE_" + ident(rng, 3, 8, upper=True)
        variants = [n0 + "_V2", n0] if j % 2 == 0 else [n0 + "_RENAMED"]
        for n1 in variants:
            revs = []
            for nm in (n0, n1):
                sd = dict(kind="signal", name=nm, id=sid, fields=None, reuse=None)
                other = gen_message(rng, natives, mid=sid + 1)
                revs.append(dict(files={"root.yaml": yaml_file(consts=consts, aliases=aliases, structs=structs, msgs=[sd, other])},
                                 root="root.yaml", signal=nm))
            late_cases.append(dict(late=True, id=sid, revs=revs))
    for c, r in zip(late_cases, run_client_worker(late_cases)):
        if r is None or not r["ok"]:
            chk.broken_obligation("client worker failed on a late-definition case", (r or {}).get("err", "no result")[-600:])
            continue
        for f in r["frames"]:
            frames.append(f)
            want = int(f["parser_hash"][:8], 16)
            tag = f"frame:late:{f['step']}:{f['client']}"
            dist[tag] = dist.get(tag, 0) + 1
            nontrivial.add(("late", c["id"], c["revs"][-1]["signal"], f["step"], f["client"]))
            if f["version"] != want:
                key = {"before-any-definition": "stamp:send_signal-undefined-id-not-zero",
                       "after-first-import": "stamp:send_signal-definition-imported-later-ignored",
                       "after-redefinition": "stamp:send_signal-stale-after-redefinition"}[f["step"]]
                chk.spec_failure(key, f"send_signal({c['id']}) {f['step']} ({f['client']} client): header.version {f['version']:#010x}, "
                                      f"the definition registered for the id hashes to {want:#010x}",
                                 dict(late_case=c, frame=f, definitions=[x["files"]["root.yaml"] for x in c["revs"]]))

    # model side: every definition seen above through Model/HashText.v + Lib/Sha256.v
    coq_cases = []
    order = list(model_defs.values())
    for d, raw, h, lits in order:
        ex = [coq_bytes(raw), coq_bytes(h)] + [coq_bytes(lits.get(l, "")) for l in ("python", "c", "javascript", "matlab")]
        coq_cases.append(f"({coq_defn(d)}, [{'; '.join(e + '%Z' for e in ex)}])")
    bad, log = FAM.eval_cases(HEADER, coq_cases, per_file=40, tag="c13")
    chk.cov["evaluations"] = len(coq_cases) + len(ecases) + len(icases) + len(frames)
    chk.cov["traces_validated_against_impl"] = len(coq_cases) - len([b for b in bad if b >= 0])
    chk.cov["distinct_nontrivial"] = len(nontrivial)
    chk.cov["rule"] = ("definitions compiled by the real Parser; compared with Model/HashText.v + Lib/Sha256.v (vm_compute): raw text, "
                       "64-hex digest, the literal each back end wrote and the number it denotes. Spec oracle on the implementation: "
                       "every single edit changes the digest, every relocation / noise keeps it, each of the four outputs carries "
                       "first32(sha256 raw), header.version of frames captured from Client.send_message equals it. non-trivial = an "
                       "edit variant, a relocated variant, an emitted literal, a captured frame (distinct)")
    chk.cov["input_distribution"] = dist
    chk.cov["model_cases"] = dict(definitions=len(coq_cases), with_literals=len([1 for o in order if o[3]]),
                                  kinds={k: len([1 for o in order if o[0]['kind'] == k]) for k in ("signal", "message", "struct")},
                                  reuse=len([1 for o in order if o[0].get('reuse')]),
                                  longest_name=max(len(o[0]['name']) for o in order) if order else 0)
    chk.add_samples([dict(defn=o[0], raw=o[1], hash=o[2][:8], literals=o[3]) for o in order[:2] + [o for o in order if o[3]][:2]]
                    + [f for f in frames if f["path"] in ("send_message", "send_signal")][:2])
    chk.assumptions += [
        "SHA-256 collision resistance: equal 32-bit prefixes of the digests of different texts are not excluded by any theorem "
        "(pigeonhole); 'changes whenever any element changes' is proved for the hashed TEXT (C13_injective_partial) and observed "
        "for the digest on every generated edit",
        "hashlib.sha256 = FIPS 180-4 (Lib/Sha256.v checked against the FIPS vectors by vm_compute and against hashlib on this run's texts)",
        "textwrap.dedent of CPython 3.12 as modelled in Model/HashText.v (validated by the correspondence, incl. the struct `fields: OTHER` shape)",
        "a message's hash covers the type TEXT of its fields: changing the body of a nested struct or alias does not change the "
        "hash of a message that names it (this is what the property states: 'field names with their type texts')",
        "header.version: send_message writes the type_hash of the message object; send_signal writes the type_hash of the definition "
        "registered for the signal type, for every DEFINED type - an id without a registered definition keeps version 0; "
        "forward_message sends the header it is given (checked structurally in client.py and on captured frames; not a Coq theorem)",
    ]
    for b in bad[:3]:
        if b >= 0:
            d, raw, h, lits = order[b]
            chk.broken_obligation("correspondence Model/HashText.v vs Parser differs", f"{d} raw={raw!r} hash={h[:8]} lits={lits}")
        else:
            chk.broken_obligation("correspondence shard failed to evaluate", log[-600:])


def replay(path: str) -> int:
    d = json.load(open(path))
    r = d["replay"]
    if isinstance(r, dict) and ("source_fields_first" in r or r.get("source")):
        srcs = ([("id-then-fields", r["source_id_first"]), ("fields-then-id", r["source_fields_first"])]
                if "source_fields_first" in r else [("source", r["source"])])
        nm = r["defn"]["name"]
        ct = canonical_text(r["defn"])
        print("definition:", r["defn"])
        if ct is not None:
            print("canonical text hashes to", hashlib.sha256(ct.encode()).hexdigest()[:8])
        for label, files in srcs:
            res = run_impl([dict(files=files, root="root.yaml", import_coredefs=False, auto_pad=True, validate_alignment=True)])[0]
            m = [x for x in res["messages"] + res["structs"] if x["name"] == nm]
            print(f"--- {label}: ok={res['ok']} version={m[0]['hash'][:8] if m else None} hashed text={m[0]['raw'] if m else None!r}")
        return 0
    if isinstance(r, dict) and "late_case" in r:
        out = run_client_worker([r["late_case"]])[0]
        for j, y in enumerate(r["definitions"]):
            print(f"--- definition file {j} ---\n{y}")
        for f in out["frames"]:
            want = int(f["parser_hash"][:8], 16)
            print(f"send_signal({r['late_case']['id']}) {f['step']:24s} {f['client']:9s} client: header.version={f['version']:#010x} "
                  f"registered definition={want:#010x}  {'ok' if f['version'] == want else 'MISMATCH'}")
        if not out["ok"]:
            print(out["err"])
        return 0
    if isinstance(r, dict) and "case" in r and "revs" in r["case"]:
        out = run_client_worker([r["case"]])[0]
        print("import order:", r["case"]["order"])
        for j, y in enumerate(r["revisions"]):
            print(f"--- revision {j} ---\n{y}")
        for f in out["frames"]:
            want = int(f["parser_hash"][:8], 16)
            print(f"{f['path']:13s} rev {f['rev']} {f['name']:28s} header.version={f['version']:#010x}  "
                  f"hash of the sent definition={want:#010x}  {'ok' if f['version'] == want else 'MISMATCH'}")
        if not out["ok"]:
            print(out["err"])
        return 0
    consts, aliases, structs = gen_library(random.Random(0))
    defs = [r[k] for k in ("base", "edited", "defn") if k in r and isinstance(r[k], dict) and "kind" in r[k]]
    if defs:
        out = []
        for x in defs:
            x["fields"] = [tuple(f) for f in x["fields"]] if x.get("fields") else None
            st = x["kind"] == "struct"
            res = run_impl([dict(files={"root.yaml": yaml_file(consts=consts, aliases=aliases, structs=structs + ([x] if st else []),
                                                               msgs=[] if st else [x])},
                                 root="root.yaml", import_coredefs=False, auto_pad=True, validate_alignment=True)])[0]
            pool = res["structs"] if st else res["messages"]
            out.append(dict(defn=x, ok=res["ok"], exc=res["exc"],
                            raw=[m["raw"] for m in pool if m["name"] == x["name"]],
                            hash=[m["hash"] for m in pool if m["name"] == x["name"]]))
        print(json.dumps(out, indent=1))
    else:
        print(json.dumps(r, indent=1))
    return 0
