"""C01 - Pub/sub routing is exact."""
from ..framework import Check
from .. import mgr_check

THEOREMS = ['C01_exactly_once', 'C01_recipients_subscribed', 'C01_valid_dest', 'C01_dest_filter', 'C01_invalid_dest_nobody', 'C01_deliver_decision', 'C01_unmodified', 'C01_ex', 'C01_forward_exact', 'C01_forward_exact_ex', 'C01_only_recipients', 'C01_only_recipients_service', 'C01_only_recipients_meaning', 'C01_only_recipients_ex', 'C01_only_recipients_ex_invalid', 'C01_healthy_served', 'C01_service_total', 'C01_served_once_meaning', 'C01_healthy_served_ex', 'C01_healthy_served_ex_monitor_fails']
CHECKERS = ['C01', 'C03']


def run(chk: Check):
    mgr_check.run_property(
        chk, "C01", "Props.C01", THEOREMS,
        model_profiles={'routing': 320, 'acks': 60},
        oracle_flavors={'routing': 320, 'drops': 120, 'shared': 160},
        checkers=CHECKERS,
        assumptions=["the byte-level statement (frames written for a publish = the specification's recipients, unmodified) is decided by the correspondence and the spec oracle; the Coq theorems cover the recipient snapshot (duplicate-free, subscribed, registered, open), the generated guards and the single-recipient decision"])


def replay(path: str) -> int:
    return mgr_check.replay("C01", path, CHECKERS)
