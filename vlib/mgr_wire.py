"""Wire formats of the RTMA core protocol, written out by hand from
core_defs.yaml (independent of /repo's generated classes on purpose: the
decoder must not inherit a defect of the code under test)."""
from __future__ import annotations

import struct
from typing import Dict, List, Tuple

HDR = struct.Struct("<iiddhhhhiiiI")          # 48 bytes
HDR_TC = struct.Struct("<iiddhhhhiiiIII")      # 56 bytes (timecode)
assert HDR.size == 48 and HDR_TC.size == 56

MT = dict(EXIT=0, KILL=1, ACKNOWLEDGE=2, CONNECT_V2=4, FAIL_SUBSCRIBE=6, FAILED_MESSAGE=8, CONNECT=13,
          DISCONNECT=14, SUBSCRIBE=15, UNSUBSCRIBE=16, MODULE_READY=26, MESSAGE_TRAFFIC=30, ACTIVE_CLIENTS=31,
          CLIENT_INFO=32, CLIENT_CLOSED=33, CLIENT_SET_NAME=34, RTMA_LOG=40, RTMA_LOG_CRITICAL=41,
          RTMA_LOG_ERROR=42, RTMA_LOG_WARNING=43, RTMA_LOG_INFO=44, RTMA_LOG_DEBUG=45, TIMING_MESSAGE=80,
          PAUSE_SUBSCRIPTION=85, RESUME_SUBSCRIPTION=86)
ALL = 0x7FFFFFFF
LOG_TYPES = {40: 0, 41: 50, 42: 40, 43: 30, 44: 20, 45: 10}

CONNECT = struct.Struct("<hh")
CONNECT_V2 = struct.Struct("<hhhhi32s")
SUB = struct.Struct("<i")
READY = struct.Struct("<i")
SETNAME = struct.Struct("<32s")
FAILED = struct.Struct("<h3hd")               # followed by a 48-byte header
CLIENT = struct.Struct("<32siihhhH32s")
assert CONNECT_V2.size == 44 and FAILED.size + 48 == 64 and CLIENT.size == 80


def pack_hdr(h: dict, timecode: bool = False) -> bytes:
    x = h.get("x", {})
    base = (h["type"], h.get("count", 0), x.get("send_time", 0.0), x.get("recv_time", 0.0),
            h.get("src_host", 0), h.get("src_mod", 0), h.get("dst_host", 0), h.get("dst_mod", 0),
            h["nbytes"], x.get("remaining", 0), x.get("is_dynamic", 0), x.get("reserved", 0))
    if timecode:
        return HDR_TC.pack(*base, x.get("utc_s", 0), x.get("utc_f", 0))
    return HDR.pack(*base)


def unpack_hdr(b: bytes) -> dict:
    if len(b) == 56:
        t = HDR_TC.unpack(b)
        utc = (t[12], t[13])
    else:
        t = HDR.unpack(b[:48])
        utc = (0, 0)
    return dict(type=t[0], count=t[1], src_host=t[4], src_mod=t[5], dst_host=t[6], dst_mod=t[7], nbytes=t[8],
                x=(t[2], t[3], t[9], t[10], t[11], utc[0], utc[1]))


def cstr(b: bytes) -> bytes:
    i = b.find(b"\0")
    return b if i < 0 else b[:i]


def decode_payload(mtype: int, b: bytes):
    """decode a manager-originated payload by type; returns a tuple or None if it does not fit"""
    if mtype == MT["FAILED_MESSAGE"] and len(b) == 64:
        dm, _, _, _, tof = FAILED.unpack(b[:16])
        return ("failed", dm, unpack_hdr(b[16:64]))
    if mtype in (MT["CLIENT_INFO"], MT["CLIENT_CLOSED"]) and len(b) == 80:
        addr, uid, pid, mid, lg, uq, port, name = CLIENT.unpack(b)
        return ("client", 1 if mtype == MT["CLIENT_CLOSED"] else 0, uid, pid, mid, lg, uq, cstr(name).decode("latin1"), cstr(addr).decode("latin1"), port)
    if mtype == MT["TIMING_MESSAGE"] and len(b) == 20808:
        timing = struct.unpack("<10000H", b[:20000])
        pids = struct.unpack("<200i", b[20000:20800])
        return ("timing", [(i, v) for i, v in enumerate(timing) if v], [(i, v) for i, v in enumerate(pids) if v])
    if mtype == MT["MESSAGE_TRAFFIC"] and len(b) == 408:
        seq, sub, t0, t1 = struct.unpack("<IIdd", b[:24])
        ty = struct.unpack("<64i", b[24:280])
        ct = struct.unpack("<64H", b[280:408])
        return ("traffic", seq, sub, list(ty), list(ct), t0, t1)
    if mtype == MT["ACTIVE_CLIENTS"] and len(b) == 1552:
        ts, num, pad, res = struct.unpack("<dhhi", b[:16])
        mids = struct.unpack("<256h", b[16:528])
        pids = struct.unpack("<256i", b[528:1552])
        return ("active", num, list(mids), list(pids))
    if mtype in LOG_TYPES and len(b) == 1936:
        t, lvl, lineno = struct.unpack("<dii", b[:16])
        return ("log", lvl)
    return None
