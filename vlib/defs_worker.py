"""Runs the REAL pyrtma parser/compiler on definition closures.

Executed as a subprocess (fresh interpreter, PYTHONPATH=/repo/src):
    python -m vlib.defs_worker  < cases.json  > results.json

case: {"files": {"relpath.yaml": "text", ...}, "root": "relpath.yaml",
       "auto_pad": bool, "validate_alignment": bool, "import_coredefs": bool,
       "emit": ["c","python","javascript","matlab","combined"], "probe_c": bool}
result: {"ok": bool, "exc": "ClassName"|None, "msg": str, "structs": [...], "messages": [...],
         "outputs": {ext: text}, "probe": {name: {"size":..,"align":..,"offs":[..]}}}
"""
from __future__ import annotations

import contextlib
import io
import json
import logging
import os
import shutil
import subprocess
import sys
import tempfile
import traceback
from pathlib import Path


def dump_def(d):
    fields = []
    for f in d.fields:
        to = f.type_obj
        fields.append(dict(name=f.name, type_name=f.type_name, length=f.length, offset=f.offset,
                           size=f.size, base_size=f.base_size, alignment=f.alignment,
                           kind=type(to).__name__))
    out = dict(name=d.name, size=d.size, alignment=d.alignment, fields=fields, raw=d.raw, hash=d.hash,
               src=str(d.src))
    if hasattr(d, "type_id"):
        out["type_id"] = d.type_id
    return out


C_PRELUDE = """
#include <stdint.h>
#include <stddef.h>
#include <stdio.h>
typedef int16_t MODULE_ID; typedef int16_t HOST_ID; typedef int32_t MSG_TYPE; typedef int32_t MSG_COUNT;
typedef struct { MSG_TYPE msg_type; MSG_COUNT msg_count; double send_time; double recv_time; HOST_ID src_host_id;
 MODULE_ID src_mod_id; HOST_ID dest_host_id; MODULE_ID dest_mod_id; int32_t num_data_bytes; int32_t remaining_bytes;
 int32_t is_dynamic; uint32_t reserved; } RTMA_MSG_HEADER;
"""


def c_probe(header_path: Path, defs, workdir: Path, cc: str = "gcc"):
    """compile a probe printing sizeof/_Alignof/offsetof for each struct in defs
    defs: list of (c_name, [field names])"""
    lines = [C_PRELUDE, f'#include "{header_path.name}"', "int main(void){"]
    for cname, fnames in defs:
        lines.append(f'printf("S %s %zu %zu\\n", "{cname}", sizeof({cname}), _Alignof({cname}));')
        for fn in fnames:
            lines.append(f'printf("F %s %s %zu\\n", "{cname}", "{fn}", offsetof({cname}, {fn}));')
    lines.append("return 0;}")
    src = workdir / "probe.c"
    src.write_text("\n".join(lines))
    exe = workdir / "probe"
    p = subprocess.run([cc, "-std=gnu11", "-w", "-I", str(header_path.parent), str(src), "-o", str(exe)],
                       capture_output=True, text=True)
    if p.returncode != 0:
        return dict(error=p.stderr[-2000:])
    o = subprocess.run([str(exe)], capture_output=True, text=True).stdout
    res = {}
    for ln in o.splitlines():
        t = ln.split()
        if t[0] == "S":
            res[t[1]] = dict(size=int(t[2]), align=int(t[3]), offs={})
        else:
            res[t[1]]["offs"][t[2]] = int(t[3])
    return res


def run_case(case):
    from pyrtma.parser import Parser  # imported here: /repo's current tree
    import pyrtma.parser as P
    d = Path(tempfile.mkdtemp(prefix="vdefs_"))
    cwd = os.getcwd()
    res = dict(ok=False, exc=None, msg="", structs=[], messages=[], outputs={}, probe=None,
               constants={}, aliases={}, host_ids={}, module_ids={}, message_ids={})
    try:
        for rel, text in case["files"].items():
            p = d / rel
            p.parent.mkdir(parents=True, exist_ok=True)
            p.write_text(text)
        for link, target in case.get("symlinks", {}).items():
            p = d / link
            p.parent.mkdir(parents=True, exist_ok=True)
            os.symlink(target, p)
        root = d / case["root"]
        if case.get("cwd"):
            os.chdir(d / case["cwd"])
        parser = Parser(validate_alignment=case.get("validate_alignment", True),
                        auto_pad=case.get("auto_pad", True),
                        import_coredefs=case.get("import_coredefs", False))
        for h in list(parser.logger.handlers):
            parser.logger.removeHandler(h)
        parser.logger.addHandler(logging.NullHandler())
        try:
            with contextlib.redirect_stdout(io.StringIO()), contextlib.redirect_stderr(io.StringIO()):
                parser.parse(root)
        except BaseException as e:  # noqa
            res["exc"] = type(e).__name__
            res["is_parser_error"] = isinstance(e, P.ParserError)
            res["msg"] = str(e)[:300]
            return res
        res["ok"] = True
        res["structs"] = [dump_def(s) for s in parser.struct_defs.values()]
        res["messages"] = [dump_def(m) for m in parser.message_defs.values()]
        res["constants"] = {k: (v.value if not isinstance(v.value, float) else repr(v.value))
                            for k, v in parser.constants.items()}
        res["string_constants"] = {k: v.value for k, v in parser.string_constants.items()}
        res["aliases"] = {k: v.type_name for k, v in parser.aliases.items()}
        res["host_ids"] = {k: v.value for k, v in parser.host_ids.items()}
        res["module_ids"] = {k: v.value for k, v in parser.module_ids.items()}
        res["message_ids"] = {k: v.value for k, v in parser.message_ids.items()}
        res["included"] = [os.path.relpath(str(p), str(d.resolve())) for p in parser.included_files]
        emit = case.get("emit", [])
        if emit:
            out = d / "_out"
            out.mkdir()
            from pyrtma.compilers.c99 import CDefCompiler
            from pyrtma.compilers.javascript import JSDefCompiler
            from pyrtma.compilers.matlab import MatlabDefCompiler
            from pyrtma.compilers.python import PyDefCompiler
            from pyrtma.compilers.yaml import YAMLCompiler
            gens = dict(python=(lambda: PyDefCompiler(parser), "gen.py"),
                        javascript=(lambda: JSDefCompiler(parser), "gen.js"),
                        matlab=(lambda: MatlabDefCompiler(parser), "gen.m"),
                        c=(lambda: CDefCompiler(parser, filename="gen"), "gen.h"),
                        combined=(lambda: YAMLCompiler(parser, filename="gen"), "gen_combined.yaml"))
            for lang in emit:
                mk, fname = gens[lang]
                try:
                    with contextlib.redirect_stdout(io.StringIO()), contextlib.redirect_stderr(io.StringIO()):
                        mk().generate(out / fname)
                    res["outputs"][lang] = (out / fname).read_text()
                except BaseException as e:  # noqa
                    res["outputs"][lang] = None
                    res.setdefault("emit_exc", {})[lang] = f"{type(e).__name__}: {str(e)[:200]}"
            if case.get("probe_c") and res["outputs"].get("c"):
                defs = []
                for s in parser.struct_defs.values():
                    if s.src.parent.stem != "core_defs":
                        defs.append((s.name, [f.name for f in s.fields]))
                for m in parser.message_defs.values():
                    if m.src.parent.stem != "core_defs" and m.fields:
                        defs.append(("MDF_" + m.name, [f.name for f in m.fields]))
                res["probe"] = c_probe(out / "gen.h", defs, out, cc=case.get("cc", "gcc"))
        return res
    except BaseException as e:  # harness-level failure
        res["exc"] = "HARNESS:" + type(e).__name__
        res["msg"] = traceback.format_exc()[-800:]
        return res
    finally:
        os.chdir(cwd)
        shutil.rmtree(d, ignore_errors=True)


def main():
    cases = json.load(sys.stdin)
    real_stdout = sys.stdout
    out = []
    for c in cases:
        out.append(run_case(c))
    json.dump(out, real_stdout)


if __name__ == "__main__":
    main()
