"""Entry point: python -m vlib.main Cxx [--tier quick|thorough] [--replay file]"""
import argparse
import importlib
import os
import sys
import traceback

from .framework import Check


def main() -> int:
    ap = argparse.ArgumentParser()
    ap.add_argument("pid")
    ap.add_argument("--tier", default=os.environ.get("VERIF_TIER", "quick"), choices=["quick", "thorough"])
    ap.add_argument("--replay", default=None)
    args = ap.parse_args()
    seed = int(os.environ.get("VERIF_SEED", "20260930"))
    try:
        mod = importlib.import_module(f"vlib.props.{args.pid}")
    except ModuleNotFoundError:
        print(f"no check registered for {args.pid}")
        return 2
    if args.replay:
        return mod.replay(args.replay)
    chk = Check(args.pid, args.tier, seed)
    try:
        mod.run(chk)
    except Exception as e:  # a harness crash is a broken tie, never a pass
        traceback.print_exc()
        chk.broken_obligation(f"harness error: {type(e).__name__}: {e}")
    return chk.finish()


if __name__ == "__main__":
    sys.exit(main())
