"""Helpers shared by C04 / C15 / C16 (definition compiler: emission, loading, combined YAML).

* closure DSL (python data) -> YAML files for the real compiler, and -> Coq term for Model/Emit.v
* pool runner for vlib/defs_emit_worker.py (real pyrtma.compile.compile + real loaders)
* static readers of the four generated texts (.py via ast, .h/.js/.m line oriented): ordered
  definition/use events, signatures (ids, hashes, constants, per-struct field tables)
"""
from __future__ import annotations

import ast
import json
import os
import re
import subprocess
from concurrent.futures import ThreadPoolExecutor
from pathlib import Path
from typing import Dict, List, Optional, Tuple

from .framework import VERIF, PY, NCPU, impl_env
from .translate import tables as T

# ----------------------------------------------------------------------------------------------
# closure DSL
#   closure = {"files": [file...], "auto_pad": bool, "import_coredefs": bool, "tag": str}   files[0] = root
#   file    = {"path": "sub/a.yaml", "imports": [file index...], "items": [item...],
#              "options": {"IMPORT_COREDEFS"|"VALIDATE_ALIGNMENT"|"AUTO_PAD": bool}   (optional `compiler_options:` section;
#                          the compiler honours the ROOT file's section only)}
#   item    = ("const", name, expr) | ("str", name, value) | ("alias", name, target) | ("hid", name, v)
#           | ("mid", name, v) | ("struct", name, body) | ("msg", name, id, body|None) | ("reserved", [id...])
#   body    = ("fields", [(fname, type_text, expr|None)...]) | ("reuse", name)
#   expr    = ("lit", n) | ("ref", name) | ("add"|"sub"|"mul", e1, e2) | ("div", e, d)   (the model's grammar;
#             ("div", e, d) is the TRUE division `e / d` by a positive integer literal: the value is a float)
#           | ("raw", text)                                              (implementation only)
# ----------------------------------------------------------------------------------------------

SECTION_OF = {"const": "constants", "str": "string_constants", "alias": "aliases", "hid": "host_ids",
              "mid": "module_ids", "struct": "struct_defs", "msg": "message_defs", "reserved": "message_defs"}
SECTION_ORDER = ["constants", "string_constants", "aliases", "host_ids", "module_ids", "struct_defs", "message_defs"]
OPS = {"add": "+", "sub": "-", "mul": "*"}


def expr_text(e, top=True) -> str:
    k = e[0]
    if k == "lit":
        return str(e[1])
    if k == "ref":
        return e[1]
    if k == "raw":
        return e[1]
    if k == "div":
        s = f"{expr_text(e[1], False)} / {e[2]}"
        return s if top else f"({s})"
    s = f"{expr_text(e[1], False)} {OPS[k]} {expr_text(e[2], False)}"
    return s if top else f"({s})"


def expr_model_ok(e) -> bool:
    if e is None:
        return True
    if e[0] in ("lit", "ref"):
        return True
    if e[0] == "raw":
        return False
    if e[0] == "div":
        # Model/Emit.v computes with exact rationals: that IS the float arithmetic of the implementation when every
        # intermediate value is a small dyadic rational, i.e. for divisors that are powers of two
        return isinstance(e[2], int) and e[2] in (1, 2, 4, 8, 16, 32, 64) and expr_model_ok(e[1])
    return expr_model_ok(e[1]) and expr_model_ok(e[2])


def expr_eval(e, consts: Dict[str, int]):
    """the value Python gives the expression: an int, or a float as soon as a true division takes part"""
    k = e[0]
    if k == "lit":
        return e[1]
    if k == "ref":
        return consts[e[1]]
    if k == "div":
        return expr_eval(e[1], consts) / e[2]
    if k == "raw":
        return eval(re.sub(r"\b([A-Za-z_]\w*)\b", lambda m: str(consts[m.group(1)]), e[1]))
    a, b = expr_eval(e[1], consts), expr_eval(e[2], consts)
    return a + b if k == "add" else a - b if k == "sub" else a * b


def effective_options(cl) -> Dict[str, bool]:
    """the options a compile of this closure runs with (pyrtma.compile.main): the root file's compiler_options section
    over the defaults, the closure's auto_pad / import_coredefs acting like the command line flags (switch off only)"""
    ro = cl["files"][0].get("options") or {}
    return dict(AUTO_PAD=bool(cl.get("auto_pad", True) and ro.get("AUTO_PAD", True)),
                IMPORT_COREDEFS=bool(cl.get("import_coredefs", False) and ro.get("IMPORT_COREDEFS", True)),
                VALIDATE_ALIGNMENT=bool(ro.get("VALIDATE_ALIGNMENT", True)))


def coq_ap(cl) -> str:
    return "true" if effective_options(cl)["AUTO_PAD"] else "false"


def closure_model_ok(cl) -> bool:
    # Model/Emit.v has no notion of options: the root's AUTO_PAD is its `ap` argument, imported files' sections are ignored
    # (as the compiler does), alignment validation is always on and the core definitions are never imported
    eo = effective_options(cl)
    if not eo["VALIDATE_ALIGNMENT"] or eo["IMPORT_COREDEFS"]:
        return False
    for f in cl["files"]:
        for it in f["items"]:
            if it[0] == "const" and not expr_model_ok(it[2]):
                return False
            if it[0] in ("struct", "msg"):
                b = it[2] if it[0] == "struct" else it[3]
                if b and b[0] == "fields":
                    for _, _, ln in b[1]:
                        if not expr_model_ok(ln):
                            return False
    return True


def _body_yaml(b, ind: str) -> List[str]:
    if b is None:
        return [f"{ind}fields: null"]
    if b[0] == "reuse":
        return [f"{ind}fields: {b[1]}"]
    if not b[1]:
        return [f"{ind}fields: {{}}"]
    out = [f"{ind}fields:"]
    for fn, ty, ln in b[1]:
        out.append(f"{ind}  {fn}: {ty}" + (f"[{expr_text(ln)}]" if ln is not None else ""))
    return out


def file_yaml(cl, k: int) -> str:
    f = cl["files"][k]
    if f.get("text") is not None and not f.get("imports") and not f["items"]:
        return f["text"]               # a file without sections, given literally (comments only)
    here = os.path.dirname(f["path"])
    lines: List[str] = []
    if f.get("options"):
        lines.append("compiler_options:")
        for k2, v2 in f["options"].items():
            lines.append(f"  {k2}: {'true' if v2 else 'false'}")
    if f.get("imports"):
        lines.append("imports:")
        for j in f["imports"]:
            lines.append("  - " + os.path.relpath(cl["files"][j]["path"], here or "."))
    for sec in SECTION_ORDER if not f.get("shuffled_sections") else f["shuffled_sections"]:
        its = [it for it in f["items"] if SECTION_OF[it[0]] == sec]
        if not its:
            continue
        lines.append(f"{sec}:")
        for it in its:
            k0 = it[0]
            if k0 == "const":
                lines.append(f"  {it[1]}: {expr_text(it[2])}")
            elif k0 == "str":
                lines.append(f'  {it[1]}: "{it[2]}"')
            elif k0 == "alias":
                lines.append(f"  {it[1]}: {it[2]}")
            elif k0 in ("hid", "mid"):
                lines.append(f"  {it[1]}: {it[2]}")
            elif k0 == "struct":
                lines.append(f"  {it[1]}:")
                lines += _body_yaml(it[2], "    ")
            elif k0 == "msg":
                lines.append(f"  {it[1]}:")
                lines.append(f"    id: {it[2]}")
                lines += _body_yaml(it[3], "    ")
            elif k0 == "reserved":
                lines.append("  _RESERVED_:")
                lines.append("    id: [" + ", ".join(str(x) if isinstance(x, int) else f"{x[0]} - {x[1]}" for x in it[1]) + "]")
    return "\n".join(lines) + "\n"


def closure_files(cl) -> Dict[str, str]:
    return {f["path"]: file_yaml(cl, k) for k, f in enumerate(cl["files"]) if not f.get("missing")}


def closure_case(cl, ops) -> dict:
    return dict(files=closure_files(cl), root=cl["files"][0]["path"], auto_pad=cl.get("auto_pad", True),
                import_coredefs=cl.get("import_coredefs", False), ops=list(ops))


# ---- Coq rendering -------------------------------------------------------------------------------

def cq(s: str) -> str:
    assert '"' not in s and all(32 <= ord(c) < 127 for c in s), s
    return '"' + s + '"'


def cz(n: int) -> str:
    return f"({n})" if n < 0 else str(n)


def expr_coq(e) -> str:
    k = e[0]
    if k == "lit":
        return f"(CLit {cz(e[1])})"
    if k == "ref":
        return f"(CRef {cq(e[1])})"
    if k == "div":
        return f"(CDiv {expr_coq(e[1])} {int(e[2])}%positive)"
    c = {"add": "CAdd", "sub": "CSub", "mul": "CMul"}[k]
    return f"({c} {expr_coq(e[1])} {expr_coq(e[2])})"


def body_coq(b) -> str:
    if b[0] == "reuse":
        return f"(BReuse {cq(b[1])})"
    fs = "; ".join(f"mkFd {cq(fn)} {cq(ty)} " + ("None" if ln is None else f"(Some {expr_coq(ln)})") for fn, ty, ln in b[1])
    return f"(BFields [{fs}])"


def reserved_ids(spec) -> List[int]:
    out: List[int] = []
    for x in spec:
        if isinstance(x, int):
            out.append(x)
        else:
            out += list(range(x[0], x[1] + 1))
    return out


def item_coq(it) -> str:
    k = it[0]
    if k == "const":
        return f"IConst {cq(it[1])} {expr_coq(it[2])}"
    if k == "str":
        return f"IStr {cq(it[1])} {cq(it[2])}"
    if k == "alias":
        return f"IAlias {cq(it[1])} {cq(it[2])}"
    if k == "hid":
        return f"IHid {cq(it[1])} {cz(it[2])}"
    if k == "mid":
        return f"IMid {cq(it[1])} {cz(it[2])}"
    if k == "struct":
        return f"IStruct {cq(it[1])} {body_coq(it[2])}"
    if k == "msg":
        return f"IMsg {cq(it[1])} {cz(it[2])} " + ("None" if it[3] is None else f"(Some {body_coq(it[3])})")
    if k == "reserved":
        return "IReserved [" + "; ".join(cz(i) for i in reserved_ids(it[1])) + "]"
    raise ValueError(k)


def closure_coq(cl) -> str:
    fs = []
    for f in cl["files"]:
        if f.get("missing"):
            break                      # missing files are always last: nth_error gives None
        imps = "; ".join(str(i) for i in f.get("imports", []))
        its = "; ".join(item_coq(it) for it in f["items"])
        fs.append(f"mkFile [{imps}]%nat [{its}]")
    return "[" + ";\n  ".join(fs) + "]"


# ---- running the real compiler --------------------------------------------------------------------

HANG_RESULT = dict(ok=False, exc="HANG", hang="worker", is_parser_error=False, model=None, compile_exc=None, outputs={},
                   separate={}, load={}, rt=None, det=None)


def _run_worker(ch: List[dict], timeout: float):
    """one worker process over a list of cases; None if it did not finish in time (the process is killed)"""
    try:
        p = subprocess.run([PY, str(VERIF / "vlib" / "defs_emit_worker.py")], input=json.dumps(ch),
                           capture_output=True, text=True, env=impl_env(), timeout=timeout, cwd="/")
    except subprocess.TimeoutExpired:
        return None
    if p.returncode != 0:
        raise RuntimeError("defs_emit_worker failed: " + p.stderr[-1500:])
    return json.loads(p.stdout)


def run_emit(cases: List[dict], nproc: int = NCPU, timeout: int = 2400, per_case: float = 300.0) -> List[dict]:
    """The real compiler + loaders on every case.  Nothing here can run for ever: each stage of a case has a watchdog
    inside the worker (defs_emit_worker.py: parse / compile / re-parse by SIGALRM, loaders by subprocess timeout) and
    reports exc="HANG" with the stage; should a worker process still not come back (a loop the alarm cannot
    interrupt), it is killed after its budget and its cases are re-run one by one, each in its own process with a
    hard timeout - the case that does not come back is reported as exc="HANG", hang="worker"."""
    if not cases:
        return []
    nproc = max(1, min(nproc, len(cases)))
    chunks = [cases[i::nproc] for i in range(nproc)]

    def work(ch):
        budget = min(float(timeout), 240.0 + 25.0 * len(ch))
        r = _run_worker(ch, budget)
        if r is not None:
            return r
        out = []
        for c in ch:                       # isolate the case(s) that do not terminate
            r1 = _run_worker([c], per_case)
            out.append(r1[0] if r1 is not None else dict(HANG_RESULT, msg=f"the worker did not come back within {per_case:g} s "
                                                                         "(no stage watchdog fired: a loop outside the Python interpreter)"))
        return out

    with ThreadPoolExecutor(nproc) as ex:
        rs = list(ex.map(work, chunks))
    out: List[Optional[dict]] = [None] * len(cases)
    for k, r in enumerate(rs):
        for j, x in enumerate(r):
            out[k + j * nproc] = x
    return out  # type: ignore


# ----------------------------------------------------------------------------------------------
# static readers of the generated texts
#   events: [tag, ns, name]  tag 0 Def / 1 Use ; ns 0 alias, 1 struct, 2 message, 3 container (JS)
#   field class: ("n", width, kind) | ("s", struct name) | ("m", message name) | ("?", text)
# ----------------------------------------------------------------------------------------------

KIND = T.KIND_CODE  # s 0, u 1, f 2, c 3


def _cls(tbl, key):
    w, k = tbl[key]
    return ("n", w, KIND[k])


def _ns_of(name: str, names: dict, mdf_prefix: bool = False) -> Tuple[int, str]:
    if mdf_prefix and name.startswith("MDF_"):
        return 2, name[4:]
    if name in names["aliases"]:
        return 0, name
    if name in names["structs"]:
        return 1, name
    if name in names["msgs"] and not mdf_prefix:
        return 2, name
    return 1, name


def names_of_model(model: dict) -> dict:
    return dict(aliases={a[0] for a in model["aliases"]}, structs={s["name"] for s in model["structs"]},
                msgs={m["name"] for m in model["messages"]})


PY_HEADERS = {"# Constants": "constants", "# String Constants": "strings", "# Type Aliases": "aliases",
              "# Host IDs": "hids", "# Module IDs": "mids", "# Message Type IDs": "mts",
              "# Struct Definitions": "structs", "# Message Definitions": "msgs", "# User Context": "ctx"}


def read_py(text: str, names: dict) -> dict:
    out = dict(events=[], constants=[], strings=[], hids=[], mids=[], mts=[], aliases=[], defs=[], errors=[])
    try:
        tree = ast.parse(text)
    except SyntaxError as e:
        out["errors"].append(f"SyntaxError: {e}")
        return out
    heads = []
    for i, ln in enumerate(text.splitlines(), start=1):
        if ln.strip() in PY_HEADERS:
            heads.append((i, PY_HEADERS[ln.strip()]))

    def section(lineno):
        s = "pre"
        for i, h in heads:
            if i <= lineno:
                s = h
        return s

    def const_val(v):
        try:
            return ast.literal_eval(v)
        except Exception:
            return ast.unparse(v)

    for node in tree.body:
        sec = section(node.lineno)
        if isinstance(node, ast.AnnAssign) and isinstance(node.target, ast.Name) and node.value is not None:
            nm, val = node.target.id, const_val(node.value)
            if sec in ("constants", "strings", "hids", "mids", "mts"):
                out[sec].append([nm, val])
        elif isinstance(node, ast.Assign) and sec == "aliases" and len(node.targets) == 1 and isinstance(node.targets[0], ast.Name):
            nm = node.targets[0].id
            v = node.value
            if isinstance(v, ast.Attribute) and isinstance(v.value, ast.Name) and v.value.id == "ctypes":
                w, k = T.CTYPES_WIDTH.get(v.attr, (0, "s"))
                out["aliases"].append([nm, ("n", w, KIND[k])])
                out["events"].append([0, 0, nm])
            elif isinstance(v, ast.Name):
                ns, n2 = _ns_of(v.id, names, True)
                out["aliases"].append([nm, ("s" if ns == 1 else "m" if ns == 2 else "a", n2)])
                out["events"].append([1, ns, n2])
                out["events"].append([0, 0, nm])
            else:
                out["errors"].append(f"alias {nm}: unreadable right-hand side")
        elif isinstance(node, ast.ClassDef):
            ismsg = node.name.startswith("MDF_") and any(
                isinstance(d, ast.Attribute) and d.attr == "message_def" for d in node.decorator_list)
            d = dict(name=node.name[4:] if node.name.startswith("MDF_") else node.name, ismsg=ismsg, cname=node.name,
                     id=None, hash=None, size=None, fields=[], decorated=bool(node.decorator_list),
                     bases=[ast.unparse(b) for b in node.bases])
            for st in node.body:
                if not (isinstance(st, ast.AnnAssign) and isinstance(st.target, ast.Name)):
                    continue
                fn = st.target.id
                if fn in ("type_id", "type_hash", "type_size", "type_name", "type_source", "type_def"):
                    if fn == "type_id":
                        d["id"] = const_val(st.value)
                    elif fn == "type_hash":
                        d["hash"] = const_val(st.value)
                        d["hash_text"] = ast.get_source_segment(text, st.value)
                    elif fn == "type_size":
                        d["size"] = const_val(st.value)
                    elif fn == "type_name":
                        d["type_name"] = const_val(st.value)
                    continue
                v = st.value
                if not (isinstance(v, ast.Call) and isinstance(v.func, ast.Name)):
                    out["errors"].append(f"{node.name}.{fn}: unreadable descriptor")
                    continue
                f, args = v.func.id, v.args
                try:
                    if f in T.DESC_WIDTH and not args:
                        d["fields"].append([fn, _cls(T.DESC_WIDTH, f), 1])
                    elif f in ("IntArray", "FloatArray"):
                        d["fields"].append([fn, _cls(T.DESC_WIDTH, args[0].id), const_val(args[1])])
                    elif f == "String":
                        d["fields"].append([fn, _cls(T.DESC_WIDTH, "Char"), const_val(args[0])])
                    elif f == "ByteArray":
                        d["fields"].append([fn, _cls(T.DESC_WIDTH, "Byte"), const_val(args[0])])
                    elif f in ("Struct", "StructArray"):
                        ns, n2 = _ns_of(args[0].id, names, True)
                        out["events"].append([1, ns, n2])
                        d["fields"].append([fn, ("m" if ns == 2 else "s", n2), 1 if f == "Struct" else const_val(args[1])])
                    else:
                        out["errors"].append(f"{node.name}.{fn}: unknown descriptor {f}")
                except Exception as e:  # noqa
                    out["errors"].append(f"{node.name}.{fn}: {type(e).__name__}")
            out["events"].append([0, 2 if node.name.startswith("MDF_") else 1, d["name"]])
            out["defs"].append(d)
    return out


C_HEADERS = {"// Constants": "constants", "// String Constants": "strings", "// Type Aliases": "aliases",
             "// Host IDs": "hids", "// Module IDs": "mids", "// Message Type IDs": "mts",
             "// Struct Definitions": "structs", "// Message Definitions": "msgs",
             "// Message Definition Hashes": "hashes"}


def read_c(text: str, names: dict) -> dict:
    out = dict(events=[], constants=[], strings=[], hids=[], mids=[], mts=[], aliases=[], defs=[], hashes=[], errors=[])
    sec = "pre"
    cur = None
    typedefs: Dict[str, tuple] = {}
    for ln in text.splitlines():
        s = ln.strip()
        if s in C_HEADERS:
            sec = C_HEADERS[s]
            continue
        if not s or s.startswith("//") or s.startswith("#ifndef") or s.startswith("#include") or s.startswith("#endif"):
            continue
        m = re.match(r"#define\s+(\S+)(?:\s+(.*))?$", s)
        if m:
            nm, val = m.group(1), (m.group(2) or "").strip()
            if sec in ("constants", "strings", "hids", "mids", "mts", "hashes"):
                out[sec].append([nm, val])
            continue
        if s == "typedef struct {":
            cur = []
            continue
        if cur is not None:
            m = re.match(r"\}\s*(\w+);$", s)
            if m:
                cn = m.group(1)
                ismsg = cn.startswith("MDF_")
                nm = cn[4:] if ismsg else cn
                out["events"].append([0, 2 if ismsg else 1, nm])
                out["defs"].append(dict(name=nm, cname=cn, ismsg=ismsg, fields=cur, sec=sec))
                cur = None
                continue
            m = re.match(r"(.+?)\s+(\w+)(?:\[(-?\d+)\])?;$", s)
            if not m:
                out["errors"].append("unreadable field line: " + s)
                continue
            ty, fn, ln_ = m.group(1).strip(), m.group(2), m.group(3)
            if ty in T.C_WIDTH:
                cls = _cls(T.C_WIDTH, ty)
            else:
                ns, n2 = _ns_of(ty, names, True)
                out["events"].append([1, ns, n2])
                cls = typedefs.get(ty) if ns == 0 else ("m" if ns == 2 else "s", n2)
                if cls is None:
                    cls = ("?", ty)
            cur.append([fn, cls, int(ln_) if ln_ is not None else 1, ln_ is not None])
            continue
        m = re.match(r"typedef\s+(.+?)\s+(\w+);$", s)
        if m:
            ty, nm = m.group(1).strip(), m.group(2)
            if ty in T.C_WIDTH:
                typedefs[nm] = _cls(T.C_WIDTH, ty)
                out["aliases"].append([nm, typedefs[nm]])
                out["events"].append([0, 0, nm])
            else:
                ns, n2 = _ns_of(ty, names, True)
                typedefs[nm] = ("m" if ns == 2 else "s", n2) if ns != 0 else typedefs.get(ty, ("?", ty))
                out["aliases"].append([nm, typedefs[nm]])
                out["events"].append([1, ns, n2])
                out["events"].append([0, 0, nm])
            continue
        out["errors"].append("unreadable line: " + s)
    return out


JS_HEADERS = {"// Constants": "constants", "// String Constants": "strings", "// Type Aliases": "aliases",
              "// Host IDs": "hids", "// Module IDs": "mids", "// Message Type IDs": "mts",
              "// Struct Definitions": "structs", "// Message Definitions": "msgs",
              "// Message Definition Hashes": "hashes", "// Type Map Default Values": "typemap",
              "// Top-Level RTMA object": "top"}


def _js_callee(txt: str, names: dict, aliases: dict):
    m = re.fullmatch(r"type_map\.(\w+)", txt)
    if m:
        return ("t", m.group(1)), ("n", 0, 3 if m.group(1) in ("char", "string") else 0)
    m = re.fullmatch(r"RTMA\.aliases\.(\w+)", txt)
    if m:
        return ("a", m.group(1)), aliases.get(m.group(1), ("?", txt))
    m = re.fullmatch(r"RTMA\.SDF\.(\w+)", txt)
    if m:
        return ("s", m.group(1)), ("s", m.group(1))
    m = re.fullmatch(r"RTMA\.MDF\.(\w+)", txt)
    if m:
        return ("m", m.group(1)), ("m", m.group(1))
    return ("?", txt), ("?", txt)


def read_js(text: str, names: dict) -> dict:
    out = dict(events=[], constants=[], strings=[], hids=[], mids=[], mts=[], aliases=[], defs=[], hashes=[],
               errors=[], typemap=[])
    sec = "pre"
    cur = None
    aliases: Dict[str, tuple] = {}
    for ln in text.splitlines():
        s = ln.strip()
        if s in JS_HEADERS:
            sec = JS_HEADERS[s]
            continue
        if not s or s.startswith("//") or s.startswith("export") or s.startswith("const type_map") or s.startswith("const RTMA"):
            continue
        if cur is not None:
            if s in ("return {", "}"):
                continue
            if s == "};":
                out["defs"].append(cur)
                cur = None
                continue
            m = re.fullmatch(r"(\w+): (.+?),?", s)
            if not m:
                out["errors"].append("unreadable factory line: " + s)
                continue
            fn, rhs = m.group(1), m.group(2)
            m2 = re.fullmatch(r"type_map\.string\((-?\d+)\)", rhs)
            m3 = re.fullmatch(r"Array\.from\(\{length: (-?\d+)\}, \(\) => (.+)\(\)\)", rhs) or \
                re.fullmatch(r"Array\((-?\d+)\)\.fill\((.+)\(\)\)", rhs)
            m4 = re.fullmatch(r"(.+)\(\)", rhs)
            if m2:
                cur["fields"].append([fn, ("n", 0, 3), int(m2.group(1)), "string", None])
            elif m3:
                cal, cls = _js_callee(m3.group(2), names, aliases)
                cur["fields"].append([fn, cls, int(m3.group(1)), "fill", cal])
            elif m4:
                cal, cls = _js_callee(m4.group(1), names, aliases)
                cur["fields"].append([fn, cls, 1, "scalar", cal])
            else:
                out["errors"].append("unreadable factory field: " + s)
            continue
        m = re.fullmatch(r"type_map\.(\w+) = \((\w*)\) => (.+);", s)
        if m and sec == "typemap":
            out["typemap"].append([m.group(1), m.group(3)])
            continue
        m = re.fullmatch(r"RTMA\.(\w+) =\s+\{\};", s)
        if m:
            if m.group(1) != "constants":
                out["events"].append([0, 3, m.group(1)])
            continue
        if s.startswith("RTMA.COMPILED_PYRTMA_VERSION"):
            continue
        m = re.fullmatch(r"RTMA\.(SDF|MDF)\.(\w+) = \(\) => \{ return \{\} \};", s)
        if m:
            out["events"].append([0, 1 if m.group(1) == "SDF" else 2, m.group(2)])
            out["defs"].append(dict(name=m.group(2), ismsg=m.group(1) == "MDF", fields=[]))
            continue
        m = re.fullmatch(r"RTMA\.(SDF|MDF)\.(\w+) = \(\) => \{", s)
        if m:
            out["events"].append([0, 1 if m.group(1) == "SDF" else 2, m.group(2)])
            cur = dict(name=m.group(2), ismsg=m.group(1) == "MDF", fields=[])
            continue
        m = re.fullmatch(r"RTMA\.aliases\.(\w+) = type_map\.(\w+)(\(\))?;", s)
        if m:
            aliases[m.group(1)] = ("n", 0, 3 if m.group(2) in ("char", "string") else 0)
            out["aliases"].append([m.group(1), aliases[m.group(1)]])
            out["events"].append([0, 0, m.group(1)])
            continue
        m = re.fullmatch(r"RTMA\.(SDF|MDF|aliases)\.(\w+) = RTMA\.(SDF|MDF|aliases)\.(\w+);", s)
        if m and sec == "aliases":
            out["events"].append([1, 3, m.group(3)])
            out["events"].append([0, {"SDF": 1, "MDF": 2, "aliases": 0}[m.group(1)], m.group(2)])
            out["aliases"].append([m.group(2), ("s" if m.group(3) == "SDF" else "m" if m.group(3) == "MDF" else "a", m.group(4))])
            aliases[m.group(2)] = ("s" if m.group(3) == "SDF" else "m", m.group(4)) if m.group(3) != "aliases" else aliases.get(m.group(4), ("?", m.group(4)))
            continue
        m = re.fullmatch(r"RTMA\.(constants|HID|MID|MT|HASH)\.(\w+) = (.+);", s)
        if m:
            key = {"constants": "constants" if sec != "strings" else "strings", "HID": "hids", "MID": "mids", "MT": "mts",
                   "HASH": "hashes"}[m.group(1)]
            out[key].append([m.group(2), m.group(3)])
            continue
        out["errors"].append("unreadable line: " + s)
    return out


M_HEADERS = {"% Constants": "constants", "% String Constants": "strings", "% Type Aliases": "aliases",
             "% Host IDs": "hids", "% Module IDs": "mids", "% Message Type IDs": "mts",
             "% Struct Definitions": "structs", "% Message Definitions": "msgs",
             "% Message Definition Hashes": "hashes", "% Top-Level RTMA object": "top",
             "% Manual Definitions - obsolete core defs": "manual", "% add _by_MT arrays": "bymt"}


def m_sanitize(name: str) -> str:
    name = name.lstrip("_0123456789")
    return "".join(c for c in name if c.isalnum() or c == "_")


def read_m(text: str, names: dict) -> dict:
    """Line-oriented reader of the generated MATLAB assignments.  Also the MATLAB 'loader': `ubd` lists every
    RTMA.a.b read on a right-hand side before any assignment to it."""
    out = dict(events=[], constants=[], strings=[], hids=[], mids=[], mts=[], aliases=[], defs=[], hashes=[],
               errors=[], ubd=[])
    sec = "pre"
    assigned = set()
    typedefs: Dict[str, tuple] = {}
    cur = None
    snames = dict(aliases={m_sanitize(n): n for n in names["aliases"]}, structs={m_sanitize(n): n for n in names["structs"]},
                  msgs={m_sanitize(n): n for n in names["msgs"]})

    def ref(txt):
        m = re.fullmatch(r"RTMA\.(typedefs|MDF)\.(\w+)", txt)
        if not m:
            return None
        path = f"{m.group(1)}.{m.group(2)}"
        if path not in assigned:
            out["ubd"].append(path)
        if m.group(1) == "MDF":
            out["events"].append([1, 2, m.group(2)])
            return ("m", m.group(2))
        n = m.group(2)
        if n in names["aliases"]:
            out["events"].append([1, 0, n])
            return typedefs.get(n, ("?", n))
        out["events"].append([1, 1, n])
        return ("s", n)

    def rhs_cls(txt):
        m = re.fullmatch(r"(\w+)\(0\)", txt)
        if m and m.group(1) in T.MATLAB_WIDTH:
            return _cls(T.MATLAB_WIDTH, m.group(1))
        r = ref(txt)
        return r if r is not None else ("?", txt)

    for ln in text.splitlines():
        s = ln.strip()
        if s in M_HEADERS:
            sec = M_HEADERS[s]
            continue
        if not s or s.startswith("%") or s == "end" or sec in ("pre", "top", "bymt", "manual"):
            continue
        m = re.fullmatch(r"RTMA\.MESSAGE_HEADER = (RTMA\.typedefs\.\w+);", s)
        if m:
            ref(m.group(1))
            continue
        if s.startswith("RTMA.mex_opcode.") or s.startswith("RTMA.vars"):
            continue
        m = re.fullmatch(r"RTMA\.(defines|HID|MID|MT|hash)\.(\w+) = (.+);", s)
        if m:
            key = {"defines": "constants" if sec != "strings" else "strings", "HID": "hids", "MID": "mids", "MT": "mts",
                   "hash": "hashes"}[m.group(1)]
            out[key].append([m.group(2), m.group(3)])
            continue
        m = re.fullmatch(r"RTMA\.(typedefs|MDF)\.(\w+) = struct\(\);", s)
        if m:
            ismsg = m.group(1) == "MDF"
            nm = (snames["msgs"] if ismsg else snames["structs"]).get(m.group(2), m.group(2))
            cur = dict(name=nm, mname=m.group(2), ismsg=ismsg, fields=[])
            out["defs"].append(cur)
            out["events"].append([0, 2 if ismsg else 1, nm])
            assigned.add(f"{m.group(1)}.{m.group(2)}")
            continue
        m = re.fullmatch(r"RTMA\.(typedefs|MDF)\.(\w+)\.(\w+) = (.+);", s)
        if m and cur is not None and cur["mname"] == m.group(2):
            rhs = m.group(4)
            m2 = re.fullmatch(r"repmat\((.+), 1, (-?\d+)\)", rhs)
            if m2:
                cur["fields"].append([m.group(3), rhs_cls(m2.group(1)), int(m2.group(2)), True])
            else:
                cur["fields"].append([m.group(3), rhs_cls(rhs), 1, False])
            continue
        m = re.fullmatch(r"RTMA\.(typedefs|MDF)\.(\w+) = (.+);", s)
        if m and sec == "aliases":
            rhs = m.group(3)
            c = rhs_cls(rhs)
            nm = snames["aliases"].get(m.group(2), m.group(2))
            typedefs[nm] = c
            out["aliases"].append([nm, c])
            out["events"].append([0, 0, nm])
            assigned.add(f"{m.group(1)}.{m.group(2)}")
            continue
        out["errors"].append("unreadable line: " + s)
    return out


# ----------------------------------------------------------------------------------------------
# observation of one implementation run, in the shape Model/Emit.v produces (for vm_compute comparison)
# ----------------------------------------------------------------------------------------------

EXC_CODE = {"RTMASyntaxError": 10, "ExpressionExpansionError": 11, "AlignmentError": 12, "InvalidMessageSize": 13,
            "AssertionError": 14, "FileNotFoundError": 15, "DuplicateNameError": 16, "KeyError": 1, "TypeError": 2,
            "ValueError": 6, "RuntimeError": 4, "AttributeError": 5}

COQ_HEADER = """From Coq Require Import ZArith List Bool String.
From Defs Require Import Gen.TypeTables Model.Layout Model.Emit.
Import ListNotations. Open Scope string_scope. Open Scope list_scope. Open Scope Z_scope.
Fixpoint zl_eqb (a b : list Z) : bool :=
  match a, b with [], [] => true | x :: r, y :: s => (x =? y) && zl_eqb r s | _, _ => false end.
Fixpoint sl_eqb (a b : list string) : bool :=
  match a, b with [], [] => true | x :: r, y :: s => String.eqb x y && sl_eqb r s | _, _ => false end.
Fixpoint el_eqb (a b : list (Z * Z * string)) : bool :=
  match a, b with
  | [], [] => true
  | (t1, n1, s1) :: r, (t2, n2, s2) :: s => (t1 =? t2) && (n1 =? n2) && String.eqb s1 s2 && el_eqb r s
  | _, _ => false end.
Definition norm_code (k : Z) : Z := if k =? 3 then 14 else k.
Definition verdicts' (st : pstate) : list Z :=
  if js_import_ok st then verdicts st else firstn 4 (verdicts st).
Definition X := (Z * list Z * list string * list (Z * Z * string) * list (Z * Z * string) * list (Z * Z * string)
                 * list (Z * Z * string) * list Z * list Z * list Z * list Z * list Z)%type.
(* which component differs: 0 none (agree) *)
Definition diff_case (c : bool * closure * X) : Z :=
  let '(ap, cl, (code, nums, names, epy, ec, em, ejs, vd, spy, sc, sjs, sm)) := c in
  match parse_closure ap cl with
  | POk st =>
    if negb (code =? 0) then 1
    else if negb (zl_eqb (flat_state st) nums) then 2
    else if negb (sl_eqb (names_state st) names) then 3
    else if negb (el_eqb (map flat_event (events_py st)) epy) then 4
    else if negb (el_eqb (map flat_event (events_c st)) ec) then 5
    else if negb (el_eqb (map flat_event (events_matlab st)) em) then 6
    else if negb (el_eqb (map flat_event (events_js_load st)) ejs) then 7
    else if negb (zl_eqb (verdicts' st) vd) then 8
    else if negb (zl_eqb (flat_sig (sig_py st)) spy) then 9
    else if negb (zl_eqb (flat_sig (sig_c st)) sc) then 10
    else if negb (zl_eqb (flat_sig (sig_js st)) sjs) then 11
    else if negb (zl_eqb (flat_sig (sig_matlab st)) sm) then 12
    else 0
  | r => if norm_code (code_of r) =? code then 0 else 1
  end.
Definition check_case (c : bool * closure * X) : bool := diff_case c =? 0.
"""


def _zl(ns) -> str:
    return "[" + "; ".join(cz(int(n)) for n in ns) + "]"


def _sl(ss) -> str:
    return "[" + "; ".join(cq(s) for s in ss) + "]"


def _el(es) -> str:
    return "[" + "; ".join(f"({cz(t)}, {cz(n)}, {cq(s)})" for t, n, s in es) + "]"


KINDCODE = {("NativeType", None): 0, ("TypeAlias", "NativeType"): 1, ("TypeAlias", "SDF"): 2, ("SDF", None): 3, ("MDF", None): 4}


def flat_model(model: dict) -> Tuple[List[int], List[str]]:
    nums: List[int] = []
    names: List[str] = []

    def fdef(d):
        out = [d.get("type_id", -1) if d.get("type_id") is not None else -1, d["size"], d["alignment"], len(d["fields"])]
        nm = [d["name"]]
        for f in d["fields"]:
            out += [-1 if f["length"] is None else f["length"], f["base_size"], f["alignment"], f["offset"],
                    KINDCODE.get((f["kind"], f["akind"]), 9)]
            nm += [f["name"], f["type_name"]]
        return out, nm
    for c in model["constants"]:          # (0, n, 1) for an int, (1, numerator, denominator) for a float (exact value)
        if c[2] == "int":
            nums += [0, int(c[1]), 1]
        elif c[2] == "float" and float(c[1]) == float(c[1]) and abs(float(c[1])) != float("inf"):
            a, b = float(c[1]).as_integer_ratio()
            nums += [1, a, b]
        else:
            nums += [9, 0, 1]
    names += [c[0] for c in model["constants"]]
    for k, v in model["string_constants"]:
        names += [k, v[1:-1] if len(v) >= 2 and v[0] == '"' else v]
    nums.append(-7)
    for a in model["aliases"]:
        nums += [a[3], a[4], 0 if a[2] == "NativeType" else 1]
        names += [a[0], a[1]]
    nums.append(-7)
    nums += [h[1] for h in model["host_ids"]]
    names += [h[0] for h in model["host_ids"]]
    nums.append(-7)
    nums += [h[1] for h in model["module_ids"]]
    names += [h[0] for h in model["module_ids"]]
    nums.append(-7)
    nums += [h[1] for h in model["message_ids"]]
    names += [h[0] for h in model["message_ids"]]
    nums.append(-7)
    for s in model["structs"]:
        a, b = fdef(s)
        nums += a
        names += b
    nums.append(-7)
    for m in model["messages"]:
        a, b = fdef(m)
        nums += a
        names += b
    return nums, names


def _cls_code(c) -> List[int]:
    if c[0] == "n":
        return [c[1], c[2]]
    if c[0] == "s":
        return [-1, -1]
    if c[0] == "m":
        return [-1, -2]
    return [-9, -9]


def flat_sig_of(reader: dict, model: dict, sanitize=None) -> List[int]:
    by = {d["name"]: d for d in reader["defs"]}
    out: List[int] = []
    for d in model["structs"] + model["messages"]:
        r = by.get(d["name"])
        if r is None:
            if d["fields"]:
                out += [-99]
        else:
            for f in r["fields"]:
                out += _cls_code(f[1]) + [f[2]]
        out.append(-7)
    return out


def m_loader_ok(rm: dict) -> bool:
    return not rm["ubd"] and not rm["errors"]


def observation(res: dict) -> Optional[dict]:
    """everything the Coq model predicts, as observed on the implementation"""
    if not res["ok"]:
        return dict(code=EXC_CODE.get(res["exc"], 99))
    model = res["model"]
    names = names_of_model(model)
    outs = res["outputs"]
    if any(outs.get(k) is None for k in ("python", "c", "javascript", "matlab")):
        return None
    rp, rc, rj, rm = read_py(outs["python"], names), read_c(outs["c"], names), read_js(outs["javascript"], names), \
        read_m(outs["matlab"], names)
    nums, nms = flat_model(model)
    L = res["load"]
    pyok = bool(L["py"]["ok"]) and all(c.get("registered", True) for c in L["py"]["classes"]) and \
        len(L["py"]["classes"]) == len(model["structs"]) + len(model["messages"])
    vd = [int(pyok), int(bool(L["c"]["ok"])), int(m_loader_ok(rm)), int(bool(L["js"]["ok"]))]
    if L["js"]["ok"]:
        for sec, key in (("SDF", "structs"), ("MDF", "messages")):
            for d in model[key]:
                f = L["js"][sec].get(d["name"])
                vd += [int(bool(f and f["ok"])), int(bool(f and f["ok"] and not f["shared"]))]
    return dict(code=0, nums=nums, names=nms, epy=rp["events"], ec=rc["events"], em=rm["events"], ejs=rj["events"], vd=vd,
                spy=flat_sig_of(rp, model), sc=flat_sig_of(rc, model), sjs=flat_sig_of(rj, model), sm=flat_sig_of(rm, model),
                readers=dict(py=rp, c=rc, js=rj, m=rm))


def coq_case(cl: dict, obs: dict) -> str:
    if obs["code"] != 0:
        e = "(@nil (Z * Z * string))"
        x = f"({obs['code']}, @nil Z, @nil string, {e}, {e}, {e}, {e}, @nil Z, @nil Z, @nil Z, @nil Z, @nil Z)"
    else:
        x = "(0, %s, %s, %s, %s, %s, %s, %s, %s, %s, %s, %s)" % (
            _zl(obs["nums"]), _sl(obs["names"]), _el(obs["epy"]), _el(obs["ec"]), _el(obs["em"]), _el(obs["ejs"]),
            _zl(obs["vd"]), _zl(obs["spy"]), _zl(obs["sc"]), _zl(obs["sjs"]), _zl(obs["sm"]))
    return f"({coq_ap(cl)}, {closure_coq(cl)}, {x})"


DIFF_NAMES = {1: "parse outcome (exception class)", 2: "parsed model numbers (ids, sizes, alignments, offsets, lengths)",
              3: "parsed model names / order", 4: "python emission events", 5: "C emission events",
              6: "matlab emission events", 7: "javascript load events", 8: "loader verdicts (model says loads <=> it loads)",
              9: "python field signature", 10: "C field signature", 11: "javascript field signature",
              12: "matlab field signature"}


# ----------------------------------------------------------------------------------------------
# generators
# ----------------------------------------------------------------------------------------------

def dfs_order(files: List[dict]) -> List[int]:
    """parse order of the files (imports first, visited list extended before following imports)"""
    vis: List[int] = []
    order: List[int] = []

    def go(k):
        if k in vis:
            return
        vis.append(k)
        for j in files[k].get("imports", []):
            go(j)
        order.append(k)
    go(0)
    return order


def F(*fs):
    return ("fields", list(fs))


PATHS = [["root.yaml"], ["root.yaml", "a.yaml"], ["root.yaml", "sub/a.yaml", "sub/b.yaml"],
         ["defs/root.yaml", "defs/inc/a.yaml", "common/b.yaml", "defs/inc/deep/c.yaml"],
         ["root.yaml", "x/a.yaml", "x/y/b.yaml", "z/c.yaml", "z/d.yaml"]]


def random_graph(rng, n: int) -> List[List[int]]:
    """imports of each file; every file reachable from 0; diamonds, repeats and cycles occur"""
    imps: List[List[int]] = [[] for _ in range(n)]
    for k in range(1, n):
        imps[rng.randrange(0, k)].append(k)
    for _ in range(rng.randint(0, n)):
        a, b = rng.randrange(n), rng.randrange(n)
        if a != b and b not in imps[a]:
            imps[a].append(b)          # may create a diamond or a cycle (cut by the visited list)
    if n > 1 and rng.random() < 0.2:
        k = rng.randrange(1, n)
        imps[k].append(k)              # self import
    for l in imps:
        rng.shuffle(l)
    return imps


def random_closure(rng, natives: List[str], knobs: dict, nfiles: Optional[int] = None, size: int = 3) -> dict:
    """A conflict-free closure over the documented constructs.  knobs (probabilities):
       alias_struct, struct_msg, alias_field, struct_array, hdr (define a user RTMA_MSG_HEADER), nopad"""
    n = nfiles or rng.choice([1, 1, 2, 2, 3, 3, 4])
    paths = list(rng.choice([p for p in PATHS if len(p) >= n]))[:n]
    imps = random_graph(rng, n)
    files = [dict(path=paths[k], imports=imps[k], items=[]) for k in range(n)]
    order = dfs_order(files)
    consts: Dict[str, int] = {}
    aliases: Dict[str, Tuple[str, str]] = {}     # name -> (kind n/s, base)
    structs: List[str] = []
    msgs: List[str] = []                         # non-signal
    sigs: List[str] = []
    counter = dict(k=0, a=0, s=0, m=0, h=0, d=0, g=0, id=rng.randrange(100, 5000))
    auto_pad = rng.random() >= knobs.get("nopad", 0.0)
    # sizes/alignments for auto_pad off generation are not tracked: nopad closures use 8-byte only members
    def new(pfx):
        counter[pfx] += 1
        return {"k": "K", "a": "A", "s": "S", "m": "M", "h": "H", "d": "D", "g": "G"}[pfx] + str(counter[pfx])

    def nextid():
        counter["id"] += rng.choice([1, 1, 2, 7])
        return counter["id"]

    def length():
        """None | literal | expression over constants (+ - * and true division by 2 / 4 / 8): the field's length is
        int(value); candidates whose truncated value is outside 1..60 are not used"""
        r = rng.random()
        if r < 0.4:
            return None
        if r < 0.6 or not consts:
            if rng.random() < 0.15:
                return rng.choice([("div", ("lit", 5), 2), ("div", ("lit", 16), 4), ("div", ("lit", 7), 2), ("div", ("lit", 9), 8)])
            return ("lit", rng.choice([1, 2, 3, 4, 5, 7, 8, 16]))
        names = sorted(consts)
        c = ("ref", rng.choice(names))
        c2 = ("ref", rng.choice(names))
        cands = [c, ("mul", c, ("lit", 2)), ("add", c, ("lit", 1)), ("div", c, 2), ("div", ("add", c, c2), 2),
                 ("div", ("mul", c, c2), 4), ("mul", ("div", c, 2), ("lit", 3)), ("div", ("add", c, ("lit", 1)), 2),
                 ("sub", ("mul", c, ("lit", 2)), ("div", c2, 8))]
        rng.shuffle(cands)
        for e in cands:
            if 1 <= int(expr_eval(e, consts)) <= 60:
                return e
        return ("lit", 2)

    def field_type(in_struct: bool):
        opts = ["n"] * 5
        nat_al = [a for a, (k, _) in aliases.items() if k == "n" or knobs.get("alias_struct", 0.0) > 0]
        if nat_al and rng.random() < max(knobs.get("alias_field", 0.0), knobs.get("alias_struct", 0.0) * 0.5):
            opts += ["a"] * 3
        if structs:
            opts += ["s"] * 3
        if msgs and (not in_struct or rng.random() < knobs.get("struct_msg", 0.0)):
            opts += ["m"] * 2
        k = rng.choice(opts)
        if k == "n":
            return rng.choice(natives), False
        if k == "a":
            return rng.choice(nat_al), False
        if k == "s":
            return rng.choice(structs), True
        return rng.choice(msgs), True

    def fields(in_struct: bool):
        out = []
        if auto_pad:
            for j in range(rng.randint(1, 5)):
                ty, isdef = field_type(in_struct)
                ln = length()
                if isdef and ln is not None and rng.random() >= knobs.get("struct_array", 0.0):
                    ln = None
                out.append((f"f{j}", ty, ln))
        else:
            for j in range(rng.randint(1, 4)):
                out.append((f"f{j}", rng.choice([t for t in natives if t in ("double", "int64", "uint64", "long long")]),
                            rng.choice([None, ("lit", 2)])))
        return out

    for k in order:
        items = []
        for _ in range(rng.randint(0, size)):
            nm = new("k")
            if consts and rng.random() < 0.5:
                c = rng.choice(sorted(consts))
                c2 = rng.choice(sorted(consts))
                e = rng.choice([("mul", ("ref", c), ("lit", 2)), ("add", ("ref", c), ("lit", 3)),
                                ("sub", ("mul", ("ref", c), ("lit", 3)), ("ref", c)),
                                ("div", ("ref", c), 2), ("div", ("add", ("ref", c), ("ref", c2)), 2), ("div", ("ref", c), 4),
                                ("mul", ("ref", c), ("ref", c2))])
                if abs(expr_eval(e, consts)) > 4096:
                    e = ("div", ("ref", c), 8)
            else:
                e = ("lit", rng.choice([1, 2, 3, 4, 6, 8, 10, 12, 32]))
            consts[nm] = expr_eval(e, consts)
            items.append(("const", nm, e))
        for _ in range(rng.randint(0, 1)):
            items.append(("str", new("g"), rng.choice(["hello", "a b c", "x_1", "1.0"])))
        for _ in range(rng.randint(0, size)):
            nm = new("a")
            r = rng.random()
            if structs and r < knobs.get("alias_struct", 0.0):
                tgt = rng.choice(structs)
                aliases[nm] = ("s", tgt)
            elif aliases and r < 0.5:
                tgt = rng.choice(sorted(aliases))
                if aliases[tgt][0] == "s" and rng.random() >= knobs.get("alias_struct", 0.0):
                    tgt = rng.choice(natives)
                    aliases[nm] = ("n", tgt)
                else:
                    aliases[nm] = aliases[tgt]
            else:
                tgt = rng.choice(natives)
                aliases[nm] = ("n", tgt)
            items.append(("alias", nm, tgt))
        for _ in range(rng.randint(0, 1)):
            items.append(("hid", new("h"), 10 + counter["h"]))
        for _ in range(rng.randint(0, 1)):
            items.append(("mid", new("d"), 20 + counter["d"]))
        for _ in range(rng.randint(0, size)):
            nm = new("s")
            r = rng.random()
            if structs and r < 0.12:
                items.append(("struct", nm, ("reuse", rng.choice(structs))))
            elif msgs and r < 0.12 + knobs.get("struct_msg", 0.0) * 0.3:
                items.append(("struct", nm, ("reuse", rng.choice(msgs))))
            else:
                items.append(("struct", nm, ("fields", fields(True))))
            structs.append(nm)
        if k == order[-1] and rng.random() < knobs.get("hdr", 0.0) and auto_pad:
            items.append(("struct", "RTMA_MSG_HEADER", F(("msg_type", "int32", None), ("msg_count", "int32", None))))
            structs.append("RTMA_MSG_HEADER")
        pend = []
        for _ in range(rng.randint(0, size + 1)):
            nm = new("m")
            r = rng.random()
            if r < 0.15:
                pend.append(("msg", nm, None, None))
                sigs.append(nm)
            elif (msgs or structs) and r < 0.3:
                pend.append(("msg", nm, None, ("reuse", rng.choice(msgs + structs))))
                msgs.append(nm)
            else:
                pend.append(("msg", nm, None, ("fields", fields(False))))
                msgs.append(nm)
        ids = [nextid() for _ in pend]
        if rng.random() < 0.5:
            ids.reverse()              # descending ids: a message may embed one with a HIGHER id
        elif rng.random() < 0.5:
            rng.shuffle(ids)
        for (t, nm, _, b), i in zip(pend, ids):
            items.append((t, nm, i, b))
        if rng.random() < 0.25:
            a = nextid() + 10
            counter["id"] = a + 6
            items.append(("reserved", rng.choice([[a], [a, (a + 2, a + 4)], [(a, a + 1), a + 5]])))
        files[k]["items"] = items
    # compiler_options sections (drawn last: the rest of the closure does not depend on them).  Imported files: any option,
    # either value - the compiler ignores them; the root: AUTO_PAD either value, VALIDATE_ALIGNMENT / IMPORT_COREDEFS as the
    # closure is compiled anyway (validate on, no core import) - the other root values are directed cases
    for k in range(n):
        if rng.random() < (0.25 if k else 0.12):
            names = ["IMPORT_COREDEFS", "VALIDATE_ALIGNMENT", "AUTO_PAD"]
            rng.shuffle(names)
            if k:
                files[k]["options"] = {o: rng.random() < 0.5 for o in names[:rng.randint(1, 3)]}
            else:
                opts = {}
                for o in names[:rng.randint(1, 3)]:
                    opts[o] = {"IMPORT_COREDEFS": False, "VALIDATE_ALIGNMENT": True, "AUTO_PAD": rng.random() < 0.6}[o]
                files[k]["options"] = opts
    return dict(files=files, auto_pad=auto_pad, import_coredefs=False)


def systematic_closures(natives: List[str]) -> List[Tuple[str, dict]]:
    """every (user construct, target construct, placement) the grammar permits, one minimal closure each,
       plus the padding / ordering shapes named in the brief"""
    out: List[Tuple[str, dict]] = []
    S0 = ("struct", "S0", F(("q", "uint16", ("lit", 2)), ("r", "int32", None)))
    M0 = ("msg", "M0", 900, F(("q", "uint16", ("lit", 2)), ("r", "int32", None)))
    A0 = ("alias", "A0", "int16")
    K0 = ("const", "K0", ("lit", 3))

    def two(tag, target, user, imported):
        """target defined in the imported file (imported=True) or earlier in the same file"""
        if imported:
            cl = dict(files=[dict(path="root.yaml", imports=[1], items=[user]),
                             dict(path="inc/a.yaml", imports=[], items=[target])], auto_pad=True, import_coredefs=False)
        else:
            cl = dict(files=[dict(path="root.yaml", imports=[], items=[target, user])], auto_pad=True, import_coredefs=False)
        out.append((tag + ("/imported" if imported else "/same-file"), cl))

    for imp in (False, True):
        two("alias->alias", A0, ("alias", "A1", "A0"), imp)
        two("field(struct)->alias-of-native", A0, ("struct", "S1", F(("x", "A0", None), ("y", "A0", ("lit", 3)))), imp)
        two("field(msg)->alias-of-native", A0, ("msg", "M1", 901, F(("x", "A0", None), ("y", "A0", ("lit", 3)))), imp)
        two("field(struct)->struct", S0, ("struct", "S1", F(("x", "S0", None))), imp)
        two("field(struct)->struct[]", S0, ("struct", "S1", F(("x", "S0", ("lit", 3)))), imp)
        two("field(msg)->struct", S0, ("msg", "M1", 901, F(("x", "S0", None))), imp)
        two("field(msg)->struct[]", S0, ("msg", "M1", 901, F(("x", "S0", ("lit", 2)))), imp)
        two("field(msg)->msg", M0, ("msg", "M1", 901, F(("x", "M0", None))), imp)
        two("field(msg)->msg higher id", ("msg", "M0", 950, M0[3]), ("msg", "M1", 901, F(("x", "M0", None))), imp)
        two("field(msg)->msg[]", M0, ("msg", "M1", 901, F(("x", "M0", ("lit", 2)))), imp)
        two("reuse struct->struct", S0, ("struct", "S1", ("reuse", "S0")), imp)
        two("reuse msg->struct", S0, ("msg", "M1", 901, ("reuse", "S0")), imp)
        two("reuse msg->msg", M0, ("msg", "M1", 901, ("reuse", "M0")), imp)
        two("length->const", K0, ("struct", "S1", F(("x", "int8", ("ref", "K0")), ("y", "int8", ("mul", ("ref", "K0"), ("lit", 3))))), imp)
        two("const->const", K0, ("const", "K1", ("add", ("ref", "K0"), ("lit", 1))), imp)
        # lengths / constants written with a true division: the constant is a float (1.5, 8.0), the length int() of it
        two("length->const/2", K0, ("struct", "S1", F(("x", "int8", ("div", ("ref", "K0"), 2)), ("y", "int16", ("div", ("mul", ("ref", "K0"), ("lit", 5)), 2)))), imp)
        two("length->float const", ("const", "KH", ("div", ("lit", 16), 2)),
            ("struct", "S1", F(("x", "char", ("ref", "KH")), ("y", "double", ("div", ("mul", ("ref", "KH"), ("lit", 3)), 16)))), imp)
        two("const->const/2", K0, ("const", "K1", ("div", ("add", ("ref", "K0"), ("lit", 2)), 2)), imp)
        two("msg length->(const+const)/2", K0, ("msg", "M1", 901, F(("x", "int32", ("div", ("add", ("ref", "K0"), ("ref", "K0")), 2)), ("s", "char", ("div", ("lit", 5), 2)))), imp)
        two("rejected: length truncates to 0", K0, ("struct", "S1", F(("x", "int8", ("div", ("ref", "K0"), 4)))), imp)
    # only possible across files (the section order forbids them inside one file)
    two("alias->struct", S0, ("alias", "A1", "S0"), True)
    two("field(struct)->msg", M0, ("struct", "S1", F(("x", "M0", None))), True)
    two("reuse struct->msg", M0, ("struct", "S1", ("reuse", "M0")), True)
    out.append(("alias->alias->struct/imported", dict(files=[
        dict(path="root.yaml", imports=[1], items=[("alias", "A1", "S0"), ("alias", "A2", "A1")]),
        dict(path="a.yaml", imports=[], items=[S0])], auto_pad=True, import_coredefs=False)))
    out.append(("field->alias-of-struct/imported (get_ctype_cls)", dict(files=[
        dict(path="root.yaml", imports=[1], items=[("alias", "A1", "S0"), ("struct", "S1", F(("x", "A1", None)))]),
        dict(path="a.yaml", imports=[], items=[S0])], auto_pad=True, import_coredefs=False)))
    # padding shapes
    out.append(("pad: char[3] then int32", dict(files=[dict(path="root.yaml", imports=[], items=[
        ("struct", "S1", F(("a", "char", ("lit", 3)), ("b", "int32", None))),
        ("msg", "M1", 901, F(("a", "char", ("lit", 3)), ("b", "int32", None)))])], auto_pad=True, import_coredefs=False)))
    out.append(("pad: uint8 then int16", dict(files=[dict(path="root.yaml", imports=[], items=[
        ("struct", "S1", F(("a", "uint8", None), ("b", "int16", None))),
        ("msg", "M1", 901, F(("a", "uint8", None), ("b", "int16", None), ("c", "double", None), ("d", "char", None)))])],
        auto_pad=True, import_coredefs=False)))
    out.append(("struct with scalar fields only", dict(files=[dict(path="root.yaml", imports=[], items=[
        ("struct", "S1", F(*[(f"f{i}", t, None) for i, t in enumerate(natives)]))])], auto_pad=True, import_coredefs=False)))
    out.append(("every native as array and via alias", dict(files=[dict(path="root.yaml", imports=[], items=(
        [("alias", f"A{i}", t) for i, t in enumerate(natives)] +
        [("msg", "M1", 901, F(*[(f"f{i}", t, ("lit", 2 + i % 3)) for i, t in enumerate(natives)])),
         ("msg", "M2", 902, F(*[(f"f{i}", f"A{i}", None if i % 2 else ("lit", 2)) for i, t in enumerate(natives)]))]))],
        auto_pad=True, import_coredefs=False)))
    out.append(("messages in descending id order embedding each other", dict(files=[dict(path="root.yaml", imports=[], items=[
        ("msg", "M3", 930, F(("a", "int32", None))), ("msg", "M2", 920, F(("a", "M3", None))),
        ("msg", "M1", 910, F(("a", "M2", ("lit", 2)), ("b", "M3", None)))])], auto_pad=True, import_coredefs=False)))
    out.append(("auto_pad off, aligned", dict(files=[dict(path="root.yaml", imports=[], items=[
        ("struct", "S1", F(("a", "int32", None), ("b", "int16", ("lit", 2)))), ("msg", "M1", 901, F(("s", "S1", None), ("d", "double", None)))])],
        auto_pad=False, import_coredefs=False)))
    out.append(("auto_pad off, misaligned", dict(files=[dict(path="root.yaml", imports=[], items=[
        ("struct", "S1", F(("a", "int8", None), ("b", "int32", None)))])], auto_pad=False, import_coredefs=False)))
    out.append(("user RTMA_MSG_HEADER", dict(files=[dict(path="root.yaml", imports=[], items=[
        ("struct", "RTMA_MSG_HEADER", F(("msg_type", "int32", None), ("n", "int32", None))),
        ("msg", "M1", 901, F(("h", "RTMA_MSG_HEADER", None)))])], auto_pad=True, import_coredefs=False)))
    # rejected by the parser (the model must reject with the same class)
    for rn in ("type_id", "type_name", "type_hash", "type_source", "type_def", "type_size", "hexdump"):
        out.append((f"reserved field name {rn}", dict(files=[dict(path="root.yaml", imports=[], items=[
            ("struct", "S1", F(("a", "int32", None), (rn, "int32", None)))])], auto_pad=True, import_coredefs=False)))
    neg = [("unknown type", [("struct", "S1", F(("a", "S9", None)))]),
           ("unknown constant in length", [("struct", "S1", F(("a", "int8", ("ref", "NOPE"))))]),
           ("unknown constant in constant", [("const", "K1", ("add", ("ref", "NOPE"), ("lit", 1)))]),
           ("signal as field type", [("msg", "SG", 5, None), ("msg", "M1", 6, F(("a", "SG", None)))]),
           ("empty field list", [("struct", "S1", ("fields", []))]),
           ("reuse of a signal", [("msg", "SG", 5, None), ("msg", "M1", 6, ("reuse", "SG"))]),
           ("reuse of unknown", [("msg", "M1", 6, ("reuse", "NOPE"))]),
           ("alias of unknown", [("alias", "A1", "NOPE")]),
           ("alias of message", [("alias", "A1", "M0")]),
           ("alias of later struct (same file)", [("alias", "A1", "S0"), S0]),
           ("struct field of later message (same file)", [("struct", "S1", F(("x", "M0", None))), M0]),
           ("duplicate name alias/struct", [("alias", "S0", "int32"), S0]),
           ("duplicate name const/msg", [("const", "M0", ("lit", 1)), M0]),
           ("too large", [("struct", "S1", F(("a", "double", ("lit", 8192))))]),
           ]
    for tag, items in neg:
        fs = [dict(path="root.yaml", imports=[], items=items)]
        if tag == "alias of message":
            fs = [dict(path="root.yaml", imports=[1], items=items), dict(path="a.yaml", imports=[], items=[M0])]
        out.append(("rejected: " + tag, dict(files=fs, auto_pad=True, import_coredefs=False)))
    out.append(("rejected: missing import", dict(files=[dict(path="root.yaml", imports=[1], items=[S0]),
                                                         dict(path="nope.yaml", imports=[], items=[], missing=True)],
                                                  auto_pad=True, import_coredefs=False)))
    return out



def substring_name_closures() -> List[dict]:
    """constants whose names are the leading part / the tail / an inner part of other constants' names, used together in
    one expression or array length, in both orders (expand_expression substitutes whole words only)"""
    out = []
    consts = [("const", "N", ("lit", 4)), ("const", "N_MAX", ("lit", 6)), ("const", "MAX", ("lit", 3)), ("const", "CH", ("lit", 2)),
              ("const", "CH_PER_N", ("lit", 8)), ("const", "A", ("lit", 5)), ("const", "AA", ("lit", 7)), ("const", "XAAX", ("lit", 9))]
    R = lambda n: ("ref", n)
    derived = [("const", "P1", ("mul", R("N"), R("N_MAX"))), ("const", "P2", ("mul", R("N_MAX"), R("N"))),
               ("const", "P3", ("add", R("MAX"), R("N_MAX"))), ("const", "P4", ("sub", R("N_MAX"), R("MAX"))),
               ("const", "P5", ("add", ("div", R("CH_PER_N"), 2), R("CH"))), ("const", "P6", ("mul", R("CH"), R("CH_PER_N"))),
               ("const", "P7", ("add", R("A"), R("AA"))), ("const", "P8", ("mul", R("AA"), R("A"))),
               ("const", "P9", ("add", ("add", R("A"), R("XAAX")), R("AA"))), ("const", "P10", ("sub", ("mul", R("XAAX"), R("AA")), R("A")))]
    fields = F(("f1", "int8", ("mul", R("N"), R("N_MAX"))), ("f2", "int16", ("add", R("N_MAX"), R("N"))), ("f3", "char", ("add", R("MAX"), R("N_MAX"))),
               ("f4", "int32", ("div", ("mul", R("CH_PER_N"), R("CH")), 4)), ("f5", "uint8", ("add", R("CH"), R("CH_PER_N"))),
               ("f6", "double", ("sub", R("AA"), R("A"))), ("f7", "int8", ("add", R("A"), R("AA"))), ("f8", "uint16", ("sub", R("XAAX"), R("AA"))))
    out.append(dict(tag="substring-names:same-file", cl=dict(files=[dict(path="root.yaml", imports=[], items=consts + derived + [
        ("struct", "S1", fields), ("msg", "M1", 901, F(("s", "S1", R("N")), ("t", "int8", R("P1"))))])],
        auto_pad=True, import_coredefs=False), coq=True, expect="accept"))
    out.append(dict(tag="substring-names:imported", cl=dict(files=[
        dict(path="root.yaml", imports=[1], items=derived + [("struct", "S1", fields)]),
        dict(path="inc/k.yaml", imports=[], items=consts)], auto_pad=True, import_coredefs=False), coq=True, expect="accept"))
    return out


def long_name_closures(lo: int = 40, hi: int = 50) -> List[dict]:
    """one closure per name length lo..hi: a constant, a host id, a module id, a struct, a message and a signal whose names
    have exactly that many characters (c99.py pads macro names to a column)"""
    out = []
    for n in range(lo, hi + 1):
        def nm(p):
            base = f"{p}{n}_"
            return base + "N" * (n - len(base))
        items = [("const", nm("Kc"), ("lit", 3)), ("hid", nm("Hh"), 11), ("mid", nm("Dm"), 21),
                 ("struct", nm("Ss"), F(("a", "int16", ("ref", nm("Kc"))), ("b", "int32", None))),
                 ("msg", nm("Mm"), 900 + n, F(("s", nm("Ss"), None), ("c", "uint8", None))), ("msg", nm("Sg"), 950 + n, None)]
        out.append(dict(tag=f"name-length:{n}", cl=dict(files=[dict(path="root.yaml", imports=[], items=items)],
                                                         auto_pad=True, import_coredefs=False), coq=True))
    return out


def cyclic_closures() -> List[dict]:
    """Import graphs with cycles.  Legal closures: parse_file registers a file in included_files BEFORE it reads it, so a
    file that is still being parsed is not entered again - each file is read exactly once and the closure compiles.
    expect="accept": a rejection of one of these is a violation by itself (well-formed by construction)."""
    S0 = ("struct", "S0", F(("q", "uint16", ("lit", 2)), ("r", "int32", None)))
    T0 = ("struct", "T0", F(("a", "int8", None), ("b", "double", None)))
    out = []

    def add(tag, files):
        out.append(dict(tag="cyclic:" + tag, cl=dict(files=files, auto_pad=True, import_coredefs=False), coq=True, expect="accept"))
    add("file imports itself", [dict(path="root.yaml", imports=[0], items=[S0, ("msg", "M1", 901, F(("x", "S0", None)))])])
    add("a <-> b", [dict(path="root.yaml", imports=[1], items=[("msg", "M1", 901, F(("x", "S0", None), ("y", "T0", None)))]),
                    dict(path="a.yaml", imports=[2], items=[T0]),
                    dict(path="b.yaml", imports=[1], items=[S0])])
    add("root -> shared/types.yaml -> ../root.yaml", [
        dict(path="root.yaml", imports=[1], items=[("const", "N", ("lit", 3)), ("msg", "M1", 901, F(("x", "S0", ("ref", "N"))))]),
        dict(path="shared/types.yaml", imports=[0], items=[S0, ("alias", "A16", "int16")])])
    add("cycle with a diamond", [
        dict(path="root.yaml", imports=[1, 2], items=[("msg", "M1", 901, F(("x", "S0", None), ("y", "T0", None), ("z", "U0", None)))]),
        dict(path="left/a.yaml", imports=[3], items=[T0]),
        dict(path="right/b.yaml", imports=[3, 0], items=[("struct", "U0", F(("u", "S0", ("lit", 2))))]),
        dict(path="common/base.yaml", imports=[1], items=[S0])])
    add("imported file imports itself and the root", [
        dict(path="defs/root.yaml", imports=[1], items=[("msg", "M1", 901, F(("x", "S0", None))), ("msg", "SG", 902, None)]),
        dict(path="defs/inc/a.yaml", imports=[1, 0, 1], items=[S0, ("mid", "D1", 21), ("hid", "H1", 11)])])
    return out


def diagnose(fam, cases: List[str], timeout: int = 600) -> List[int]:
    """which component differs, per case (0 = agree); -1 = could not evaluate"""
    if not cases:
        return []
    txt = COQ_HEADER + "Definition the_cases := [\n" + ";\n".join(cases) + "].\nEval vm_compute in (map diff_case the_cases).\n"
    rc, out = fam.run_v(txt, timeout=timeout)
    m = re.search(r"=\s*\[(.*?)\]\s*:\s*list Z", out, re.S)
    if rc != 0 or not m:
        return [-1] * len(cases)
    return [int(x) for x in re.findall(r"-?\d+", m.group(1))]


# ----------------------------------------------------------------------------------------------
# corpus shared by C04 / C15 / C16, construct classes, cross-language oracles
# ----------------------------------------------------------------------------------------------

KNOBS = [dict(), dict(hdr=1.0), dict(alias_field=0.6), dict(struct_array=0.7), dict(alias_struct=0.5),
         dict(struct_msg=0.6), dict(alias_struct=0.3, struct_msg=0.3, alias_field=0.3, struct_array=0.3, hdr=0.3),
         dict(nopad=1.0), dict(hdr=1.0), dict()]


def build_corpus(rng, tier: str, natives: List[str], nrandom: Optional[int] = None) -> List[dict]:
    out = [dict(tag="sys:" + t, cl=c, coq=True) for t, c in systematic_closures(natives)]
    n = nrandom if nrandom is not None else (110 if tier == "quick" else 1200)
    for i in range(n):
        kn = KNOBS[i % len(KNOBS)]
        out.append(dict(tag="rnd:" + ",".join(sorted(kn)) if kn else "rnd:clean", cl=random_closure(rng, natives, kn), coq=True))
    return out


def construct_classes(model: dict) -> set:
    """construct classes (the exclusions of the Coq theorems) present in the implementation's parsed model"""
    cs = set()
    if any(a[2] == "SDF" for a in model["aliases"]):
        cs.add("alias-of-struct")
    for s in model["structs"]:
        for f in s["fields"]:
            if f["kind"] == "MDF":
                cs.add("struct-field-of-message-type")
    for d in model["structs"] + model["messages"]:
        for f in d["fields"]:
            if f["kind"] == "TypeAlias":
                cs.add("field-of-alias-type")
                if f["akind"] == "SDF":
                    cs.add("field-of-alias-of-struct")
            if f["kind"] in ("SDF", "MDF") and f["length"] is not None and f["length"] >= 2:
                cs.add("array-of-struct")
            if f["length"] is not None and f["length"] == 0:
                cs.add("array-length-zero")
            if f["type_name"] == "signed char" or f.get("base") == "signed char":
                cs.add("signed-char")
    if any(a[1] == "signed char" for a in model["aliases"]):
        cs.add("signed-char")
    if not any(s["name"] == "RTMA_MSG_HEADER" for s in model["structs"]):
        cs.add("no-msg-header")
    return cs


def source_classes(cl: dict) -> set:
    """construct classes visible in the source closure (for runs the parser did not survive)"""
    cs = set()
    for f in cl["files"]:
        for it in f["items"]:
            if it[0] == "alias" and it[2] == "signed char":
                cs.add("signed-char")
            if it[0] in ("struct", "msg"):
                b = it[2] if it[0] == "struct" else it[3]
                if b and b[0] == "fields":
                    for _, ty, ln in b[1]:
                        if ty == "signed char":
                            cs.add("signed-char")
    return cs


def hexnum(txt: str) -> Optional[int]:
    t = txt.strip().strip('"').strip("'")
    if t.lower().startswith("0x"):
        t = t[2:]
    try:
        return int(t, 16)
    except ValueError:
        return None


def cross_language_check(res: dict, obs: dict, parser_types: Dict[str, Tuple[int, int]]) -> List[Tuple[str, str]]:
    """C04 spec oracle, independent of the Coq model: the four outputs (static readers), the imported Python
    module (ctypes), the gcc probe and the node dump against each other and against what the compiler recorded.
    returns [(key, description)]"""
    bad: List[Tuple[str, str]] = []
    model = res["model"]
    rd = obs["readers"]
    L = res["load"]
    defs = model["structs"] + model["messages"]

    def expect_cls(f):
        k = f["kind"]
        if k == "NativeType":
            return ("n",) + tuple(parser_types[f["type_name"]])
        if k == "TypeAlias":
            if f["akind"] == "NativeType":
                return ("n",) + tuple(parser_types[f["base"]])
            return ("s", f["base"])
        return ("s" if k == "SDF" else "m", f["type_name"])

    # ---- scalars: ids, hashes, constants, module ids, host ids
    def as_int(v):
        try:
            return int(str(v), 0)
        except ValueError:
            return str(v)
    want = dict(constants={c[0]: c[1] for c in model["constants"]}, hids={h[0]: h[1] for h in model["host_ids"]},
                mids={h[0]: h[1] for h in model["module_ids"]}, mts={h[0]: h[1] for h in model["message_ids"]})
    pref = dict(py=dict(constants="", hids="", mids="MID_", mts="MT_"), c=dict(constants="", hids="HID_", mids="MID_", mts="MT_"),
                js=dict(constants="", hids="", mids="", mts=""), m=dict(constants="", hids="", mids="", mts=""))
    core = lambda src: str(src).startswith("core_defs/")
    want_c = dict(constants={c[0]: c[1] for c in model["constants"] if not core(c[3])},
                  hids={h[0]: h[1] for h in model["host_ids"] if not core(h[2])},
                  mids={h[0]: h[1] for h in model["module_ids"] if not core(h[2])},
                  mts={h[0]: h[1] for h in model["message_ids"] if not core(h[2])})
    for lang in ("py", "c", "js", "m"):
        for sec in ("constants", "hids", "mids", "mts"):
            got = {}
            for k, v in rd[lang][sec]:
                p = pref[lang][sec]
                got[k[len(p):] if p and k.startswith(p) else k] = as_int(v)
            exp = want_c[sec] if lang == "c" else want[sec]   # c99.py leaves core_defs.yaml items to RTMA_types.h
            if lang == "m":
                exp = {m_sanitize(k): v for k, v in exp.items()}
                if sec == "constants":   # matlab puts HID_/MID_/MT_ defines into the same table
                    got = {k: v for k, v in got.items() if not re.match(r"(HID|MID|MT)_", k) or k in exp}
            if lang == "py" and sec == "constants":
                pass
            if got != exp:
                d = {k: (exp.get(k), got.get(k)) for k in set(exp) | set(got) if exp.get(k) != got.get(k)}
                pfx = {"constants": "defines_", "hids": "HID_", "mids": "MID_", "mts": "MT_"}[sec]
                key = f"scalars:{lang}:{sec}"
                if lang == "c" and d and all(len(k) >= 48 for k in d if k in exp) and any(k in exp for k in d):
                    key = "c:long-name-macro-glued"      # `#define MT_{name:<48}{value}`: no blank left for a name of 48+ characters
                miss = [k for k in d if k in exp]     # names of the parsed model the matlab output does not have (with that value)
                if lang == "m" and miss and all((pfx in k) for k in miss):
                    # generate_field strips the section prefix: from the front of the name only (since 689365a; that
                    # leading case is the open finding), before that from anywhere in the name
                    key = "matlab:leading-prefix-stripped" if all(k.startswith(pfx) for k in miss) \
                        else "matlab:prefix-stripped-inside-name"
                bad.append((key, f"{lang} {sec} differ from the parsed model: {str(d)[:200]}"))
    hashes = {m["name"]: int(m["hash"][:8], 16) for m in model["messages"]}
    hashes_c = {m["name"]: int(m["hash"][:8], 16) for m in model["messages"] if not core(m["src"])}
    # ---- the C macros as the preprocessor sees them (gcc -E -dM): every user constant / id / hash is an object-like macro
    #      of the documented name whose replacement text is the value the other languages publish
    mac = (L.get("c") or {}).get("macros")
    if mac is not None:
        expm = [("constants", c[0], c[0], c[1]) for c in model["constants"] if not core(c[3])] + \
               [("hids", "HID_" + h[0], h[0], h[1]) for h in model["host_ids"] if not core(h[2])] + \
               [("mids", "MID_" + h[0], h[0], h[1]) for h in model["module_ids"] if not core(h[2])] + \
               [("mts", "MT_" + h[0], h[0], h[1]) for h in model["message_ids"] if not core(h[2])] + \
               [("hashes", "HASH_" + k, k, v) for k, v in hashes_c.items()]
        for sec, mname, uname, val in expm:
            got = mac.get(mname)
            okv = got is not None and (hexnum(got) == val if sec == "hashes" else str(as_int(got)) == str(as_int(val)) or got == str(val))
            if not okv:
                glued = [k for k in mac if k.startswith(mname) and k != mname]
                key = "c:long-name-macro-glued" if (len(uname) >= 48 and glued and sec != "hashes") else f"macro:c:{sec}"
                bad.append((key, f"C preprocessor: macro {mname} is {'undefined' if got is None else repr(got)}, the other outputs publish "
                                 f"{val if sec != 'hashes' else hex(val)}" + (f"; the header defines {glued[0]!r} instead (name glued to the value: "
                                 f"the name has {len(uname)} characters)" if glued else "")))
    for lang, key, sani in (("c", "hashes", False), ("js", "hashes", False), ("m", "hashes", True)):
        got = {}
        for k, v in rd[lang][key]:
            got[k[5:] if lang == "c" and k.startswith("HASH_") else k] = hexnum(v)
        exp = {m_sanitize(k) if sani else k: v for k, v in (hashes_c if lang == "c" else hashes).items()}
        if got != exp:
            bad.append((f"hash:{lang}", f"{lang} message hashes differ from sha256(raw)[:8]"))
    allh = {d["name"]: int(d["hash"][:8], 16) for d in defs}
    for d in rd["py"]["defs"]:
        if allh.get(d["name"]) != d["hash"] or not re.fullmatch(r"0x[0-9A-F]{8}", d.get("hash_text") or ""):
            bad.append(("hash:py", f"python type_hash of {d['name']} differs / not 0x + 8 upper-case hex digits"))
        if d["ismsg"] and d["id"] != want["mts"].get(d["name"]):
            bad.append(("id:py", f"python type_id of {d['name']} = {d['id']}"))
    # ---- the imported python module: one flat namespace
    if L.get("py", {}).get("ok"):
        ints = L["py"]["ints"]
        secs = [("constants", "", [(c[0], c[1]) for c in model["constants"] if c[2] == "int"]), ("host_ids", "", [(h[0], h[1]) for h in model["host_ids"]]),
                ("module_ids", "MID_", [(h[0], h[1]) for h in model["module_ids"]]), ("message_ids", "MT_", [(h[0], h[1]) for h in model["message_ids"]])]
        bound: Dict[str, int] = {}
        for sec, p, rows in secs:
            for n, v in rows:
                bound[p + n] = bound.get(p + n, 0) + 1
        for sec, p, rows in secs:
            for n, v in rows:
                if ints.get(p + n) != v:
                    bad.append(("py:name-collision" if bound[p + n] > 1 else "scalars:py-loaded",
                                f"imported module: {p + n} = {ints.get(p + n)}, {sec} says {n} = {v}"
                                + (" (the python output binds this name more than once: host ids carry no prefix)" if bound[p + n] > 1 else "")))
    # ---- aliases: the type each language binds the alias name to
    for lang in ("py", "c", "js", "m"):
        got = {a[0]: tuple(a[1]) for a in rd[lang]["aliases"]}
        for a in model["aliases"]:
            if lang == "c" and "core_defs" in str(a[5]):
                continue
            if a[2] == "NativeType":
                w, kd = parser_types[a[1]]
                e = ("n", 0, 3 if kd == 3 else 0) if lang == "js" else ("n", w, 0 if (lang == "m" and kd == 3) else kd)
            else:
                e = ("s", a[1])
            g = got.get(m_sanitize(a[0]) if lang == "m" else a[0])
            if g != e and not (a[2] != "NativeType"):
                bad.append((f"alias:{lang}", f"{lang} binds alias {a[0]} ({a[1]}) to {g}, the parsed model says {e}"))
    if L.get("py", {}).get("ok"):
        for a in model["aliases"]:
            g = L["py"]["aliases"].get(a[0])
            if a[2] == "NativeType" and g is not None and (g[1], g[0]) != tuple(parser_types[a[1]]) and g[2] == -1:
                bad.append(("alias:py-ctypes", f"imported module: alias {a[0]} ({a[1]}) is a ctypes type of (width, class) = ({g[1]}, {g[0]}), "
                                               f"C typedef / parser say {parser_types[a[1]]}"))
    # ---- per definition field tables
    for lang in ("py", "c", "js", "m"):
        by = {d["name"]: d for d in rd[lang]["defs"]}
        for d in defs:
            r = by.get(d["name"])
            if r is None:
                if (d["fields"] or lang != "c") and not (lang == "c" and core(d["src"])):
                    bad.append((f"sig:{lang}:missing", f"{d['name']} missing from the {lang} output"))
                continue
            exp = []
            for f in d["fields"]:
                c = expect_cls(f)
                if lang == "js" and c[0] == "n":
                    c = ("n", 0, 3 if c[2] == 3 else 0)
                if lang == "m" and c[0] == "n" and c[2] == 3:
                    c = ("n", c[1], 0)
                exp.append([f["name"], c, f["length"] or 1])
            got = [[f[0], tuple(f[1]), f[2]] for f in r["fields"]]
            if lang == "c":   # core aliases (MODULE_ID, ...) are typedef'd by RTMA_types.h, not by this header
                core_al = {a[0] for a in model["aliases"] if "core_defs" in str(a[5])}
                got = [[g[0], e[1] if g[1][0] == "?" and g[1][1] in core_al else g[1], g[2]] for g, e in zip(got, exp)] \
                    if len(got) == len(exp) else got
            if got != exp:
                k = "array-length-zero" if any(f["length"] == 0 for f in d["fields"]) and lang != "py" else f"sig:{lang}"
                bad.append((k, f"{lang} fields of {d['name']}: {got} vs parsed model {exp}"[:400]))
    # ---- layouts: gcc vs ctypes vs recorded
    pyc = {c["name"]: c for c in L.get("py", {}).get("classes", [])} if L.get("py", {}).get("ok") else None
    pr = L.get("c", {}).get("probe") if L.get("c", {}).get("ok") else None
    if pr is not None and "error" in pr:
        bad.append(("layout:c-probe", "probe does not compile: " + pr["error"][:200]))
        pr = None
    for d in defs:
        cname = ("MDF_" if "type_id" in d else "") + d["name"]
        zero = any(f["length"] == 0 for f in d["fields"])
        if pyc is not None:
            c = pyc.get(cname)
            if c is None:
                bad.append(("layout:py-missing", f"{cname} missing from the imported module"))
            else:
                if c["size"] != d["size"] or c["type_size"] != d["size"]:
                    bad.append(("layout:py-size", f"{cname}: ctypes.sizeof {c['size']}, type_size {c['type_size']}, recorded {d['size']}"))
                ptr = 0
                for f, cf in zip(d["fields"], c["fields"]):
                    if cf["name"] != f["name"] or cf["offset"] != ptr or cf["size"] != f["size"]:
                        bad.append(("layout:py-field", f"{cname}.{f['name']}: ctypes offset/size {cf['offset']}/{cf['size']} vs {ptr}/{f['size']}"))
                        break
                    ptr += f["size"]
                if len(c["fields"]) != len(d["fields"]):
                    bad.append(("layout:py-field", f"{cname}: {len(c['fields'])} ctypes fields vs {len(d['fields'])}"))
        if pr is not None and d["fields"] and not core(d["src"]):
            g = pr.get(cname)
            if g is None:
                bad.append(("layout:c-missing", f"{cname} missing from the C header"))
            else:
                key = "array-length-zero" if zero else "layout:c"
                if g["size"] != d["size"]:
                    bad.append((key, f"{cname}: gcc sizeof {g['size']} != recorded type_size {d['size']}"
                                + (f" = ctypes {pyc[cname]['size']}" if pyc and cname in pyc else "")))
                ptr = 0
                for f in d["fields"]:
                    if g["offs"].get(f["name"]) != ptr or g["fsz"].get(f["name"]) != f["size"]:
                        bad.append((key, f"{cname}.{f['name']}: gcc offsetof/sizeof {g['offs'].get(f['name'])}/{g['fsz'].get(f['name'])} vs recorded {ptr}/{f['size']}"))
                        break
                    ptr += f["size"]
    # ---- node: field names / order / array lengths of every factory result
    js = L.get("js", {})
    if js.get("ok"):
        for sec, key in (("SDF", "structs"), ("MDF", "messages")):
            for d in model[key]:
                f = js[sec].get(d["name"])
                if not f or not f["ok"]:
                    continue
                got = [(k, (v["a"] if isinstance(v, dict) and "a" in v else (int(v[1:]) if isinstance(v, str) and v[0] == "s" and f2["type_name"] == "char" and (f2["length"] or 0) > 1 else 1)))
                       for (k, v), f2 in zip(f["shape"]["o"], d["fields"])]
                exp = []
                for f2 in d["fields"]:
                    if f2["type_name"] == "char" and (f2["length"] or 0) > 1:
                        exp.append((f2["name"], 0))       # a string: no element count in the value
                    else:
                        exp.append((f2["name"], f2["length"] if f2["length"] is not None else 1))
                if [g[0] for g in got] != [e[0] for e in exp] or any(e[1] != g[1] for g, e in zip(got, exp) if e[1] != 0):
                    k = "array-length-zero" if any(f2["length"] == 0 for f2 in d["fields"]) else "sig:js-node"
                    bad.append((k, f"node: {d['name']} fields {got} vs {exp}"[:300]))
    return bad
