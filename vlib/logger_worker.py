"""Runs the REAL pyrtma DataCollection / DataSet / formatters under a cooperative deterministic scheduler.

Executed as a subprocess (fresh interpreter, PYTHONPATH=/repo/src):
    python vlib/logger_worker.py  < cases.json  > results.json

Real threads run (the collection's own writer thread is a real thread executing DataCollection.write),
but exactly one at a time: the names `threading` and `time` in the namespace of
pyrtma.data_logger.data_collection are replaced by shims.  Switch points (SP) - the only places where
control can pass to the other thread - are, on ENTRY (before the operation is performed):

    Event.is_set / set / clear / wait,  Thread.join,
    DataSet.stage_for_write, DataSet.write,
    the outermost formatter.write / formatter.finalize call (nested self.write inside finalize is not an SP),
    the start of every recorder-program operation (added by this worker).

At each SP the scheduler consumes the next entry of the supplied schedule (a list of thread ids,
0 = recorder/main, 1 = writer): that thread proceeds if it is enabled, otherwise the other enabled one.
After the schedule is exhausted the recorder is preferred.  `Event.wait` blocks (is not enabled) until the
flag is set - or, for the writer's 0.5 s poll, until the collection is closing.  The first Python
exception in either thread ends the case (`crash`).

case:   {"datasets": [{"name","fmt","interval","types"}], "prog": [[op, ...]], "sched": [tids], "bytes": bool}
        ops: ["start"] ["stop"] ["pause"] ["resume"] ["tick", dt] ["upd", id, type] ["upd0"]
        (start is skipped while recording, stop while not recording: DataLogger.start_logging/stop_logging guards)
result: {"trace": [...], "both": [...], "crash": null|{...}, "files": {ds: [{"session","sub","ids","content_ok",..}]},
         "arrivals": [[session, id, type]], "warnings": n, "consts": {...}}
"""
from __future__ import annotations

import json
import logging
import os
import shutil
import sys
import tempfile
import threading as _real_threading
import traceback
import types
from pathlib import Path

DEFS_TEXT = '''
import pyrtma
from typing import ClassVar
from pyrtma.message_base import MessageMeta
from pyrtma.message_data import MessageData
from pyrtma.validators import Int32, Double, Uint8, IntArray
from pyrtma.context import _update_context

MT_VA = 1001
MT_VB = 1002
MT_VC = 1003
MT_VS = 1004


@pyrtma.message_def
class MDF_VA(MessageData, metaclass=MessageMeta):
    type_id: ClassVar[int] = 1001
    type_name: ClassVar[str] = "VA"
    type_hash: ClassVar[int] = 0x0000A001
    type_size: ClassVar[int] = 4
    type_source: ClassVar[str] = "verif"
    type_def: ClassVar[str] = "VA"

    serial: Int32 = Int32()


@pyrtma.message_def
class MDF_VB(MessageData, metaclass=MessageMeta):
    type_id: ClassVar[int] = 1002
    type_name: ClassVar[str] = "VB"
    type_hash: ClassVar[int] = 0x0000A002
    type_size: ClassVar[int] = 16
    type_source: ClassVar[str] = "verif"
    type_def: ClassVar[str] = "VB"

    serial: Int32 = Int32()
    pad: IntArray[Uint8] = IntArray(Uint8, 4)
    x: Double = Double()


@pyrtma.message_def
class MDF_VC(MessageData, metaclass=MessageMeta):
    type_id: ClassVar[int] = 1003
    type_name: ClassVar[str] = "VC"
    type_hash: ClassVar[int] = 0x0000A003
    type_size: ClassVar[int] = 7
    type_source: ClassVar[str] = "verif"
    type_def: ClassVar[str] = "VC"

    b: IntArray[Uint8] = IntArray(Uint8, 7)


@pyrtma.message_def
class MDF_VS(MessageData, metaclass=MessageMeta):
    type_id: ClassVar[int] = 1004
    type_name: ClassVar[str] = "VS"
    type_hash: ClassVar[int] = 0x0000A004
    type_size: ClassVar[int] = 0
    type_source: ClassVar[str] = "verif"
    type_def: ClassVar[str] = "VS"


_update_context(__name__)
'''


class Abort(BaseException):
    pass


class Coop:
    """Cooperative scheduler: one runnable thread at a time, schedule-driven."""

    def __init__(self, sched):
        self.cv = _real_threading.Condition()
        self.tids = {_real_threading.get_ident(): 0}
        self.conds = {0: None}
        self.done = set()
        self.cur = 0
        self.sched = list(sched)
        self.pos = 0
        self.trace = []
        self.both = []
        self.aborted = False
        self.deadlock = False
        self.closing = False
        self.crash = None
        self.boot_parent = None
        self.events = []
        self.rec_between = False
        self.stale = False
        self.quiet = False          # True while the collection is being constructed: main's SPs do not count
        self.real_threads = []
        self.depth = _real_threading.local()

    def me(self):
        return self.tids[_real_threading.get_ident()]

    def enabled(self, t):
        if t in self.done:
            return False
        c = self.conds.get(t)
        return c is None or bool(c())

    def pick(self):
        en = [t for t in sorted(self.conds) if self.enabled(t)]
        if not en:
            return None
        if self.pos < len(self.sched):
            want = self.sched[self.pos]
            self.pos += 1
        else:
            want = 0
        ch = want if want in en else en[0]
        if len(en) > 1:
            self.both.append(len(self.trace))
        self.trace.append(ch)
        if len(self.trace) > 20000:      # livelock guard: no program of the harness needs this many steps
            return None
        return ch

    def switch(self, cond=None):
        me = self.me()
        if self.quiet and me == 0:
            return
        with self.cv:
            if self.aborted:
                raise Abort()
            self.conds[me] = cond
            if self.boot_parent is not None:
                nxt = self.boot_parent
                self.boot_parent = None
            else:
                nxt = self.pick()
            if nxt is None:
                self.aborted = True
                self.deadlock = True
                self.cv.notify_all()
                raise Abort()
            self.cur = nxt
            self.cv.notify_all()
            while self.cur != me and not self.aborted:
                self.cv.wait()
            if self.aborted:
                raise Abort()

    def finish(self, me):
        """thread `me` ran to completion: hand over"""
        with self.cv:
            self.done.add(me)
            if self.aborted:
                self.cv.notify_all()
                return
            nxt = self.pick()
            if nxt is None:
                if len(self.done) < len(self.conds):
                    self.aborted = True
                    self.deadlock = True
                self.cur = -1
            else:
                self.cur = nxt
            self.cv.notify_all()

    def abort(self, crash=None):
        with self.cv:
            if crash is not None and self.crash is None:
                self.crash = crash
            self.aborted = True
            self.cv.notify_all()


COOP: Coop = None  # type: ignore
DEFS_DIR: Path = None  # type: ignore


class ShimEvent:
    """threading.Event under the cooperative scheduler.  Besides the flag it keeps the bookkeeping needed to
    recognise, from the REAL run alone, the recorded defect class `stale write_finished`: the writer executes
    write_finished.set() while write_to_disk is set again, or while the recorder is inside trigger_write between
    write_finished.clear() and write_to_disk.set()."""

    def __init__(self):
        self.flag = False
        self.idx = len(COOP.events)      # DataCollection.__init__ creates write_to_disk (0), then write_finished (1)
        COOP.events.append(self)

    def is_set(self):
        COOP.switch()
        return self.flag

    def set(self):
        COOP.switch()
        if self.idx == 1 and COOP.me() != 0:
            if COOP.events[0].flag or COOP.rec_between:
                COOP.stale = True
        if self.idx == 0 and COOP.me() == 0:
            COOP.rec_between = False
        self.flag = True

    def clear(self):
        COOP.switch()
        if self.idx == 1 and COOP.me() == 0 and sys._getframe(1).f_code.co_name == "trigger_write":
            COOP.rec_between = True
        self.flag = False

    def wait(self, timeout=None):
        COOP.switch(lambda: self.flag or COOP.closing)
        return self.flag


class ShimThread:
    def __init__(self, target=None, args=(), kwargs=None, **_):
        self.target = target
        self.args = args
        self.kwargs = kwargs or {}
        self.tid = None
        self.alive = False
        self.rt = None

    def start(self):
        coop = COOP
        self.tid = len(coop.conds)
        coop.conds[self.tid] = None
        self.alive = True
        parent = coop.me()

        def boot():
            coop.tids[_real_threading.get_ident()] = self.tid
            with coop.cv:
                while coop.cur != self.tid and not coop.aborted:
                    coop.cv.wait()
            try:
                if not coop.aborted:
                    self.target(*self.args, **self.kwargs)
            except Abort:
                pass
            except BaseException as e:  # a Python exception escaping the thread body
                self.alive = False
                coop.abort(dict(tid=self.tid, exc=type(e).__name__, msg=str(e)[:200],
                                tb=traceback.format_exc()[-1200:]))
                return
            self.alive = False
            coop.finish(self.tid)

        self.rt = _real_threading.Thread(target=boot, daemon=True)
        coop.real_threads.append(self.rt)
        # run the new thread up to its first switch point, then come back here (no schedule entry consumed)
        with coop.cv:
            coop.boot_parent = parent
            coop.cur = self.tid
        self.rt.start()
        with coop.cv:
            while coop.cur != parent and not coop.aborted:
                coop.cv.wait()

    def is_alive(self):
        return self.alive

    def join(self, timeout=None):
        if COOP.aborted:
            if self.rt is not None:
                self.rt.join(2.0)
            return
        COOP.switch(lambda: not self.alive)


class Clock:
    def __init__(self):
        self.now = 1000

    def time(self):
        return float(self.now)


def install(dc_mod, ds_mod, clock):
    """replace threading / time in the module namespace of data_collection; wrap DataSet entry points"""
    shim_thr = types.SimpleNamespace(Event=ShimEvent, Thread=ShimThread)
    dc_mod.threading = shim_thr
    dc_mod.time = types.SimpleNamespace(time=clock.time)
    DataSet = ds_mod.DataSet
    if not getattr(DataSet, "_verif_wrapped", False):
        o_stage, o_write = DataSet.stage_for_write, DataSet.write

        def stage_for_write(self):
            COOP.switch()
            return o_stage(self)

        def write(self):
            COOP.switch()
            return o_write(self)

        DataSet.stage_for_write = stage_for_write
        DataSet.write = write
        DataSet._verif_wrapped = True


def sp_formatter(base):
    """subclass of a package formatter whose outermost write/finalize entry is a switch point"""

    class F(base):
        name = base.name
        mode = base.mode
        ext = base.ext

        def write(self, wbuf):
            d = getattr(COOP.depth, "n", 0)
            if d == 0:
                COOP.switch()
            COOP.depth.n = d + 1
            try:
                return super().write(wbuf)
            finally:
                COOP.depth.n = d

        def finalize(self, wbuf):
            d = getattr(COOP.depth, "n", 0)
            if d == 0:
                COOP.switch()
            COOP.depth.n = d + 1
            try:
                return super().finalize(wbuf)
            finally:
                COOP.depth.n = d

    F.__name__ = "SP" + base.__name__
    return F


class WarnCounter(logging.Handler):
    def __init__(self):
        super().__init__(level=logging.WARNING)
        self.n = 0

    def emit(self, record):
        if "Unable to write fast enough" in record.getMessage():
            self.n += 1


def make_message(pyrtma, ns, mid, mtype):
    cls = {1001: ns["MDF_VA"], 1002: ns["MDF_VB"], 1003: ns["MDF_VC"], 1004: ns["MDF_VS"]}[mtype]
    data = cls()
    if mtype == 1001:
        data.serial = mid
    elif mtype == 1002:
        data.serial = mid
        data.pad[:] = [(mid * 7 + k) % 256 for k in range(4)]
        data.x = mid * 0.5
    elif mtype == 1003:
        data.b[:] = [(mid * 13 + 10 * k) % 256 for k in range(7)]   # may contain byte 10
    hdr = pyrtma.get_header_cls()()
    hdr.msg_type = mtype
    hdr.msg_count = mid
    hdr.send_time = 0.25 * mid
    hdr.recv_time = 0.0
    hdr.src_host_id = 0
    hdr.src_mod_id = 11
    hdr.dest_host_id = 0
    hdr.dest_mod_id = 0
    hdr.num_data_bytes = cls.type_size
    hdr.version = cls.type_hash
    return pyrtma.Message(hdr, data)


def read_back(pyrtma, fmt, path: Path, defs_path: Path, sent: dict, want_bytes: bool):
    """ids in the file + whether every message read equals the message that was handed in"""
    out = dict(ids=[], content_ok=True, err=None)
    raw = path.read_bytes()
    if want_bytes:
        out["bytes"] = list(raw)
    try:
        if fmt == "raw":
            H = pyrtma.get_header_cls()
            hs = H().size
            p = 0
            while p < len(raw):
                hb = raw[p:p + hs]
                if len(hb) < hs:
                    raise ValueError("truncated header")
                h = H.from_buffer_copy(hb)
                n = h.num_data_bytes
                db = raw[p + hs:p + hs + n]
                if len(db) < n:
                    raise ValueError("truncated data")
                p += hs + n
                out["ids"].append(h.msg_count)
                m = sent.get(h.msg_count)
                if m is None or bytes(m.header) != hb or bytes(m.data) != db:
                    out["content_ok"] = False
        elif fmt == "json":
            txt = raw.decode()
            lines = txt.split("\n")
            if lines[-1] != "":
                raise ValueError("last line not terminated")
            for ln in lines[:-1]:
                m2 = pyrtma.Message.from_json(ln)
                out["ids"].append(m2.header.msg_count)
                m = sent.get(m2.header.msg_count)
                if m is None or not (m == m2):
                    out["content_ok"] = False
        else:
            from pyrtma.utils.quicklogger_reader import QLReader
            import contextlib
            import io
            r = QLReader()
            sp = list(sys.path)
            try:
                with contextlib.redirect_stdout(io.StringIO()):
                    r.load(str(path), str(defs_path), skip_unknown=False)
            finally:
                sys.path[:] = sp
            fh = r.file_header
            out["ql_header"] = [fh.format_version, fh.total_bytes, fh.num_messages, fh.message_header_size,
                                fh.data_block_offset_size, fh.num_data_bytes]
            out["ql_size_ok"] = (fh.total_bytes == len(raw))
            for m2 in r.messages:
                out["ids"].append(m2.header.msg_count)
                m = sent.get(m2.header.msg_count)
                if m is None or bytes(m.header) != bytes(m2.header) or bytes(m.data) != bytes(m2.data) \
                        or type(m2.data).__name__ != type(m.data).__name__:
                    out["content_ok"] = False
    except Exception as e:
        out["err"] = f"{type(e).__name__}: {e}"[:200]
        out["content_ok"] = False
    return out


def run_case(case, mods):
    global COOP
    pyrtma, dc_mod, ds_mod, fmts, LoggingMetadata, ns, clock, warn = mods
    clock.now = 1000
    warn.n = 0
    tmp = Path(tempfile.mkdtemp(prefix="vlog_"))
    res = dict(trace=[], both=[], crash=None, files={}, arrivals=[], warnings=0, deadlock=False)
    coop = Coop(case.get("sched", []))
    COOP = coop
    dc = None
    try:
        defs_path = DEFS_DIR / "vdefs_c17.py"
        base = tmp / "out"
        base.mkdir()
        md = LoggingMetadata()
        md._metadata["session"] = 0
        coop.quiet = True
        dc = dc_mod.DataCollection("col", str(base), "s$(session)", md)
        coop.quiet = False
        for d in case["datasets"]:
            ds = ds_mod.DataSet("col", d["name"], "", d["name"], fmts[d["fmt"]], d["interval"], d["types"], md)
            dc.add_data_set(ds)
        sent = {}
        session = 0
        try:
            for op in case["prog"]:
                k = op[0]
                if k != "readd":          # (not an operation of the model: no scheduling point of its own)
                    coop.switch()
                if k == "tick":
                    clock.now += int(op[1])
                elif k == "start":
                    if dc.stopped:
                        session += 1
                        md._metadata["session"] = session
                        dc.start()
                elif k == "stop":
                    if not dc.stopped:
                        dc.stop()
                elif k == "pause":
                    dc.pause()
                elif k == "resume":
                    dc.resume()
                elif k == "upd":
                    m = make_message(pyrtma, ns, op[1], op[2])
                    sent[op[1]] = m
                    if (not dc.stopped) and (not dc.paused):
                        res["arrivals"].append([session, op[1], op[2]])
                    dc.update(m)
                elif k == "upd0":
                    dc.update(None)
                elif k == "readd":
                    # reconfiguration between recordings: every data set is added again under its own name with the
                    # same settings (a fresh DataSet object replaces the old one) - nothing changes for what is recorded
                    if dc.stopped:
                        coop.quiet = True
                        try:
                            for d in case["datasets"]:
                                dc.add_data_set(ds_mod.DataSet("col", d["name"], "", d["name"], fmts[d["fmt"]], d["interval"],
                                                               d["types"], md))
                        finally:
                            coop.quiet = False
                else:
                    raise RuntimeError("bad op " + str(op))
            coop.switch()
            coop.closing = True
            dc.close()
            coop.finish(0)
        except Abort:
            pass
        except Exception as e:
            coop.abort(dict(tid=0, exc=type(e).__name__, msg=str(e)[:200], tb=traceback.format_exc()[-1200:]))
        for t in coop.real_threads:
            t.join(5.0)
            if t.is_alive():
                res["leak"] = True
        res["trace"] = coop.trace
        res["both"] = coop.both
        res["crash"] = coop.crash
        res["deadlock"] = coop.deadlock
        res["warnings"] = warn.n
        res["stale"] = coop.stale
        # make sure nothing is left open before reading back
        for ds in dc.datasets:
            try:
                if ds.fd is not None:
                    ds.fd.close()
            except Exception:
                pass
        for d in case["datasets"]:
            fl = []
            ext = fmts[d["fmt"]].ext
            for sdir in sorted(base.glob("s*"), key=lambda p: int(p.name[1:])):
                paths = sorted(sdir.glob(d["name"] + "*" + ext))
                for p in paths:
                    stem = p.name[:-len(ext)]
                    if stem == d["name"]:
                        sub = 0
                    elif stem.startswith(d["name"] + "_") and stem[len(d["name"]) + 1:].isdigit():
                        sub = int(stem[len(d["name"]) + 1:])
                    else:
                        continue
                    rb = read_back(pyrtma, d["fmt"], p, defs_path, sent, bool(case.get("bytes")))
                    rb["session"] = int(sdir.name[1:])
                    rb["sub"] = sub
                    fl.append(rb)
            fl.sort(key=lambda r: (r["session"], r["sub"]))
            res["files"][d["name"]] = fl
        if case.get("bytes"):
            res["sent"] = {str(i): [list(bytes(m.header)), list(bytes(m.data)),
                                    list((m.to_json(minify=True)).encode())] for i, m in sent.items()}
    except Exception as e:
        res["crash"] = dict(tid=-1, exc="HARNESS:" + type(e).__name__, msg=str(e)[:300], tb=traceback.format_exc()[-1500:])
    finally:
        coop.abort()
        if dc is not None:
            dc._dead = True
        shutil.rmtree(tmp, ignore_errors=True)
    return res


def main():
    out = os.fdopen(os.dup(1), "w")
    sys.stdout = sys.stderr = open(os.devnull, "w")
    _real_threading.excepthook = lambda a: None
    cases = json.load(sys.stdin)
    import pyrtma
    import pyrtma.data_logger  # registers default formatters
    import pyrtma.data_logger.data_collection as dc_mod
    import pyrtma.data_logger.data_set as ds_mod
    from pyrtma.data_logger.metadata import LoggingMetadata
    from pyrtma.data_logger.formatters.quicklogger import QLFormatter
    from pyrtma.data_logger.formatters.raw import RawFormatter
    from pyrtma.data_logger.formatters.json import JsonFormatter
    ns: dict = {"__name__": "vdefs_c17_live"}
    sys.modules["vdefs_c17_live"] = types.ModuleType("vdefs_c17_live")
    exec(DEFS_TEXT.replace("_update_context(__name__)", ""), ns)
    clock = Clock()
    install(dc_mod, ds_mod, clock)
    lg = logging.getLogger("data_logger")
    lg.propagate = False
    lg.setLevel(logging.WARNING)
    warn = WarnCounter()
    lg.addHandler(warn)
    fmts = {"raw": sp_formatter(RawFormatter), "json": sp_formatter(JsonFormatter), "quicklogger": sp_formatter(QLFormatter)}
    consts = dict(WRITE_PERIOD=dc_mod.DataCollection.WRITE_PERIOD, MIN_INTERVAL=ds_mod.DataSet.MIN_INTERVAL,
                  MAX_INTERVAL=ds_mod.DataSet.MAX_INTERVAL, ALL_MESSAGE_TYPES=pyrtma.core_defs.ALL_MESSAGE_TYPES,
                  header_size=pyrtma.get_header_cls()().size)
    mods = (pyrtma, dc_mod, ds_mod, fmts, LoggingMetadata, ns, clock, warn)
    global DEFS_DIR
    DEFS_DIR = Path(tempfile.mkdtemp(prefix="vlogdefs_"))
    (DEFS_DIR / "vdefs_c17.py").write_text(DEFS_TEXT)
    results = []
    try:
        for c in cases:
            if c.get("mode") == "explore":
                # stateless exhaustive exploration of the schedules of one program, in this process:
                # run with a schedule prefix, branch on every later decision at which both threads were enabled
                frontier = [[]]
                expl = []
                complete = True
                while frontier:
                    if len(expl) >= c["budget"]:
                        complete = False
                        break
                    pfx = frontier.pop(0)
                    r = run_case(dict(c["base"], sched=pfx), mods)
                    r["consts"] = consts
                    expl.append(r)
                    for i in r["both"]:
                        if i >= len(pfx):
                            frontier.append(r["trace"][:i] + [1 - r["trace"][i]])
                results.append(dict(explored=expl, complete=complete))
                continue
            r = run_case(c, mods)
            r["consts"] = consts
            results.append(r)
    finally:
        shutil.rmtree(DEFS_DIR, ignore_errors=True)
    json.dump(results, out)
    out.flush()


if __name__ == "__main__":
    main()
