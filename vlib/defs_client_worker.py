"""Runs the REAL compiler + generated python module + REAL pyrtma.client.Client send paths and
captures the frames a peer would receive (C13: header.version).

    python defs_client_worker.py < cases.json > results.json      (PYTHONPATH=/repo/src)

case: {"revs": [{"files":.., "root":.., "messages": [...], "signals": [...]}, ...], "order": [rev index...]}   (see run_revisions)
   or {"files": {rel: text}, "root": rel, "messages": [name...], "signals": [name...], "undefined_ids": [int...]}
result: {"ok": bool, "err": str, "frames": [{"path": "send_message"|"send_signal"|"forward_message",
          "name":..., "type_hash": int, "parser_hash": str, "version": int, "msg_type": int, "nbytes": int}]}

No manager is needed: the client's socket is one end of a socketpair and the connection flag
is set by hand; send_message / send_signal / forward_message themselves are the real code.
"""
from __future__ import annotations

import contextlib
import importlib.util
import io
import json
import logging
import os
import shutil
import socket
import struct
import sys
import tempfile
import traceback
from pathlib import Path

HDR = struct.Struct("<iiddhhhhiiiI")     # MessageHeader: ... is_dynamic, reserved(=version)


def recv_exact(s: socket.socket, n: int) -> bytes:
    buf = b""
    while len(buf) < n:
        chunk = s.recv(n - len(buf))
        if not chunk:
            raise RuntimeError("peer closed")
        buf += chunk
    return buf


def run_case(k: int, case: dict) -> dict:
    from pyrtma.parser import Parser
    from pyrtma.compilers.python import PyDefCompiler
    from pyrtma.client import Client
    from pyrtma.header import MessageHeader
    import ctypes
    d = Path(tempfile.mkdtemp(prefix="vcli_"))
    cwd = os.getcwd()
    res = dict(ok=False, err="", frames=[])
    try:
        for rel, text in case["files"].items():
            p = d / rel
            p.parent.mkdir(parents=True, exist_ok=True)
            p.write_text(text)
        parser = Parser(import_coredefs=True)
        for h in list(parser.logger.handlers):
            parser.logger.removeHandler(h)
        parser.logger.addHandler(logging.NullHandler())
        with contextlib.redirect_stdout(io.StringIO()), contextlib.redirect_stderr(io.StringIO()):
            parser.parse(d / case["root"])
            out = d / f"vgen_{k}.py"
            PyDefCompiler(parser).generate(out)
        name = f"vgen_{k}"
        spec = importlib.util.spec_from_file_location(name, out)
        mod = importlib.util.module_from_spec(spec)
        sys.modules[name] = mod
        spec.loader.exec_module(mod)
        assert ctypes.sizeof(MessageHeader) == HDR.size, "header layout changed"
        a, b = socket.socketpair()
        c = Client(module_id=11)
        c._sock = a
        c._connected = True

        def grab(path, nm, thash):
            raw = recv_exact(b, HDR.size)
            f = HDR.unpack(raw)
            if f[8] > 0:
                recv_exact(b, f[8])
            res["frames"].append(dict(path=path, name=nm, type_hash=thash, parser_hash=parser.message_defs[nm].hash,
                                      version=f[11], msg_type=f[0], nbytes=f[8]))
        with contextlib.redirect_stdout(io.StringIO()):
            for nm in case.get("messages", []):
                cls = getattr(mod, "MDF_" + nm)
                c.send_message(cls())
                grab("send_message", nm, cls.type_hash)
                # forward: a fresh header (version never set), and a header that already carries a version
                hdr = MessageHeader()
                hdr.msg_type = cls.type_id
                c.forward_message(hdr, cls())
                grab("forward_message:fresh-header", nm, cls.type_hash)
                hdr = MessageHeader()
                hdr.msg_type = cls.type_id
                hdr.version = 0x0BADC0DE
                c.forward_message(hdr, cls())
                grab("forward_message:stamped-header", nm, cls.type_hash)
            for nm in case.get("signals", []):
                cls = getattr(mod, "MDF_" + nm)
                c.send_message(cls())
                grab("send_message", nm, cls.type_hash)
                c.send_signal(getattr(mod, "MT_" + nm))
                grab("send_signal", nm, cls.type_hash)
            for mt in case.get("undefined_ids", []):      # no definition registered under this id
                c.send_signal(mt)
                f = HDR.unpack(recv_exact(b, HDR.size))
                res["frames"].append(dict(path="send_signal:undefined-type", name=str(mt), type_hash=0, parser_hash="0" * 64,
                                          version=f[11], msg_type=f[0], nbytes=f[8]))
        a.close()
        b.close()
        res["ok"] = True
        return res
    except BaseException as e:  # noqa
        res["err"] = f"{type(e).__name__}: {e}\n" + traceback.format_exc()[-600:]
        return res
    finally:
        os.chdir(cwd)
        shutil.rmtree(d, ignore_errors=True)


def run_revisions(k: int, case: dict) -> dict:
    """Several revisions of a definition file, each compiled to its own python module, all imported into
    THIS process in the given order (the id -> class registry keeps the last import).  An instance of every
    listed message of every revision is sent; every listed signal is sent through send_signal with the MT_
    constant of its own module and through send_message."""
    from pyrtma.parser import Parser
    from pyrtma.compilers.python import PyDefCompiler
    from pyrtma.client import Client
    d = Path(tempfile.mkdtemp(prefix="vcli_"))
    cwd = os.getcwd()
    res = dict(ok=False, err="", frames=[])
    try:
        built = {}
        for j, rev in enumerate(case["revs"]):
            rd = d / f"rev{j}"
            for rel, text in rev["files"].items():
                p = rd / rel
                p.parent.mkdir(parents=True, exist_ok=True)
                p.write_text(text)
            parser = Parser(import_coredefs=True)
            for h in list(parser.logger.handlers):
                parser.logger.removeHandler(h)
            parser.logger.addHandler(logging.NullHandler())
            with contextlib.redirect_stdout(io.StringIO()), contextlib.redirect_stderr(io.StringIO()):
                parser.parse(rd / rev["root"])
                out = d / f"vrev_{k}_{j}.py"
                PyDefCompiler(parser).generate(out)
            built[j] = (parser, out)
        mods = {}
        for j in case["order"]:
            name = f"vrev_{k}_{j}"
            spec = importlib.util.spec_from_file_location(name, built[j][1])
            mod = importlib.util.module_from_spec(spec)
            sys.modules[name] = mod
            spec.loader.exec_module(mod)
            mods[j] = mod
        a, b = socket.socketpair()
        c = Client(module_id=11)
        c._sock = a
        c._connected = True

        def grab(path, j, nm, thash):
            f = HDR.unpack(recv_exact(b, HDR.size))
            if f[8] > 0:
                recv_exact(b, f[8])
            res["frames"].append(dict(path=path, rev=j, name=nm, type_hash=thash,
                                      parser_hash=built[j][0].message_defs[nm].hash, version=f[11], msg_type=f[0],
                                      nbytes=f[8], import_order=case["order"]))
        with contextlib.redirect_stdout(io.StringIO()):
            for j in sorted(mods):
                for nm in case["revs"][j].get("messages", []):
                    cls = getattr(mods[j], "MDF_" + nm)
                    c.send_message(cls())
                    grab("send_message", j, nm, cls.type_hash)
                for nm in case["revs"][j].get("signals", []):
                    cls = getattr(mods[j], "MDF_" + nm)
                    c.send_message(cls())
                    grab("send_message", j, nm, cls.type_hash)
                    c.send_signal(getattr(mods[j], "MT_" + nm))
                    grab("send_signal", j, nm, cls.type_hash)
        a.close()
        b.close()
        res["ok"] = True
        return res
    except BaseException as e:  # noqa
        res["err"] = f"{type(e).__name__}: {e}\n" + traceback.format_exc()[-600:]
        return res
    finally:
        os.chdir(cwd)
        shutil.rmtree(d, ignore_errors=True)


def run_late(k: int, case: dict) -> dict:
    """send_signal of an id BEFORE any definition of it is imported, after the first definition is imported, and after
    a second module redefines the signal under the same id - from the first client and from a brand-new one."""
    from pyrtma.parser import Parser
    from pyrtma.compilers.python import PyDefCompiler
    from pyrtma.client import Client
    d = Path(tempfile.mkdtemp(prefix="vcli_"))
    cwd = os.getcwd()
    res = dict(ok=False, err="", frames=[])
    try:
        built = {}
        for j, rev in enumerate(case["revs"]):
            rd = d / f"rev{j}"
            for rel, text in rev["files"].items():
                p = rd / rel
                p.parent.mkdir(parents=True, exist_ok=True)
                p.write_text(text)
            parser = Parser(import_coredefs=True)
            for h in list(parser.logger.handlers):
                parser.logger.removeHandler(h)
            parser.logger.addHandler(logging.NullHandler())
            with contextlib.redirect_stdout(io.StringIO()), contextlib.redirect_stderr(io.StringIO()):
                parser.parse(rd / rev["root"])
                out = d / f"vlate_{k}_{j}.py"
                PyDefCompiler(parser).generate(out)
            built[j] = (parser, out)

        def load(j):
            name = f"vlate_{k}_{j}"
            spec = importlib.util.spec_from_file_location(name, built[j][1])
            mod = importlib.util.module_from_spec(spec)
            sys.modules[name] = mod
            spec.loader.exec_module(mod)
            return mod

        def client():
            a, b = socket.socketpair()
            c = Client(module_id=11)
            c._sock = a
            c._connected = True
            return c, b

        def grab(b, step, who, expect_rev):
            f = HDR.unpack(recv_exact(b, HDR.size))
            ph = built[expect_rev][0].message_defs[case["revs"][expect_rev]["signal"]].hash if expect_rev is not None else "0" * 64
            res["frames"].append(dict(path="send_signal", step=step, client=who, expect_rev=expect_rev, parser_hash=ph,
                                      version=f[11], msg_type=f[0], nbytes=f[8]))
        sid = case["id"]
        with contextlib.redirect_stdout(io.StringIO()):
            c1, b1 = client()
            c1.send_signal(sid)
            grab(b1, "before-any-definition", "first", None)
            m0 = load(0)
            c1.send_signal(getattr(m0, "MT_" + case["revs"][0]["signal"]))
            grab(b1, "after-first-import", "first", 0)
            if len(case["revs"]) > 1:
                m1 = load(1)
                c1.send_signal(getattr(m1, "MT_" + case["revs"][1]["signal"]))
                grab(b1, "after-redefinition", "first", 1)
                c2, b2 = client()
                c2.send_signal(getattr(m1, "MT_" + case["revs"][1]["signal"]))
                grab(b2, "after-redefinition", "brand-new", 1)
        res["ok"] = True
        return res
    except BaseException as e:  # noqa
        res["err"] = f"{type(e).__name__}: {e}\n" + traceback.format_exc()[-600:]
        return res
    finally:
        os.chdir(cwd)
        shutil.rmtree(d, ignore_errors=True)


def main():
    cases = json.load(sys.stdin)
    real = os.fdopen(os.dup(1), "w")     # keep the result channel; children (black) inherit fd 1 = stderr
    os.dup2(2, 1)
    sys.stdout = sys.stderr
    out = [(run_late(k, c) if c.get("late") else run_revisions(k, c) if "revs" in c else run_case(k, c))
           for k, c in enumerate(cases)]
    json.dump(out, real)
    real.flush()


if __name__ == "__main__":
    main()
