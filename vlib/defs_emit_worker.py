"""Runs the REAL pyrtma compiler (pyrtma.compile.compile) and the real loaders of its outputs.

Executed as a subprocess (fresh interpreter, PYTHONPATH=<repo>/src):
    python defs_emit_worker.py  < cases.json  > results.json

case: {"files": {rel: text}, "root": rel, "auto_pad": bool, "import_coredefs": bool,
       "ops": subset of ["separate", "load_py", "load_c", "load_js", "rt", "det"],
       "other": {"files":..., "root":...}   (det only: a different closure compiled in between)}
result: see run_case.

Back ends are run exactly the way the CLI does: one call of pyrtma.compile.compile with every
output requested (python, javascript, matlab, c, combined - in that order, on ONE Parser).
"separate" additionally runs javascript/matlab/c/combined each on a fresh Parser, so that a back end
mutating the shared parsed model shows up as a difference.
"""
from __future__ import annotations

import contextlib
import io
import json
import logging
import os
import shutil
import signal
import subprocess
import sys
import tempfile
import traceback
from pathlib import Path

# ---- watchdog: no stage of a case may run for ever.  A parse / compile / re-parse that does not finish is a result
# of its own ("HANG", with the stage), not a harness failure: the case is reported and the worker goes on.
T_PARSE = float(os.environ.get("VERIF_EMIT_T_PARSE", "20"))      # Parser.parse of one closure (normally milliseconds)
T_COMPILE = float(os.environ.get("VERIF_EMIT_T_COMPILE", "40"))  # pyrtma.compile.compile, all five outputs
T_LOAD = float(os.environ.get("VERIF_EMIT_T_LOAD", "120"))       # python import / gcc / node, each in its own subprocess


class Hang(BaseException):
    """raised by the SIGALRM handler inside the stage that did not finish (BaseException: not swallowed by the
    `except Exception` clauses of the code under test)"""

    def __init__(self, stage, seconds):
        super().__init__(f"{stage} did not finish within {seconds:g} s")
        self.stage = stage


@contextlib.contextmanager
def watchdog(stage: str, seconds: float):
    def on_alarm(signum, frame):
        raise Hang(stage, seconds)
    old = signal.signal(signal.SIGALRM, on_alarm)
    signal.setitimer(signal.ITIMER_REAL, seconds)
    try:
        yield
    finally:
        signal.setitimer(signal.ITIMER_REAL, 0)
        signal.signal(signal.SIGALRM, old)


OUTS = {"python": "gen.py", "javascript": "gen.js", "matlab": "gen.m", "c": "gen.h", "combined": "gen_combined.yaml"}

C_CORE_PRELUDE = """
typedef int16_t MODULE_ID; typedef int16_t HOST_ID; typedef int32_t MSG_TYPE; typedef int32_t MSG_COUNT;
typedef struct { MSG_TYPE msg_type; MSG_COUNT msg_count; double send_time; double recv_time; HOST_ID src_host_id;
 MODULE_ID src_mod_id; HOST_ID dest_host_id; MODULE_ID dest_mod_id; int32_t num_data_bytes; int32_t remaining_bytes;
 int32_t is_dynamic; uint32_t reserved; } RTMA_MSG_HEADER;
"""

PYLOAD = r'''
import ctypes, importlib.util, json, sys, warnings
warnings.simplefilter("ignore")
path = sys.argv[1]
out = dict(ok=False, err="", classes=[], ints={}, aliases={}, strs={})
try:
    import pyrtma, pyrtma.message
    from pyrtma.message_base import MessageBase
    from pyrtma.message_data import MessageData
    spec = importlib.util.spec_from_file_location("vgen_defs", path)
    mod = importlib.util.module_from_spec(spec)
    sys.modules["vgen_defs"] = mod
    spec.loader.exec_module(mod)
except BaseException as e:
    out["err"] = "%s: %s" % (type(e).__name__, str(e)[:300])
    print("@@PYLOAD" + json.dumps(out)); sys.exit(0)
out["ok"] = True
CODES = {"c": (1, 3), "b": (1, 0), "B": (1, 1), "h": (2, 0), "H": (2, 1), "i": (4, 0), "I": (4, 1), "l": (8, 0), "L": (8, 1),
         "q": (8, 0), "Q": (8, 1), "f": (4, 2), "d": (8, 2)}
def desc(ct):
    # -> [kind, width, count(or -1 scalar), refname]
    if hasattr(ct, "_length_"):
        d = desc(ct._type_)
        return [d[0], d[1], ct._length_, d[3]]
    if isinstance(getattr(ct, "_type_", None), str):
        w = ctypes.sizeof(ct)
        return [CODES.get(ct._type_, (w, 9))[1], w, -1, ""]
    if isinstance(ct, type) and issubclass(ct, ctypes.Structure):
        return [5 if issubclass(ct, MessageData) else 4, ctypes.sizeof(ct), -1, ct.__name__]
    return [9, 0, -1, repr(ct)]
for k, v in list(mod.__dict__.items()):
    if k.startswith("_") or k in ("ctypes", "pyrtma", "ClassVar", "check_compiled_version", "get_context"):
        continue
    if isinstance(v, bool):
        out["ints"][k] = int(v)
    elif isinstance(v, int):
        out["ints"][k] = v
    elif isinstance(v, float):
        out["ints"][k] = repr(v)
    elif isinstance(v, str):
        out["strs"][k] = v
    elif isinstance(v, type) and k not in ("MessageBase", "MessageMeta", "MessageData") and (
            issubclass(v, ctypes.Structure) or issubclass(v, ctypes._SimpleCData) or issubclass(v, ctypes.Array)):
        if not (issubclass(v, ctypes.Structure) and v.__module__ == "vgen_defs" and v.__name__ == k):
            out["aliases"][k] = desc(v)
            continue
        c = dict(name=k, size=ctypes.sizeof(v), type_name=getattr(v, "type_name", None),
                 type_hash=getattr(v, "type_hash", None), type_size=getattr(v, "type_size", None),
                 type_source=getattr(v, "type_source", None),
                 type_id=(getattr(v, "type_id", None) if issubclass(v, MessageData) else None), fields=[])
        if issubclass(v, MessageData):
            c["registered"] = pyrtma.message._msg_defs.get(v.type_id) is v
        for fname, ct in v._fields_:
            m = getattr(v, fname)
            dsc = v.__dict__.get(fname[1:])
            c["fields"].append(dict(name=fname[1:], offset=m.offset, size=m.size, ctype=desc(ct),
                                    desc=type(dsc).__name__,
                                    desc_len=getattr(dsc, "_len", getattr(dsc, "len", None))))
        out["classes"].append(c)
print("@@PYLOAD" + json.dumps(out))
'''

JSLOAD = r'''
const path = process.argv[2];
function analyse(v) {
  // returns {shape, shared}: shape is a compact description, shared = some object reached twice
  const seen = new Set(); let shared = false;
  function go(x) {
    if (x === null) return "null";
    if (typeof x === "number") return "n";
    if (typeof x === "string") return "s" + x.length;
    if (typeof x === "undefined") return "undef";
    if (typeof x === "function") return "fn";
    if (typeof x !== "object") return typeof x;
    if (seen.has(x)) { shared = true; return "SHARED"; }
    seen.add(x);
    if (Array.isArray(x)) { const e = []; for (let i = 0; i < x.length; i++) e.push((i in x) ? go(x[i]) : "hole");
      let same = e.every(s => s === e[0] || s === "SHARED");
      return {a: x.length, e: (x.length ? e[0] : null), same: same, holes: e.includes("hole")}; }
    const o = []; for (const k of Object.keys(x)) o.push([k, go(x[k])]); return {o: o};
  }
  const shape = go(v); return {shape: shape, shared: shared, seen: seen};
}
const out = {ok: false, err: "", SDF: {}, MDF: {}, scal: {}};
import("file://" + path).then(m => {
  const R = m.RTMA; out.ok = true;
  for (const sec of ["constants", "MT", "MID", "HID", "HASH"]) { out.scal[sec] = {}; if (R[sec]) for (const k of Object.keys(R[sec])) out.scal[sec][k] = R[sec][k]; }
  out.scal.aliases = {}; if (R.aliases) for (const k of Object.keys(R.aliases)) out.scal.aliases[k] = typeof R.aliases[k];
  for (const sec of ["SDF", "MDF"]) { if (!R[sec]) continue;
    for (const k of Object.keys(R[sec])) {
      const r = {ok: false, err: "", shape: null, shared: false, fresh2: true};
      try { const f = R[sec][k]; if (typeof f !== "function") throw new TypeError("not a function: " + typeof f);
        const v1 = f(); const a1 = analyse(v1); r.shape = a1.shape; r.shared = a1.shared;
        const v2 = f(); const a2 = analyse(v2); for (const x of a2.seen) if (a1.seen.has(x)) r.fresh2 = false;
        r.ok = true; } catch (e) { r.err = String(e).slice(0, 200); }
      out[sec][k] = r; } }
  console.log("@@JSLOAD" + JSON.stringify(out));
}).catch(e => { out.err = String(e).slice(0, 300); console.log("@@JSLOAD" + JSON.stringify(out)); });
'''


def dump_def(d):
    fields = []
    for f in d.fields:
        to = f.type_obj
        kind = type(to).__name__
        akind = None
        if kind == "TypeAlias":
            akind = type(to.type_obj).__name__
        fields.append(dict(name=f.name, type_name=f.type_name, length=f.length, offset=f.offset,
                           size=f.size, base_size=f.base_size, alignment=f.alignment, kind=kind, akind=akind,
                           base=(to.type_name if kind == "TypeAlias" else None)))
    out = dict(name=d.name, size=d.size, alignment=d.alignment, fields=fields, raw=d.raw, hash=d.hash,
               src=d.src.as_posix())
    if hasattr(d, "type_id"):
        out["type_id"] = d.type_id
    return out


def pathlib_posix(p):
    try:
        return p.as_posix()
    except Exception:
        return str(p)


def dump_parser(parser):
    def cv(v):
        return v if isinstance(v, (int, str)) and not isinstance(v, bool) else repr(v)
    return dict(
        constants=[[k, cv(v.value), type(v.value).__name__, v.src.as_posix()] for k, v in parser.constants.items()],
        string_constants=[[k, v.value] for k, v in parser.string_constants.items()],
        aliases=[[k, v.type_name, type(v.type_obj).__name__, v.size, v.alignment, pathlib_posix(v.src)] for k, v in parser.aliases.items()],
        host_ids=[[k, v.value, v.src.as_posix()] for k, v in parser.host_ids.items()],
        module_ids=[[k, v.value, v.src.as_posix()] for k, v in parser.module_ids.items()],
        message_ids=[[k, v.value, v.src.as_posix()] for k, v in parser.message_ids.items()],
        structs=[dump_def(s) for s in parser.struct_defs.values()],
        messages=[dump_def(m) for m in parser.message_defs.values()],
    )


def quiet_parser(P, **kw):
    parser = P(**kw)
    for h in list(parser.logger.handlers):
        parser.logger.removeHandler(h)
    parser.logger.addHandler(logging.NullHandler())
    return parser


def write_files(d: Path, files):
    for rel, text in files.items():
        p = d / rel
        p.parent.mkdir(parents=True, exist_ok=True)
        p.write_text(text)


def root_options(P, path: Path) -> dict:
    """what the CLI does before it builds the Parser (pyrtma.compile.main): the `compiler_options` section of the file
    being compiled - and of no other file - replaces the defaults; a flag of the command line can only switch an
    option off.  -> {"IMPORT_COREDEFS", "VALIDATE_ALIGNMENT", "AUTO_PAD", "_raw": the section as written}"""
    o = {"IMPORT_COREDEFS": True, "VALIDATE_ALIGNMENT": True, "AUTO_PAD": True}
    p0 = quiet_parser(P)
    with contextlib.redirect_stdout(io.StringIO()), contextlib.redirect_stderr(io.StringIO()):
        with watchdog("parse-options", T_PARSE):
            opts = p0.parse_compiler_options(path)
    raw = {k: v.value for k, v in opts.items()}
    for k, v in raw.items():
        o[k] = v
    o["_raw"] = raw
    return o


def do_compile(root: Path, out: Path, auto_pad, import_coredefs, cwd=None, validate_alignment=True, out_arg=None):
    """the real pyrtma.compile.compile, every output, CLI order. returns (exc or None, {lang: text|None})
    out: where the outputs end up (absolute); out_arg: the -o argument as given to the compiler (default: str(out);
    may be relative to cwd, ".", or "" = the compiler's default, the directory of the root file)"""
    from pyrtma.compile import compile as rtma_compile
    out.mkdir(parents=True, exist_ok=True)
    if out_arg is None:
        out_arg = str(out)
    old = os.getcwd()
    exc = None
    buf = io.StringIO()
    try:
        if cwd:
            os.chdir(cwd)
        with contextlib.redirect_stdout(buf), contextlib.redirect_stderr(buf):
            logging.disable(logging.CRITICAL)
            try:
                with watchdog("compile", T_COMPILE):
                    rtma_compile([str(root)], out_arg, "gen", python=True, javascript=True, matlab=True, c_lang=True,
                                 combined=True, auto_pad=auto_pad, import_coredefs=import_coredefs,
                                 validate_alignment=validate_alignment)
            finally:
                logging.disable(logging.NOTSET)
    except Hang as e:
        exc = "HANG: %s" % e
    except BaseException as e:  # noqa
        exc = "%s: %s" % (type(e).__name__, str(e)[:300])
    finally:
        os.chdir(old)
    outs = {}
    for lang, fn in OUTS.items():
        p = out / fn
        outs[lang] = p.read_text() if p.exists() else None
    return exc, outs


def load_python(pyfile: Path, env):
    try:
        p = subprocess.run([sys.executable, "-c", PYLOAD, str(pyfile)], capture_output=True, text=True, env=env, cwd="/",
                           timeout=T_LOAD)
    except subprocess.TimeoutExpired:
        return dict(ok=False, err=f"HANG: import of the generated module did not finish within {T_LOAD:g} s", classes=[], ints={},
                    aliases={}, strs={})
    for ln in p.stdout.splitlines():
        if ln.startswith("@@PYLOAD"):
            return json.loads(ln[8:])
    return dict(ok=False, err="loader died: " + (p.stderr or p.stdout)[-400:], classes=[], ints={}, aliases={}, strs={})


def load_js(jsfile: Path, workdir: Path):
    mjs = workdir / "gen_load.mjs"
    shutil.copy(jsfile, mjs)
    drv = workdir / "drv.mjs"
    drv.write_text(JSLOAD)
    try:
        p = subprocess.run(["node", str(drv), str(mjs)], capture_output=True, text=True, timeout=T_LOAD, cwd=str(workdir))
    except subprocess.TimeoutExpired:
        return dict(ok=False, err=f"HANG: node did not finish within {T_LOAD:g} s", SDF={}, MDF={}, scal={})
    for ln in p.stdout.splitlines():
        if ln.startswith("@@JSLOAD"):
            return json.loads(ln[8:])
    return dict(ok=False, err="node died: " + (p.stderr or p.stdout)[-400:], SDF={}, MDF={}, scal={})


def load_c(hfile: Path, workdir: Path, model, core: bool, cc="gcc"):
    """gcc -fsyntax-only on the header, then (if that passes) the sizeof/offsetof probe"""
    pre = "#include <stdint.h>\n#include <stddef.h>\n#include <stdio.h>\n" + (C_CORE_PRELUDE if core else "")
    tu = workdir / "syntax.c"
    tu.write_text(pre + f'#include "{hfile.name}"\nint main(void){{return 0;}}\n')
    try:
        p = subprocess.run([cc, "-std=gnu11", "-fsyntax-only", "-I", str(hfile.parent), str(tu)], capture_output=True, text=True,
                           timeout=T_LOAD)
    except subprocess.TimeoutExpired:
        return dict(ok=False, err=f"HANG: {cc} -fsyntax-only did not finish within {T_LOAD:g} s", warn="", probe=None)
    res = dict(ok=p.returncode == 0, err=p.stderr[-600:] if p.returncode else "", warn="", probe=None)
    if p.returncode == 0 and p.stderr.strip():
        res["warn"] = p.stderr[-600:]
    # the macros as the C preprocessor sees them (gcc -E -dM: name and replacement text of every object-like macro)
    try:
        pm = subprocess.run([cc, "-std=gnu11", "-E", "-dM", "-I", str(hfile.parent), str(tu)], capture_output=True, text=True, timeout=T_LOAD)
        if pm.returncode == 0:
            mac = {}
            for ln in pm.stdout.splitlines():
                t = ln.split(None, 2)
                if len(t) >= 2 and t[0] == "#define" and "(" not in t[1] and not t[1].startswith("__"):
                    mac[t[1]] = t[2].strip() if len(t) == 3 else ""
            res["macros"] = mac
    except subprocess.TimeoutExpired:
        pass
    if not res["ok"]:
        return res
    lines = [pre, f'#include "{hfile.name}"', "int main(void){"]
    defs = []
    for s in model["structs"]:
        if not s["src"].startswith("core_defs/"):
            defs.append((s["name"], [f["name"] for f in s["fields"]]))
    for m in model["messages"]:
        if not m["src"].startswith("core_defs/") and m["fields"]:
            defs.append(("MDF_" + m["name"], [f["name"] for f in m["fields"]]))
    for cname, fnames in defs:
        lines.append(f'printf("S %s %zu %zu\\n", "{cname}", sizeof({cname}), _Alignof({cname}));')
        for fn in fnames:
            lines.append(f'printf("F %s %s %zu %zu\\n", "{cname}", "{fn}", offsetof({cname}, {fn}), sizeof((({cname}*)0)->{fn}));')
    lines.append("return 0;}")
    src = workdir / "probe.c"
    src.write_text("\n".join(lines))
    exe = workdir / "probe"
    try:
        p = subprocess.run([cc, "-std=gnu11", "-w", "-I", str(hfile.parent), str(src), "-o", str(exe)], capture_output=True, text=True,
                           timeout=T_LOAD)
        if p.returncode != 0:
            res["probe"] = dict(error=p.stderr[-600:])
            return res
        o = subprocess.run([str(exe)], capture_output=True, text=True, timeout=T_LOAD).stdout
    except subprocess.TimeoutExpired:
        res["probe"] = dict(error=f"HANG: probe did not build / run within {T_LOAD:g} s")
        return res
    pr = {}
    for ln in o.splitlines():
        t = ln.split()
        if t[0] == "S":
            pr[t[1]] = dict(size=int(t[2]), align=int(t[3]), offs={}, fsz={})
        else:
            pr[t[1]]["offs"][t[2]] = int(t[3])
            pr[t[1]]["fsz"][t[2]] = int(t[4])
    res["probe"] = pr
    return res


def run_case(case):
    from pyrtma.parser import Parser
    import pyrtma.parser as PM
    d = Path(tempfile.mkdtemp(prefix="vemit_"))
    cwd0 = os.getcwd()
    ops = case.get("ops", [])
    ap = case.get("auto_pad", True)
    core = case.get("import_coredefs", False)
    res = dict(ok=False, exc=None, msg="", is_parser_error=None, model=None, compile_exc=None, outputs={},
               separate={}, load={}, rt=None, det=None)
    env = dict(os.environ)
    try:
        src = d / "src"
        write_files(src, case["files"])
        root = src / case["root"]
        # A. parse + ordered dump.  The options are those of the CLI: the root file's compiler_options section over the
        #    defaults; the case's auto_pad / import_coredefs act like the command line flags (can only switch off)
        val = True
        try:
            ro = root_options(Parser, root)
            ap = bool(ap and ro["AUTO_PAD"])
            core = bool(core and ro["IMPORT_COREDEFS"])
            val = bool(ro["VALIDATE_ALIGNMENT"])
            res["root_options"] = ro["_raw"]
        except FileNotFoundError:
            pass                      # reported by the parse below
        except Hang as e:
            res["exc"] = "HANG"
            res["hang"] = e.stage
            res["is_parser_error"] = False
            res["msg"] = "Parser.parse_compiler_options " + str(e)
            return res
        except BaseException as e:  # noqa
            res["exc"] = type(e).__name__
            res["is_parser_error"] = isinstance(e, PM.ParserError)
            res["msg"] = "compiler_options: " + str(e)[:280]
            return res
        res["effective_options"] = dict(AUTO_PAD=ap, IMPORT_COREDEFS=core, VALIDATE_ALIGNMENT=val)
        parser = quiet_parser(Parser, auto_pad=ap, import_coredefs=core, validate_alignment=val)
        try:
            with contextlib.redirect_stdout(io.StringIO()), contextlib.redirect_stderr(io.StringIO()):
                with watchdog("parse", T_PARSE):
                    parser.parse(root)
        except Hang as e:
            res["exc"] = "HANG"
            res["hang"] = e.stage
            res["is_parser_error"] = False
            res["msg"] = "Parser.parse " + str(e)
            return res
        except BaseException as e:  # noqa
            res["exc"] = type(e).__name__
            res["is_parser_error"] = isinstance(e, PM.ParserError)
            res["msg"] = str(e)[:300]
            return res
        res["ok"] = True
        res["model"] = dump_parser(parser)
        # B. the CLI's compile(), all outputs on one Parser, CLI order
        out = d / "out"
        res["compile_exc"], res["outputs"] = do_compile(root, out, ap, core, validate_alignment=val)
        # C. each other back end on a fresh Parser
        if "separate" in ops:
            from pyrtma.compilers.c99 import CDefCompiler
            from pyrtma.compilers.javascript import JSDefCompiler
            from pyrtma.compilers.matlab import MatlabDefCompiler
            from pyrtma.compilers.yaml import YAMLCompiler
            mk = dict(javascript=lambda p: JSDefCompiler(p), matlab=lambda p: MatlabDefCompiler(p),
                      c=lambda p: CDefCompiler(p, filename="gen"), combined=lambda p: YAMLCompiler(p, filename="gen"))
            for lang, f in mk.items():
                o2 = d / ("sep_" + lang)
                o2.mkdir()
                try:
                    p2 = quiet_parser(Parser, auto_pad=ap, import_coredefs=core, validate_alignment=val)
                    with contextlib.redirect_stdout(io.StringIO()), contextlib.redirect_stderr(io.StringIO()):
                        with watchdog("separate:" + lang, T_COMPILE):
                            p2.parse(root)
                            f(p2).generate(o2 / OUTS[lang])
                    res["separate"][lang] = (o2 / OUTS[lang]).read_text()
                except BaseException as e:  # noqa
                    res["separate"][lang] = "EXC %s: %s" % (type(e).__name__, str(e)[:200])
        # D. loaders
        if "load_py" in ops and res["outputs"].get("python"):
            res["load"]["py"] = load_python(out / OUTS["python"], env)
        if "load_c" in ops and res["outputs"].get("c"):
            w = d / "cwork"
            w.mkdir()
            res["load"]["c"] = load_c(out / OUTS["c"], w, res["model"], core, cc=case.get("cc", "gcc"))
        if "load_js" in ops and res["outputs"].get("javascript"):
            w = d / "jswork"
            w.mkdir()
            res["load"]["js"] = load_js(out / OUTS["javascript"], w)
        if "core_shipped" in ops:
            import pyrtma as _pk
            shipped = Path(_pk.__file__).parent / "core_defs.py"
            res["load"]["shipped"] = load_python(shipped, env)
            res["shipped_text"] = shipped.read_text()
        # E. combined-YAML round trip through the real parser (options taken from the file, as the CLI does)
        if "rt" in ops and res["outputs"].get("combined"):
            rt = dict(ok=False, exc=None, msg="", model=None, opts=None)
            try:
                comb = out / OUTS["combined"]
                p0 = quiet_parser(Parser)
                with contextlib.redirect_stdout(io.StringIO()), contextlib.redirect_stderr(io.StringIO()):
                    opts = p0.parse_compiler_options(comb)
                o = {"IMPORT_COREDEFS": True, "VALIDATE_ALIGNMENT": True, "AUTO_PAD": True}
                for k, v in opts.items():
                    o[k] = v.value
                rt["opts"] = o
                rt["raw_opts"] = {k: v.value for k, v in opts.items()}      # the section as the combined file carries it
                # the combined file is compiled the way any file is: ITS options over the defaults, same command line flags
                p3 = quiet_parser(Parser, auto_pad=bool(case.get("auto_pad", True) and o["AUTO_PAD"]), import_coredefs=o["IMPORT_COREDEFS"],
                                  validate_alignment=o["VALIDATE_ALIGNMENT"])
                with contextlib.redirect_stdout(io.StringIO()), contextlib.redirect_stderr(io.StringIO()):
                    with watchdog("reparse-combined", T_PARSE):
                        p3.parse(comb)
                rt["ok"] = True
                rt["model"] = dump_parser(p3)
            except Hang as e:
                rt["exc"] = "HANG"
                rt["msg"] = "re-parsing the combined YAML: " + str(e)
            except BaseException as e:  # noqa
                rt["exc"] = type(e).__name__
                rt["msg"] = str(e)[:300]
            res["rt"] = rt
        # F. determinism: same closure again in this process (another closure compiled in between, different
        #    closure location / cwd / output dir), and in a subprocess with another PYTHONHASHSEED
        if "det" in ops:
            det = dict(second=None, second_exc=None, sub=None, sub_exc=None, other_exc=None)
            oth = case.get("other")
            if oth:
                osrc = d / "other_src"
                write_files(osrc, oth["files"])
                det["other_exc"], _ = do_compile(osrc / oth["root"], d / "other_out", oth.get("auto_pad", True),
                                                 oth.get("import_coredefs", False))
            src2 = d / "deeper" / "nest" / "src2"
            write_files(src2, case["files"])
            cw = d / "some_cwd"
            cw.mkdir()
            det["second_exc"], det["second"] = do_compile(src2 / case["root"], d / "o2" / "x", ap, core, cwd=str(cw), validate_alignment=val)
            # the same closure reached through symlinks: a link to the definition directory at two different depths
            # (relative invocation from the project directory; absolute invocation from elsewhere), and a link to the
            # root FILE alone.  The real directory is src2 (compiled above from yet another cwd).
            det["links"] = {}
            try:
                pa = d / "proj_a"
                pa.mkdir()
                os.symlink(src2, pa / "defs", target_is_directory=True)
                e1, o1 = do_compile(Path("defs") / case["root"], d / "o_link_a", ap, core, cwd=str(pa), validate_alignment=val)
                det["links"]["dir-link depth 1, relative path, cwd = project dir"] = dict(exc=e1, outs=o1)
                pb = d / "proj_b" / "deps" / "third_party"
                pb.mkdir(parents=True)
                os.symlink(src2, pb / "defs", target_is_directory=True)
                e2, o2 = do_compile(pb / "defs" / case["root"], d / "o_link_b", ap, core, cwd=str(cw), validate_alignment=val)
                det["links"]["dir-link depth 3, absolute path, other cwd"] = dict(exc=e2, outs=o2)
                pf = d / "filelink" / "sub"
                pf.mkdir(parents=True)
                os.symlink(src2 / case["root"], pf / Path(case["root"]).name)
                e3, o3 = do_compile(pf / Path(case["root"]).name, d / "o_link_f", ap, core, cwd=str(pf), validate_alignment=val)
                det["file_link"] = dict(exc=e3, outs=o3)
            except OSError as e:
                det["links_error"] = "%s: %s" % (type(e).__name__, e)
            # the same closure with the output directory named in different ways: relative with one and with two
            # components (from two different cwds), `.` from inside the output directory, and the compiler's default
            # (no -o: next to the root file).  All against the first compile (absolute -o).
            det["outdirs"] = {}
            try:
                w1 = d / "wd1"
                (w1 / "out_rel").mkdir(parents=True)
                e, o = do_compile(src2 / case["root"], w1 / "out_rel", ap, core, cwd=str(w1), validate_alignment=val, out_arg="out_rel")
                det["outdirs"]["relative -o with one component (`-o out_rel`)"] = dict(exc=e, outs=o)
                w2 = d / "wd2" / "inner"
                (w2 / "build" / "gen").mkdir(parents=True)
                e, o = do_compile(src2 / case["root"], w2 / "build" / "gen", ap, core, cwd=str(w2), validate_alignment=val,
                                  out_arg=os.path.join("build", "gen"))
                det["outdirs"]["relative -o with two components (`-o build/gen`), another cwd"] = dict(exc=e, outs=o)
                w3 = d / "wd3" / "outhere"
                w3.mkdir(parents=True)
                e, o = do_compile(src2 / case["root"], w3, ap, core, cwd=str(w3), validate_alignment=val, out_arg=".")
                det["outdirs"]["`-o .` from inside the output directory"] = dict(exc=e, outs=o)
                src4 = d / "s4"
                write_files(src4, case["files"])
                e, o = do_compile(src4 / case["root"], (src4 / case["root"]).parent, ap, core, cwd=str(cw), validate_alignment=val, out_arg="")
                det["outdirs"]["default output directory (no -o: next to the root file)"] = dict(exc=e, outs=o)
            except OSError as e:
                det["outdirs_error"] = "%s: %s" % (type(e).__name__, e)
            src3 = d / "s3"
            write_files(src3, case["files"])
            o3 = d / "o3"
            o3.mkdir()
            code = ("import sys, io, contextlib, logging\nfrom pyrtma.compile import compile as c\n"
                    "logging.disable(logging.CRITICAL)\n"
                    "with contextlib.redirect_stdout(io.StringIO()), contextlib.redirect_stderr(io.StringIO()):\n"
                    f"    c([{str(src3 / case['root'])!r}], {str(o3)!r}, 'gen', python=True, javascript=True, matlab=True,"
                    f" c_lang=True, combined=True, auto_pad={ap!r}, import_coredefs={core!r}, validate_alignment={val!r})\n")
            env3 = dict(env)
            env3["PYTHONHASHSEED"] = str(case.get("hashseed", 12345))
            try:
                p = subprocess.run([sys.executable, "-c", code], capture_output=True, text=True, env=env3, cwd=str(o3), timeout=T_LOAD)
                if p.returncode != 0:
                    det["sub_exc"] = (p.stderr or p.stdout)[-300:]
            except subprocess.TimeoutExpired:
                det["sub_exc"] = f"HANG: compile() in a fresh interpreter did not finish within {T_LOAD:g} s"
            det["sub"] = {lang: ((o3 / fn).read_text() if (o3 / fn).exists() else None) for lang, fn in OUTS.items()}
            res["det"] = det
        return res
    except BaseException:  # harness-level failure
        res["exc"] = "HARNESS"
        res["msg"] = traceback.format_exc()[-1200:]
        res["ok"] = False
        return res
    finally:
        os.chdir(cwd0)
        shutil.rmtree(d, ignore_errors=True)


def main():
    cases = json.load(sys.stdin)
    real_stdout = sys.stdout
    sys.stdout = sys.stderr
    out = [run_case(c) for c in cases]
    json.dump(out, real_stdout)


if __name__ == "__main__":
    main()
