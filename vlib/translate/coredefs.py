"""Regenerate coq/defs/Gen/CoreYaml.v (the three shipped core YAML files as a Model/Emit.v closure) and
coq/defs/Gen/CoreDefs.v (what the shipped core_defs.py contains: constants, ids, per class size and field table).

Fail closed: anything outside the accepted shapes raises TranslateError.
"""
from __future__ import annotations

import ast
import re
from typing import List, Tuple

from ..framework import SRC
from .pyast import TranslateError, coq_string
from . import tables as T

CORE_DIR = SRC / "pyrtma" / "core_defs"
CORE_FILES = ["core_defs.yaml", "data_logger.yaml", "quick_logger.yaml"]
FIELD_REGEX = r"\s*(?P<ftype>[\s\w]*)(\[(?P<len_str>.*)\])?"   # the parser's own


def _expr(text: str):
    """integer constant expression -> closure DSL expression tree (fail closed)"""
    try:
        tree = ast.parse(text.strip(), mode="eval").body
    except SyntaxError as e:
        raise TranslateError(f"constant expression {text!r}: {e}")

    def go(n):
        if isinstance(n, ast.Constant) and isinstance(n.value, int) and not isinstance(n.value, bool):
            return ("lit", n.value)
        if isinstance(n, ast.Name):
            return ("ref", n.id)
        if isinstance(n, ast.BinOp) and isinstance(n.op, (ast.Add, ast.Sub, ast.Mult)):
            op = {ast.Add: "add", ast.Sub: "sub", ast.Mult: "mul"}[type(n.op)]
            return (op, go(n.left), go(n.right))
        raise TranslateError(f"constant expression {text!r}: unsupported node {type(n).__name__}")
    return go(tree)


def _body(name: str, fields):
    if fields is None:
        return None
    if isinstance(fields, str):
        return ("reuse", fields)
    if not isinstance(fields, dict):
        raise TranslateError(f"{name}: fields is {type(fields).__name__}")
    out = []
    for fn, fstr in fields.items():
        if not isinstance(fstr, str):
            raise TranslateError(f"{name}.{fn}: field spec is not a string")
        m = re.match(FIELD_REGEX, fstr)
        ftype = m.groupdict()["ftype"].strip()
        ls = (m.groupdict()["len_str"] or "").strip()
        if ls == "" and "[" in fstr:
            raise TranslateError(f"{name}.{fn}: empty array length")
        out.append((fn, ftype, _expr(ls) if ls else None))
    return ("fields", out)


def core_closure() -> dict:
    """the shipped YAML files as a closure of vlib/defs_emit_common's DSL (root = core_defs.yaml)"""
    from ruamel.yaml import YAML
    files = []
    index = {n: i for i, n in enumerate(CORE_FILES)}
    for fname in CORE_FILES:
        p = CORE_DIR / fname
        try:
            data = YAML(typ="safe").load(p.read_text())
        except Exception as e:  # noqa
            raise TranslateError(f"cannot load {p}: {e}")
        items = []
        imports = []
        for sec, val in data.items():
            if sec in ("metadata", "compiler_options"):
                continue
            if val is None:
                continue
            if sec == "imports":
                for imp in val:
                    if imp not in index:
                        raise TranslateError(f"{fname}: import of {imp} (not one of the three core files)")
                    imports.append(index[imp])
            elif sec == "constants":
                for k, v in val.items():
                    if isinstance(v, bool) or not isinstance(v, (int, str)):
                        raise TranslateError(f"{fname}: constant {k} is {type(v).__name__}")
                    items.append(("const", k, ("lit", v) if isinstance(v, int) else _expr(v)))
            elif sec == "string_constants":
                for k, v in val.items():
                    if not isinstance(v, str):
                        raise TranslateError(f"{fname}: string constant {k}")
                    items.append(("str", k, v))
            elif sec == "aliases":
                for k, v in val.items():
                    if not isinstance(v, str):
                        raise TranslateError(f"{fname}: alias {k}")
                    items.append(("alias", k, v))
            elif sec in ("host_ids", "module_ids"):
                for k, v in val.items():
                    if isinstance(v, bool) or not isinstance(v, int):
                        raise TranslateError(f"{fname}: {sec} {k}")
                    items.append(("hid" if sec == "host_ids" else "mid", k, v))
            elif sec == "struct_defs":
                for k, v in val.items():
                    if set(v.keys()) != {"fields"}:
                        raise TranslateError(f"{fname}: struct {k} keys {list(v.keys())}")
                    items.append(("struct", k, _body(k, v["fields"])))
            elif sec == "message_defs":
                for k, v in val.items():
                    if k == "_RESERVED_":
                        raise TranslateError(f"{fname}: _RESERVED_ in core definitions is not supported by the translator")
                    if set(v.keys()) != {"id", "fields"} or isinstance(v["id"], bool) or not isinstance(v["id"], int):
                        raise TranslateError(f"{fname}: message {k} keys {list(v.keys())}")
                    items.append(("msg", k, v["id"], _body(k, v["fields"])))
            else:
                raise TranslateError(f"{fname}: unknown section {sec}")
        files.append(dict(path="core_defs/" + fname, imports=imports, items=items))
    return dict(files=files, auto_pad=True, import_coredefs=False)


def render_core_yaml() -> str:
    from ..defs_emit_common import closure_coq
    cl = core_closure()
    return ("(* GENERATED by vlib/translate/coredefs.py from /repo/src/pyrtma/core_defs/*.yaml -- do not edit *)\n"
            "From Coq Require Import ZArith List String.\nFrom Defs Require Import Model.Emit.\n"
            "Import ListNotations.\nOpen Scope string_scope. Open Scope list_scope. Open Scope Z_scope.\n\n"
            "(* file 0 core_defs.yaml, 1 data_logger.yaml, 2 quick_logger.yaml *)\n"
            f"Definition core_closure : closure :=\n  {closure_coq(cl)}.\n")


def core_py() -> dict:
    """static reading of the shipped core_defs.py (ast)"""
    from ..defs_emit_common import read_py
    text = (SRC / "pyrtma" / "core_defs.py").read_text()
    try:
        tree = ast.parse(text)
    except SyntaxError as e:
        raise TranslateError(f"core_defs.py: {e}")
    structs = {n.name for n in tree.body if isinstance(n, ast.ClassDef) and not n.name.startswith("MDF_")}
    msgs = {n.name[4:] for n in tree.body if isinstance(n, ast.ClassDef) and n.name.startswith("MDF_")}
    als = {n.targets[0].id for n in tree.body if isinstance(n, ast.Assign) and len(n.targets) == 1
           and isinstance(n.targets[0], ast.Name)}
    r = read_py(text, dict(aliases=als, structs=structs, msgs=msgs))
    if r["errors"]:
        raise TranslateError("core_defs.py: " + "; ".join(r["errors"][:3]))
    return r


def _z(n) -> str:
    if isinstance(n, bool) or not isinstance(n, int):
        raise TranslateError(f"not an integer: {n!r}")
    return f"({n})" if n < 0 else str(n)


def render_core_defs() -> str:
    r = core_py()
    out = ["(* GENERATED by vlib/translate/coredefs.py from /repo/src/pyrtma/core_defs.py -- do not edit *)",
           "From Coq Require Import ZArith List String.", "Import ListNotations.",
           "Open Scope string_scope. Open Scope list_scope. Open Scope Z_scope.", ""]

    def zl(name, rows, strip=""):
        body = "; ".join(f"({coq_string(k[len(strip):] if strip and k.startswith(strip) else k)}, {_z(v)})" for k, v in rows)
        out.append(f"Definition {name} : list (string * Z) := [{body}].")
    zl("core_py_constants", r["constants"])
    zl("core_py_hids", r["hids"])
    zl("core_py_mids", r["mids"], "MID_")
    zl("core_py_mts", r["mts"], "MT_")
    out.append("Definition core_py_strings : list (string * string) := ["
               + "; ".join(f"({coq_string(k)}, {coq_string(str(v))})" for k, v in r["strings"]) + "].")
    al = []
    for nm, cls in r["aliases"]:
        if cls[0] != "n":
            raise TranslateError(f"core_defs.py: alias {nm} is not an alias of a native type")
        al.append(f"({coq_string(nm)}, ({cls[1]}, {cls[2]}))")
    out.append("Definition core_py_aliases : list (string * (Z * Z)) := [" + "; ".join(al) + "].")
    out.append("(* class: name, type_id (-1 for a struct), type_size, type_hash, fields (name, width, class, count, referenced class) *)")
    defs = []
    for d in r["defs"]:
        if d["size"] is None or d["hash"] is None or (d["ismsg"] and d["id"] is None):
            raise TranslateError(f"core_defs.py: class {d['cname']} lacks type_id/type_size/type_hash")
        if d["ismsg"] != d["cname"].startswith("MDF_") or d.get("type_name") != d["name"]:
            raise TranslateError(f"core_defs.py: class {d['cname']} decorator / type_name mismatch")
        fs = []
        for fn, cls, cnt in d["fields"]:
            if cls[0] == "n":
                fs.append(f"({coq_string(fn)}, {cls[1]}, {cls[2]}, {_z(cnt)}, \"\")")
            else:
                fs.append(f"({coq_string(fn)}, -1, {-1 if cls[0] == 's' else -2}, {_z(cnt)}, {coq_string(cls[1])})")
        defs.append(f"({coq_string(d['name'])}, {_z(d['id']) if d['ismsg'] else '-1'}, {_z(d['size'])}, {_z(d['hash'])}, [{'; '.join(fs)}])")
    out.append("Definition core_py_defs : list (string * Z * Z * Z * list (string * Z * Z * Z * string)) := [\n  "
               + ";\n  ".join(defs) + "].")
    return "\n".join(out) + "\n"
