"""Regenerate coq/defs/Gen/TypeTables.v from /repo: the native-type tables of the
parser and of every back end, and the numeric guards of the parser.

Fail closed: an unexpected AST shape raises TranslateError.
"""
from __future__ import annotations

import ast
from typing import Dict, List, Tuple

from .pyast import (TranslateError, load, module_assign, find_func, unique_if, const_int,
                    coq_string, ExprTr, dotted)

CTYPES_WIDTH = {
    # ctypes name -> (bytes, kind)  kind: s=signed int u=unsigned int f=float c=char
    "c_char": (1, "c"), "c_byte": (1, "s"), "c_ubyte": (1, "u"),
    "c_int8": (1, "s"), "c_uint8": (1, "u"), "c_int16": (2, "s"), "c_uint16": (2, "u"),
    "c_int32": (4, "s"), "c_uint32": (4, "u"), "c_int64": (8, "s"), "c_uint64": (8, "u"),
    "c_float": (4, "f"), "c_double": (8, "f"),
}
C_WIDTH = {
    "char": (1, "c"), "unsigned char": (1, "u"), "signed char": (1, "s"),
    "int8_t": (1, "s"), "uint8_t": (1, "u"), "int16_t": (2, "s"), "uint16_t": (2, "u"),
    "int32_t": (4, "s"), "uint32_t": (4, "u"), "int64_t": (8, "s"), "uint64_t": (8, "u"),
    "float": (4, "f"), "double": (8, "f"),
}
MATLAB_WIDTH = {
    "int8": (1, "s"), "uint8": (1, "u"), "int16": (2, "s"), "uint16": (2, "u"),
    "int32": (4, "s"), "uint32": (4, "u"), "int64": (8, "s"), "uint64": (8, "u"),
    "single": (4, "f"), "double": (8, "f"),
}
DESC_WIDTH = {
    "Char": (1, "c"), "Byte": (1, "u"), "Int8": (1, "s"), "Uint8": (1, "u"),
    "Int16": (2, "s"), "Uint16": (2, "u"), "Int32": (4, "s"), "Uint32": (4, "u"),
    "Int64": (8, "s"), "Uint64": (8, "u"), "Float": (4, "f"), "Double": (8, "f"),
}
FORMAT_WIDTH = {
    "c": (1, "c"), "b": (1, "s"), "B": (1, "u"), "h": (2, "s"), "H": (2, "u"),
    "i": (4, "s"), "I": (4, "u"), "q": (8, "s"), "Q": (8, "u"), "f": (4, "f"), "d": (8, "f"),
}
KIND_CODE = {"s": 0, "u": 1, "f": 2, "c": 3}


def _dict_items(e: ast.expr, what: str) -> List[Tuple[str, ast.expr]]:
    if not isinstance(e, ast.Dict):
        raise TranslateError(f"{what}: not a dict literal")
    out = []
    for k, v in zip(e.keys, e.values):
        if not (isinstance(k, ast.Constant) and isinstance(k.value, str)):
            raise TranslateError(f"{what}: non-string key")
        out.append((k.value, v))
    if len({k for k, _ in out}) != len(out):
        raise TranslateError(f"{what}: duplicate keys")
    return out


def parser_supported_types() -> List[Tuple[str, str, int, str]]:
    tree = load("parser.py")
    items = _dict_items(module_assign(tree, "supported_types"), "supported_types")
    out = []
    for key, v in items:
        if not (isinstance(v, ast.Call) and dotted(v.func) == "NativeType" and not v.args):
            raise TranslateError("supported_types: value is not NativeType(...)")
        kw = {k.arg: k.value for k in v.keywords}
        if set(kw) != {"name", "size", "format"}:
            raise TranslateError("supported_types: unexpected NativeType keywords")
        name = kw["name"]
        fmt = kw["format"]
        if not (isinstance(name, ast.Constant) and isinstance(name.value, str)
                and isinstance(fmt, ast.Constant) and isinstance(fmt.value, str)):
            raise TranslateError("supported_types: name/format not string literals")
        out.append((key, name.value, const_int(kw["size"]), fmt.value))
    return out


def _str_table(tree: ast.AST, what: str, valmap: Dict[str, Tuple[int, str]], strip: str = "") -> List[Tuple[str, int, int]]:
    items = _dict_items(tree, what)
    out = []
    for k, v in items:
        if isinstance(v, ast.Constant) and isinstance(v.value, str):
            s = v.value
        elif isinstance(v, ast.Attribute):
            s = dotted(v)
        else:
            raise TranslateError(f"{what}[{k}]: unsupported value")
        if strip and s.startswith(strip):
            s = s[len(strip):]
        if s not in valmap:
            raise TranslateError(f"{what}[{k}]: unknown target type {s!r}")
        w, kind = valmap[s]
        out.append((k, w, KIND_CODE[kind]))
    return out


def get_ctype_cls_table() -> List[Tuple[str, int, int]]:
    tree = load("parser.py")
    f = find_func(tree, "get_ctype_cls", "Parser")
    hits = [n for n in f.body if isinstance(n, ast.Assign) and len(n.targets) == 1
            and isinstance(n.targets[0], ast.Name) and n.targets[0].id == "type_map"]
    if len(hits) != 1:
        raise TranslateError("get_ctype_cls: type_map assignment not found once")
    return _str_table(hits[0].value, "get_ctype_cls.type_map", CTYPES_WIDTH, "ctypes.")


def backend_tables() -> Dict[str, List[Tuple[str, int, int]]]:
    res = {}
    res["py"] = _str_table(module_assign(load("compilers/python.py"), "type_map"), "python.type_map",
                           CTYPES_WIDTH, "ctypes.")
    res["pydesc"] = _str_table(module_assign(load("compilers/python.py"), "desctype_map"),
                               "python.desctype_map", DESC_WIDTH)
    res["c"] = _str_table(module_assign(load("compilers/c99.py"), "type_map"), "c99.type_map", C_WIDTH)
    res["matlab"] = _str_table(module_assign(load("compilers/matlab.py"), "type_map"), "matlab.type_map",
                               MATLAB_WIDTH)
    # javascript: only key set and char-ness matter (no widths in JS)
    items = _dict_items(module_assign(load("compilers/javascript.py"), "type_map"), "javascript.type_map")
    js = []
    for k, v in items:
        if isinstance(v, ast.Constant) and v.value == 0:
            js.append((k, 0, 0))
        elif isinstance(v, ast.Constant) and v.value == '""':
            js.append((k, 0, 3))
        else:
            raise TranslateError(f"javascript.type_map[{k}]: unsupported value")
    res["js"] = js
    return res


def size_guard() -> int:
    tree = load("parser.py")
    f = find_func(tree, "validate_msg_def", "Parser")
    i = unique_if(f, ["size"])
    t = i.test
    if not (isinstance(t, ast.Compare) and len(t.ops) == 1 and isinstance(t.ops[0], ast.Gt)
            and dotted(t.left) == "mdf.size"):
        raise TranslateError("validate_msg_def: size guard has unexpected shape")
    if not (len(i.body) == 1 and isinstance(i.body[0], ast.Raise)):
        raise TranslateError("validate_msg_def: size guard does not raise")
    return const_int(t.comparators[0])


def _tab(name: str, rows: List[Tuple[str, int, int]]) -> str:
    body = ";\n  ".join(f"({coq_string(k)}, ({w}, {kd}))" for k, w, kd in rows)
    return f"Definition {name} : list (string * (Z * Z)) := [\n  {body}\n]%Z.\n"


def render() -> str:
    sup = parser_supported_types()
    out = ["(* GENERATED by vlib/translate/tables.py from /repo/src/pyrtma -- do not edit *)",
           "From Coq Require Import ZArith List String.", "Import ListNotations.", "Open Scope string_scope.", ""]
    rows = []
    for key, name, size, fmt in sup:
        if fmt not in FORMAT_WIDTH:
            raise TranslateError(f"supported_types[{key}]: unknown format {fmt!r}")
        rows.append((key, size, KIND_CODE[FORMAT_WIDTH[fmt][1]]))
    out.append("(* parser.supported_types: key -> (size, kind)  kind: 0 signed 1 unsigned 2 float 3 char *)")
    out.append(_tab("parser_types", rows))
    out.append("(* width implied by the struct-format letter of each entry *)")
    out.append(_tab("parser_format_widths", [(k, FORMAT_WIDTH[f][0], KIND_CODE[FORMAT_WIDTH[f][1]]) for k, _, _, f in sup]))
    out.append("(* NativeType.name of each entry (used as lookup key by get_ctype_cls) *)")
    out.append("Definition parser_type_names : list (string * string) := [\n  "
               + ";\n  ".join(f"({coq_string(k)}, {coq_string(n)})" for k, n, _, _ in sup) + "\n].\n")
    out.append(_tab("ctype_cls_types", get_ctype_cls_table()))
    for nm, rows2 in backend_tables().items():
        out.append(_tab(f"{nm}_types", rows2))
    out.append(f"Definition max_msg_size : Z := {size_guard()}%Z.")
    return "\n".join(out) + "\n"
