"""Statement skeletons of the descriptor code that Model/Values.v and Model/Flag.v follow by hand.

`skeleton(fn)` renders a function as its control structure: every statement, every branch test, every
return / raise (exception class only; messages are dropped), docstrings and comments ignored.  `check()` compares
the skeletons found in /repo's validators.py with the ones the model was written against (EXPECTED, captured
from the tree the model follows) and raises TranslateError at the first difference: an added early return,
a new branch, a reordered check or a changed test breaks the translation exactly like a broken proof.
Regenerate EXPECTED (python -m vlib.translate.validators_skel --dump) only together with the model."""
from __future__ import annotations

import ast
import json
import sys
from typing import Dict, List

from .pyast import TranslateError, load, find_func

FUNCS = [
    (None, "disable_message_validation"),
    ("FloatValidatorBase", "__set__"), ("FloatValidatorBase", "validate_one"), ("FloatValidatorBase", "validate_many"),
    ("IntValidatorBase", "__set__"), ("IntValidatorBase", "validate_one"), ("IntValidatorBase", "validate_many"),
    ("Byte", "__set__"), ("Byte", "validate_one"), ("Byte", "validate_many"),
    ("String", "__set__"), ("String", "validate_one"), ("Char", "__set__"), ("Char", "validate_one"),
    ("ArrayField", "__set__"), ("ArrayField", "__setitem__"), ("ArrayField", "validate_one"),
    ("ArrayField", "validate_many"), ("ArrayField", "validate_array"),
    ("IntArray", "__set__"), ("FloatArray", "__set__"), ("ByteArray", "__set__"), ("ByteArray", "__setitem__"),
    ("Struct", "__set__"), ("Struct", "validate_one"), ("Struct", "validate_many"),
    ("StructArray", "__set__"), ("StructArray", "__setitem__"), ("StructArray", "validate_one"),
    ("StructArray", "validate_many"), ("StructArray", "validate_array"),
]


def _lines(stmts, ind: int) -> List[str]:
    out: List[str] = []
    pad = "  " * ind
    for st in stmts:
        if isinstance(st, ast.Expr) and isinstance(st.value, ast.Constant):
            continue                                   # docstring / bare constant
        if isinstance(st, ast.If):
            out.append(f"{pad}if {ast.unparse(st.test)}:")
            out += _lines(st.body, ind + 1)
            if st.orelse:
                out.append(f"{pad}else:")
                out += _lines(st.orelse, ind + 1)
        elif isinstance(st, ast.Raise):
            exc = st.exc
            name = ast.unparse(exc.func) if isinstance(exc, ast.Call) else (ast.unparse(exc) if exc else "")
            out.append(f"{pad}raise {name}")
        elif isinstance(st, ast.For):
            out.append(f"{pad}for {ast.unparse(st.target)} in {ast.unparse(st.iter)}:")
            out += _lines(st.body, ind + 1)
            if st.orelse:
                out.append(f"{pad}else:")
                out += _lines(st.orelse, ind + 1)
        elif isinstance(st, ast.Try):
            out.append(f"{pad}try:")
            out += _lines(st.body, ind + 1)
            for h in st.handlers:
                out.append(f"{pad}except {ast.unparse(h.type) if h.type else ''}:")
                out += _lines(h.body, ind + 1)
            if st.orelse:
                out.append(f"{pad}else:")
                out += _lines(st.orelse, ind + 1)
            if st.finalbody:
                out.append(f"{pad}finally:")
                out += _lines(st.finalbody, ind + 1)
        elif isinstance(st, (ast.While, ast.With, ast.Match)):
            out.append(f"{pad}<{type(st).__name__}> {ast.unparse(st).splitlines()[0]}")
            out += _lines(getattr(st, "body", []), ind + 1)
        else:
            out.append(pad + " ".join(ast.unparse(st).split()))
    return out


def skeleton(fn: ast.FunctionDef) -> List[str]:
    deco = [ast.unparse(d) for d in fn.decorator_list if not (isinstance(d, ast.Name) and d.id == "overload")]
    args = [a.arg for a in fn.args.args]
    return [f"def {fn.name}({', '.join(args)}) @{','.join(deco)}"] + _lines(fn.body, 1)


def current() -> Dict[str, List[str]]:
    tree = load("validators.py")
    out = {}
    for cls, name in FUNCS:
        if cls is None:
            fs = [n for n in tree.body if isinstance(n, ast.FunctionDef) and n.name == name]
            if len(fs) != 1:
                raise TranslateError(f"function {name}: found {len(fs)}")
            fn = fs[0]
        else:
            cands = [n for n in tree.body if isinstance(n, ast.ClassDef) and n.name == cls]
            if len(cands) != 1:
                raise TranslateError(f"class {cls}: found {len(cands)}")
            # the implementation, not the typing overloads
            fs = [n for n in cands[0].body if isinstance(n, ast.FunctionDef) and n.name == name
                  and not any(isinstance(d, ast.Name) and d.id == "overload" for d in n.decorator_list)]
            if len(fs) != 1:
                raise TranslateError(f"{cls}.{name}: found {len(fs)} definitions")
            fn = fs[0]
        out[f"{cls + '.' if cls else ''}{name}"] = skeleton(fn)
    return out


def check():
    from .validators_skel_expected import EXPECTED
    cur = current()
    for key, exp in EXPECTED.items():
        got = cur.get(key)
        if got is None:
            raise TranslateError(f"{key}: not found")
        if got != exp:
            for i in range(max(len(got), len(exp))):
                a = exp[i] if i < len(exp) else "<end>"
                b = got[i] if i < len(got) else "<end>"
                if a != b:
                    raise TranslateError(f"{key}: statement skeleton differs from the one the model follows at line {i}: "
                                         f"expected `{a.strip()}`, found `{b.strip()}`")
    if set(cur) != set(EXPECTED):
        raise TranslateError("skeleton key sets differ")
    from .pyast import module_assign
    flag = ast.unparse(module_assign(load("validators.py"), "_VALIDATION_ENABLED"))
    if flag != "ContextVar('_VALIDATION_ENABLED', default=True)":
        raise TranslateError(f"_VALIDATION_ENABLED is not the ContextVar the flag model follows: {flag}")


if __name__ == "__main__":
    if "--dump" in sys.argv:
        print("# GENERATED by `python -m vlib.translate.validators_skel --dump` from the tree the model follows\n"
              "EXPECTED = " + json.dumps(current(), indent=1))
    else:
        check()
        print("skeletons match")
