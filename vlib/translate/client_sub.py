"""Regenerate coq/client/Gen/{ClientSub,MgrSub,ReadGuards}.v from /repo.

* ClientSub.v  : Client._subscription_control (client.py) statement by statement - the if/elif on the
                 control string, the set statements (`=`, `|=`, `-=`, `.clear()`) on _subscribed_types /
                 _paused_types / _sub_all, the InvalidSubscription guard, the control-message class each
                 branch instantiates and the final send loop - as
                     sub_ctrl : cstate -> list Z -> string -> sc_result
                 plus the four public wrappers and the three bulk variants.
* MgrSub.v     : MessageManager.add_subscription / remove_subscription / pause_subscription /
                 resume_subscription (manager.py) as functions on the one-module view `mstate`, and the
                 dispatch of process_message for the four control message types.
* ReadGuards.v : the decode guards and drain lengths of Client._read_message, MT_ACKNOWLEDGE, header size.

Fail closed: any statement or expression outside the small grammar below raises TranslateError.
"""
from __future__ import annotations

import ast
from typing import Dict, List, Optional, Tuple

from .pyast import (TranslateError, load, find_func, find_class, module_assign, const_int, dotted,
                    coq_string, ExprTr, unique_if, names_in)

STATE_SETS = {"_subscribed_types": "subscribed", "_paused_types": "paused"}
WITH = {"_subscribed_types": "with_subscribed", "_paused_types": "with_paused", "_sub_all": "with_sub_all"}
EXC = {"InvalidSubscription": "EInvalidSubscription", "TypeError": "ETypeError"}


def _src(n: ast.AST) -> str:
    try:
        return ast.unparse(n)
    except Exception:  # pragma: no cover
        return ast.dump(n)


def _body(fn: ast.FunctionDef) -> List[ast.stmt]:
    b = list(fn.body)
    if b and isinstance(b[0], ast.Expr) and isinstance(b[0].value, ast.Constant) and isinstance(b[0].value.value, str):
        b = b[1:]
    return b


def _zlit(n: int) -> str:
    return f"({n})" if n < 0 else str(n)


# --------------------------------------------------------------------------
# core_defs lookups
# --------------------------------------------------------------------------

class CoreDefs:
    def __init__(self):
        self.tree = load("core_defs.py")

    def const(self, name: str) -> int:
        return const_int(module_assign(self.tree, name))

    def mdf(self, cls: str) -> Dict[str, object]:
        c = find_class(self.tree, cls)
        info: Dict[str, object] = {"fields": []}
        for n in c.body:
            if isinstance(n, ast.AnnAssign) and isinstance(n.target, ast.Name):
                ann = _src(n.annotation)
                if ann.startswith("ClassVar"):
                    if n.target.id in ("type_id", "type_size", "type_hash") and n.value is not None:
                        info[n.target.id] = const_int(n.value)
                else:
                    info["fields"].append((n.target.id, ann))  # type: ignore
        if "type_id" not in info:
            raise TranslateError(f"{cls}: no type_id")
        return info

    def ctrl_class_id(self, cls: str) -> int:
        """type_id of a subscription control class; its payload must be exactly one Int32 msg_type"""
        info = self.mdf(cls)
        if info["fields"] != [("msg_type", "Int32")] or info.get("type_size") != 4:
            raise TranslateError(f"{cls}: payload is not a single Int32 msg_type: {info['fields']}")
        return int(info["type_id"])  # type: ignore


# --------------------------------------------------------------------------
# Client._subscription_control
# --------------------------------------------------------------------------

class ClientTr:
    def __init__(self, cd: CoreDefs):
        self.cd = cd
        self.tree = load("client.py")
        # `from .core_defs import ALL_MESSAGE_TYPES` and `from . import core_defs as cd` must be present
        imps = [n for n in self.tree.body if isinstance(n, ast.ImportFrom)]
        ok1 = any(i.module == "core_defs" and any(a.name == "ALL_MESSAGE_TYPES" and a.asname is None for a in i.names)
                  for i in imps)
        ok2 = any(i.module is None and any(a.name == "core_defs" and a.asname == "cd" for a in i.names) for i in imps)
        if not (ok1 and ok2):
            raise TranslateError("client.py: core_defs imports not as expected")

    # ---- expressions ----
    def zexpr(self, e: ast.AST, env: Dict[str, str]) -> str:
        if isinstance(e, ast.Name) and e.id == "ALL_MESSAGE_TYPES":
            return "ALL_MESSAGE_TYPES"
        if isinstance(e, ast.Name) and env.get(e.id) == "int":
            return e.id
        if isinstance(e, ast.Attribute) and isinstance(e.value, ast.Name) and e.value.id == "cd":
            return _zlit(self.cd.const(e.attr))
        if isinstance(e, ast.Constant) and isinstance(e.value, int) and not isinstance(e.value, bool):
            return _zlit(e.value)
        raise TranslateError(f"client: unsupported int expression `{_src(e)}`")

    def setexpr(self, e: ast.AST, env: Dict[str, str]) -> str:
        if isinstance(e, ast.Name) and env.get(e.id) in ("set", "list"):
            return e.id
        if isinstance(e, ast.Attribute) and isinstance(e.value, ast.Name) and e.value.id == "self":
            if e.attr in STATE_SETS:
                return f"({STATE_SETS[e.attr]} st)"
            if e.attr == "subscribed_types":
                return "(to_set (subscribed st))"
            if e.attr == "paused_subscribed_types":
                return "(to_set (paused st))"
        if isinstance(e, ast.Call) and isinstance(e.func, ast.Name) and e.func.id == "set" and len(e.args) == 1 \
                and not e.keywords:
            return f"(to_set {self.setexpr(e.args[0], env)})"
        if isinstance(e, (ast.List, ast.Tuple, ast.Set)):
            return "[" + "; ".join(self.zexpr(x, env) for x in e.elts) + "]"
        raise TranslateError(f"client: unsupported set expression `{_src(e)}`")

    def bexpr(self, e: ast.AST, env: Dict[str, str]) -> str:
        if isinstance(e, ast.Constant) and isinstance(e.value, bool):
            return "true" if e.value else "false"
        if isinstance(e, ast.Name) and env.get(e.id) == "bool":
            return e.id
        if isinstance(e, ast.Attribute) and isinstance(e.value, ast.Name) and e.value.id == "self" \
                and e.attr == "_sub_all":
            return "(sub_all st)"
        if isinstance(e, ast.UnaryOp) and isinstance(e.op, ast.Not):
            return f"(negb {self.bexpr(e.operand, env)})"
        if isinstance(e, ast.BoolOp):
            op = " && " if isinstance(e.op, ast.And) else " || "
            return "(" + op.join(self.bexpr(v, env) for v in e.values) + ")"
        if isinstance(e, ast.Compare) and len(e.ops) == 1:
            op, r = e.ops[0], e.comparators[0]
            if isinstance(op, (ast.In, ast.NotIn)):
                t = f"(mem {self.zexpr(e.left, env)} {self.setexpr(r, env)})"
                return t if isinstance(op, ast.In) else f"(negb {t})"
            if isinstance(op, (ast.Eq, ast.NotEq)) and isinstance(e.left, ast.Name) and env.get(e.left.id) == "str" \
                    and isinstance(r, ast.Constant) and isinstance(r.value, str):
                t = f"(String.eqb {e.left.id} {coq_string(r.value)})"
                return t if isinstance(op, ast.Eq) else f"(negb {t})"
        raise TranslateError(f"client: unsupported boolean expression `{_src(e)}`")

    # ---- statements, continuation style: the rest of the block is duplicated into both arms of an `if` ----
    def stmts(self, ss: List[ast.stmt], env: Dict[str, str], ind: str) -> str:
        if not ss:
            return f"{ind}SOk st []"
        s, rest = ss[0], ss[1:]
        nx = lambda env2=env: self.stmts(rest, env2, ind)  # noqa: E731
        if isinstance(s, ast.AnnAssign) and s.value is None and isinstance(s.target, ast.Name):
            return nx()                                                    # `msg: MessageData`
        if isinstance(s, ast.Assign) and len(s.targets) == 1:
            t, v = s.targets[0], s.value
            if isinstance(t, ast.Name):
                if isinstance(v, ast.Call) and not v.args and not v.keywords and isinstance(v.func, ast.Attribute) \
                        and isinstance(v.func.value, ast.Name) and v.func.value.id == "cd":
                    cid = self.cd.ctrl_class_id(v.func.attr)               # msg = cd.MDF_X()
                    return f"{ind}let {t.id} := {_zlit(cid)} in (* cd.{v.func.attr} *)\n" + nx({**env, t.id: "cls"})
                for kind, f in (("bool", self.bexpr), ("set", self.setexpr)):
                    try:
                        c = f(v, env)
                    except TranslateError:
                        continue
                    return f"{ind}let {t.id} := {c} in\n" + nx({**env, t.id: kind})
                raise TranslateError(f"client: unsupported assignment `{_src(s)}`")
            if isinstance(t, ast.Attribute) and isinstance(t.value, ast.Name) and t.value.id == "self":
                if t.attr in STATE_SETS:
                    return f"{ind}let st := {WITH[t.attr]} st {self.setexpr(v, env)} in\n" + nx()
                if t.attr == "_sub_all":
                    return f"{ind}let st := with_sub_all st {self.bexpr(v, env)} in\n" + nx()
            raise TranslateError(f"client: unsupported assignment `{_src(s)}`")
        if isinstance(s, ast.AugAssign) and isinstance(s.target, ast.Attribute) and isinstance(s.target.value, ast.Name) \
                and s.target.value.id == "self" and s.target.attr in STATE_SETS:
            a = s.target.attr
            fn = {ast.BitOr: "set_union", ast.Sub: "set_diff"}.get(type(s.op))
            if fn is None:
                raise TranslateError(f"client: unsupported augmented assignment `{_src(s)}`")
            return f"{ind}let st := {WITH[a]} st ({fn} ({STATE_SETS[a]} st) {self.setexpr(s.value, env)}) in\n" + nx()
        if isinstance(s, ast.Expr) and isinstance(s.value, ast.Call):
            c = s.value
            f = c.func
            if isinstance(f, ast.Attribute) and f.attr == "clear" and not c.args and not c.keywords \
                    and isinstance(f.value, ast.Attribute) and isinstance(f.value.value, ast.Name) \
                    and f.value.value.id == "self" and f.value.attr in STATE_SETS:
                return f"{ind}let st := {WITH[f.value.attr]} st [] in\n" + nx()
            raise TranslateError(f"client: unsupported call statement `{_src(s)}`")
        if isinstance(s, ast.If):
            t = self.bexpr(s.test, env)
            a = self.stmts(list(s.body) + rest, env, ind + "  ")
            b = self.stmts(list(s.orelse) + rest, env, ind + "  ")
            return f"{ind}if {t} then\n{a}\n{ind}else\n{b}"
        if isinstance(s, ast.Raise) and s.exc is not None and s.cause is None:
            e = s.exc.func if isinstance(s.exc, ast.Call) else s.exc
            if isinstance(e, ast.Name) and e.id in EXC:
                return f"{ind}SRaise {EXC[e.id]} st"
            raise TranslateError(f"client: unsupported raise `{_src(s)}`")
        if isinstance(s, ast.For) and not s.orelse and not rest:
            # for msg_type in msg_set: msg.msg_type = msg_type ; self.send_message(msg)
            if not (isinstance(s.target, ast.Name) and len(s.body) == 2):
                raise TranslateError(f"client: unsupported loop `{_src(s)}`")
            v = s.target.id
            it = self.setexpr(s.iter, env)
            a, b = s.body
            ok = (isinstance(a, ast.Assign) and len(a.targets) == 1 and isinstance(a.targets[0], ast.Attribute)
                  and isinstance(a.targets[0].value, ast.Name) and env.get(a.targets[0].value.id) == "cls"
                  and a.targets[0].attr == "msg_type" and isinstance(a.value, ast.Name) and a.value.id == v)
            if not ok:
                raise TranslateError(f"client: unsupported loop body `{_src(a)}`")
            m = a.targets[0].value.id  # type: ignore
            ok = (isinstance(b, ast.Expr) and isinstance(b.value, ast.Call) and _src(b.value.func) == "self.send_message"
                  and len(b.value.args) == 1 and not b.value.keywords and isinstance(b.value.args[0], ast.Name)
                  and b.value.args[0].id == m)
            if not ok:
                raise TranslateError(f"client: unsupported loop body `{_src(b)}`")
            return f"{ind}SOk st (map (fun {v} => ({m}, {v})) {it})"
        raise TranslateError(f"client: unsupported statement `{_src(s)}`")

    def sub_ctrl(self) -> str:
        fn = find_func(self.tree, "_subscription_control", "Client")
        args = [a.arg for a in fn.args.args]
        if args != ["self", "msg_list", "ctrl_msg"] or fn.decorator_list:
            raise TranslateError(f"_subscription_control: unexpected signature {args}")
        body = self.stmts(_body(fn), {"msg_list": "list", "ctrl_msg": "str"}, "  ")
        return ("Definition sub_ctrl (st : cstate) (msg_list : list Z) (ctrl_msg : string) : sc_result :=\n"
                + body + ".\n")

    def _decorated(self, name: str) -> ast.FunctionDef:
        fn = find_func(self.tree, name, "Client")
        decs = [_src(d) for d in fn.decorator_list]
        if decs != ["requires_connection"]:
            raise TranslateError(f"Client.{name}: decorators {decs}")
        return fn

    def wrappers(self) -> str:
        out = []
        for name in ("subscribe", "unsubscribe", "pause_subscription", "resume_subscription"):
            fn = self._decorated(name)
            b = _body(fn)
            args = [a.arg for a in fn.args.args]
            ok = (args == ["self", "msg_list"] and len(b) == 1 and isinstance(b[0], ast.Expr)
                  and isinstance(b[0].value, ast.Call) and _src(b[0].value.func) == "self._subscription_control"
                  and len(b[0].value.args) == 2 and not b[0].value.keywords
                  and isinstance(b[0].value.args[0], ast.Name) and b[0].value.args[0].id == "msg_list"
                  and isinstance(b[0].value.args[1], ast.Constant) and isinstance(b[0].value.args[1].value, str))
            if not ok:
                raise TranslateError(f"Client.{name}: not a plain call of _subscription_control")
            out.append(f"Definition {name} (st : cstate) (msg_list : list Z) : sc_result :=\n"
                       f"  sub_ctrl st msg_list {coq_string(b[0].value.args[1].value)}.\n")  # type: ignore
        # the two read-only properties must be copies of the state sets
        for prop, attr in (("subscribed_types", "_subscribed_types"), ("paused_subscribed_types", "_paused_types")):
            fn = find_func(self.tree, prop, "Client")
            b = _body(fn)
            if not (len(b) == 1 and isinstance(b[0], ast.Return) and b[0].value is not None
                    and _src(b[0].value) == f"set(self.{attr})" and [_src(d) for d in fn.decorator_list] == ["property"]):
                raise TranslateError(f"Client.{prop}: not `return set(self.{attr})`")
        for name in ("unsubscribe_from_all", "pause_all_subscriptions", "resume_all_subscriptions"):
            fn = self._decorated(name)
            b = _body(fn)
            ok = ([a.arg for a in fn.args.args] == ["self"] and len(b) == 1 and isinstance(b[0], ast.Expr)
                  and isinstance(b[0].value, ast.Call) and isinstance(b[0].value.func, ast.Attribute)
                  and isinstance(b[0].value.func.value, ast.Name) and b[0].value.func.value.id == "self"
                  and b[0].value.func.attr in ("subscribe", "unsubscribe", "pause_subscription", "resume_subscription")
                  and len(b[0].value.args) == 1 and not b[0].value.keywords)
            if not ok:
                raise TranslateError(f"Client.{name}: not a plain call of a subscription method")
            c = b[0].value  # type: ignore
            out.append(f"Definition {name} (st : cstate) : sc_result :=\n"
                       f"  {c.func.attr} st {self.setexpr(c.args[0], {})}.\n")
        return "\n".join(out)


# --------------------------------------------------------------------------
# MessageManager.add_subscription / remove_subscription / dispatch
# --------------------------------------------------------------------------

class ManagerTr:
    def __init__(self, cd: CoreDefs):
        self.cd = cd
        self.tree = load("manager.py")
        imps = [n for n in self.tree.body if isinstance(n, ast.ImportFrom)]
        ok1 = any(i.module == "core_defs" and any(a.name == "ALL_MESSAGE_TYPES" and a.asname is None for a in i.names)
                  for i in imps)
        ok2 = any(i.module is None and any(a.name == "core_defs" and a.asname == "cd" for a in i.names) for i in imps)
        if not (ok1 and ok2):
            raise TranslateError("manager.py: core_defs imports not as expected")
        # Module.sub_all must be `ALL_MESSAGE_TYPES in self.subs`
        fn = find_func(self.tree, "sub_all", "Module")
        b = _body(fn)
        if not (len(b) == 1 and isinstance(b[0], ast.Return) and b[0].value is not None
                and _src(b[0].value) == "ALL_MESSAGE_TYPES in self.subs"):
            raise TranslateError("Module.sub_all: not `ALL_MESSAGE_TYPES in self.subs`")

    def zexpr(self, e: ast.AST, env: Dict[str, str]) -> str:
        if isinstance(e, ast.Name) and e.id == "ALL_MESSAGE_TYPES":
            return "ALL_MESSAGE_TYPES"
        if isinstance(e, ast.Name) and env.get(e.id) == "int":
            return e.id
        if isinstance(e, ast.Attribute) and isinstance(e.value, ast.Name) and env.get(e.value.id) == "ctl" \
                and e.attr == "msg_type":
            return "t"
        if isinstance(e, ast.Constant) and isinstance(e.value, int) and not isinstance(e.value, bool):
            return _zlit(e.value)
        raise TranslateError(f"manager: unsupported int expression `{_src(e)}`")

    def bexpr(self, e: ast.AST, env: Dict[str, str]) -> str:
        if _src(e) == "src_module.sub_all":
            return "(mem ALL_MESSAGE_TYPES (msubs m))"
        if isinstance(e, ast.UnaryOp) and isinstance(e.op, ast.Not):
            return f"(negb {self.bexpr(e.operand, env)})"
        if isinstance(e, ast.Compare) and len(e.ops) == 1 and isinstance(e.ops[0], (ast.Eq, ast.NotEq)):
            t = f"({self.zexpr(e.left, env)} =? {self.zexpr(e.comparators[0], env)})"
            return t if isinstance(e.ops[0], ast.Eq) else f"(negb {t})"
        raise TranslateError(f"manager: unsupported boolean expression `{_src(e)}`")

    def _set_call(self, c: ast.Call, env: Dict[str, str], in_loop: bool) -> Optional[str]:
        """self.subscriptions[E].add/discard(src_module) ; src_module.subs.add/discard(E)/clear()"""
        f = c.func
        if not isinstance(f, ast.Attribute) or c.keywords:
            return None
        tgt = f.value
        if isinstance(tgt, ast.Subscript) and _src(tgt.value) == "self.subscriptions" and f.attr in ("add", "discard") \
                and len(c.args) == 1 and _src(c.args[0]) == "src_module":
            k = self.zexpr(tgt.slice, env)
            return f"with_memb m (set_{f.attr} (memb m) {k})"
        if _src(tgt) == "src_module.subs":
            if in_loop:
                raise TranslateError("manager: Module.subs mutated while being iterated")
            if f.attr == "clear" and not c.args:
                return "with_msubs m []"
            if f.attr in ("add", "discard") and len(c.args) == 1:
                return f"with_msubs m (set_{f.attr} (msubs m) {self.zexpr(c.args[0], env)})"
        return None

    def stmts(self, ss: List[ast.stmt], env: Dict[str, str], ind: str, in_loop: bool = False) -> str:
        if not ss:
            return f"{ind}m"
        s, rest = ss[0], ss[1:]
        nx = lambda env2=env: self.stmts(rest, env2, ind, in_loop)  # noqa: E731
        if isinstance(s, ast.Assign) and len(s.targets) == 1 and isinstance(s.targets[0], ast.Name) \
                and isinstance(s.value, ast.Call) and len(s.value.args) == 1 and _src(s.value.args[0]) == "msg.data" \
                and isinstance(s.value.func, ast.Attribute) and s.value.func.attr == "from_buffer" \
                and isinstance(s.value.func.value, ast.Attribute) and _src(s.value.func.value.value) == "cd":
            self.cd.ctrl_class_id(s.value.func.value.attr)      # layout check: one Int32 msg_type at offset 0
            return nx({**env, s.targets[0].id: "ctl"})
        if isinstance(s, ast.Expr) and isinstance(s.value, ast.Call):
            if _src(s.value.func).startswith("self.logger."):
                return nx()
            c = self._set_call(s.value, env, in_loop)
            if c is not None:
                return f"{ind}let m := {c} in\n" + nx()
            raise TranslateError(f"manager: unsupported call statement `{_src(s)}`")
        if isinstance(s, ast.If):
            if not s.orelse and len(s.body) == 1 and isinstance(s.body[0], ast.Return) and s.body[0].value is None:
                return f"{ind}if {self.bexpr(s.test, env)} then m else\n" + nx()
            a = self.stmts(list(s.body) + rest, env, ind + "  ", in_loop)
            b = self.stmts(list(s.orelse) + rest, env, ind + "  ", in_loop)
            return f"{ind}if {self.bexpr(s.test, env)} then\n{a}\n{ind}else\n{b}"
        if isinstance(s, ast.For) and not s.orelse and isinstance(s.target, ast.Name) \
                and _src(s.iter) == "src_module.subs" and not in_loop:
            v = s.target.id
            body = self.stmts(list(s.body), {**env, v: "int"}, ind + "    ", True)
            return (f"{ind}let m := fold_left (fun (m : mstate) ({v} : Z) =>\n{body}) (msubs m) m in\n" + nx())
        if isinstance(s, ast.Return) and s.value is None and not in_loop:
            return f"{ind}m"
        raise TranslateError(f"manager: unsupported statement `{_src(s)}`")

    def handler(self, name: str) -> str:
        fn = find_func(self.tree, name, "MessageManager")
        if [a.arg for a in fn.args.args] != ["self", "src_module", "msg"] or fn.decorator_list:
            raise TranslateError(f"MessageManager.{name}: unexpected signature")
        b = _body(fn)
        if len(b) == 1 and isinstance(b[0], ast.Expr) and isinstance(b[0].value, ast.Call) \
                and isinstance(b[0].value.func, ast.Attribute) and _src(b[0].value.func.value) == "self" \
                and [_src(a) for a in b[0].value.args] == ["src_module", "msg"] and not b[0].value.keywords \
                and b[0].value.func.attr in ("add_subscription", "remove_subscription"):
            return f"Definition mgr_{name} (m : mstate) (t : Z) : mstate := mgr_{b[0].value.func.attr} m t.\n"
        return f"Definition mgr_{name} (m : mstate) (t : Z) : mstate :=\n" + self.stmts(b, {}, "  ") + ".\n"

    def dispatch(self) -> str:
        fn = find_func(self.tree, "process_message", "MessageManager")
        first = [n for n in fn.body if isinstance(n, ast.If)]
        if len(first) != 1:
            raise TranslateError("process_message: expected one if/elif chain")
        node: Optional[ast.If] = first[0]
        arms: List[Tuple[int, str]] = []
        handlers = ("add_subscription", "remove_subscription", "pause_subscription", "resume_subscription")
        while node is not None:
            body0 = node.body[0] if node.body else None
            callee = None
            if isinstance(body0, ast.Expr) and isinstance(body0.value, ast.Call) \
                    and isinstance(body0.value.func, ast.Attribute) and _src(body0.value.func.value) == "self":
                callee = body0.value.func.attr
            if callee in handlers:
                t = node.test
                if not (isinstance(t, ast.Compare) and len(t.ops) == 1 and isinstance(t.ops[0], ast.Eq)
                        and _src(t.left) == "msg_type" and isinstance(t.comparators[0], ast.Attribute)
                        and _src(t.comparators[0].value) == "cd"):
                    raise TranslateError(f"process_message: unexpected test `{_src(t)}` for {callee}")
                if [_src(a) for a in body0.value.args] != ["src_module", "self.message"]:  # type: ignore
                    raise TranslateError(f"process_message: unexpected arguments for {callee}")
                arms.append((self.cd.const(t.comparators[0].attr), callee))
            nxt = node.orelse
            node = nxt[0] if len(nxt) == 1 and isinstance(nxt[0], ast.If) else None
        if sorted(c for _, c in arms) != sorted(handlers) or len({k for k, _ in arms}) != 4:
            raise TranslateError(f"process_message: control dispatch arms {arms}")
        # no other arm of the chain may test one of the four control ids (checked by value): it would shadow it
        node = first[0]
        seen: List[int] = []
        while node is not None:
            for c in ast.walk(node.test):
                if isinstance(c, ast.Attribute) and _src(c.value) == "cd":
                    seen.append(self.cd.const(c.attr))
            nxt = node.orelse
            node = nxt[0] if len(nxt) == 1 and isinstance(nxt[0], ast.If) else None
        for k, _ in arms:
            if seen.count(k) != 1:
                raise TranslateError(f"process_message: control type {k} tested {seen.count(k)} times")
        out = ["Definition mgr_recv (m : mstate) (f : cframe) : mstate :=", "  let '(mt, t) := f in"]
        for k, c in arms:
            out.append(f"  if mt =? {_zlit(k)} then mgr_{c} m t else")
        out.append("  m.")
        return "\n".join(out) + "\n"


# --------------------------------------------------------------------------
# Client._read_message guards
# --------------------------------------------------------------------------

def _recv_call(n: ast.AST) -> Optional[ast.Call]:
    for c in ast.walk(n):
        if isinstance(c, ast.Call) and isinstance(c.func, ast.Attribute) and c.func.attr in ("recv", "recv_into") \
                and _src(c.func.value) == "self._sock":
            return c
    return None


def read_guards(cd: CoreDefs) -> str:
    tree = load("client.py")
    fn = find_func(tree, "_read_message", "Client")
    if [_src(d) for d in fn.decorator_list] != ["requires_connection"]:
        raise TranslateError("_read_message: decorators changed")
    htree = load("header.py")
    hc = find_class(htree, "MessageHeader")
    widths = {"Int32": 4, "Uint32": 4, "Int16": 2, "Double": 8}
    off, offs = 0, {}
    for n in hc.body:
        if isinstance(n, ast.AnnAssign) and isinstance(n.target, ast.Name):
            w = widths.get(_src(n.annotation))
            if w is None:
                raise TranslateError(f"MessageHeader.{n.target.id}: unknown field type {_src(n.annotation)}")
            off = (off + w - 1) // w * w
            offs[n.target.id] = (off, w, _src(n.annotation))
            off += w
    hsize = (off + 7) // 8 * 8
    for f in ("msg_type", "num_data_bytes", "reserved", "recv_time"):
        if f not in offs:
            raise TranslateError(f"MessageHeader: field {f} missing")
    # version property must alias `reserved`
    v = [n for n in hc.body if isinstance(n, ast.FunctionDef) and n.name == "version"
         and [_src(d) for d in n.decorator_list] == ["property"]]
    if len(v) != 1 or _src(_body(v[0])[0]) != "return self.reserved":
        raise TranslateError("MessageHeader.version: not an alias of reserved")

    # header read
    hdr_reads = [c for c in ast.walk(fn) if isinstance(c, ast.Call) and isinstance(c.func, ast.Attribute)
                 and c.func.attr == "recv_into" and _src(c.func.value) == "self._sock"]
    if len(hdr_reads) != 2:
        raise TranslateError(f"_read_message: {len(hdr_reads)} recv_into calls")
    want = {"self._sock.recv_into(header, header.size, socket.MSG_WAITALL)",
            "self._sock.recv_into(data, type_size, socket.MSG_WAITALL)"}
    if {_src(c) for c in hdr_reads} != want:
        raise TranslateError("_read_message: recv_into calls changed: " + "; ".join(_src(c) for c in hdr_reads))

    def _disconnects(stmts: List[ast.stmt], what: str) -> bool:
        """stmts must be  [self._connected = False ;] raise ConnectionLost ; returns whether the flag is cleared"""
        srcs = [_src(x) for x in stmts]
        if srcs == ["self._connected = False", "raise ConnectionLost"]:
            return True
        if srcs == ["raise ConnectionLost"]:
            return False
        raise TranslateError(f"{what}: unexpected loss-reporting statements {srcs}")

    def recv_try(call_src: str, what: str) -> Tuple[bool, bool]:
        """the try block around a recv_into: (short read clears _connected, ConnectionError clears _connected)"""
        ts = [t for t in ast.walk(fn) if isinstance(t, ast.Try) and any(
            isinstance(c, ast.Call) and _src(c) == call_src for c in ast.walk(ast.Module(body=t.body, type_ignores=[])))]
        if len(ts) != 1:
            raise TranslateError(f"_read_message: {what}: {len(ts)} try blocks around {call_src}")
        t = ts[0]
        if t.orelse or t.finalbody or len(t.handlers) != 1 or _src(t.handlers[0].type) != "ConnectionError":
            raise TranslateError(f"_read_message: {what}: handlers changed")
        shorts = [x for x in t.body if isinstance(x, ast.If) and "nbytes" in names_in(x.test)]
        if len(shorts) != 1 or shorts[0].orelse or not isinstance(shorts[0].test, ast.Compare) \
                or not isinstance(shorts[0].test.ops[0], ast.NotEq):
            raise TranslateError(f"_read_message: {what}: short-read check changed")
        size_arg = call_src.split(", ")[1]
        if _src(shorts[0].test) != f"nbytes != {size_arg}":
            raise TranslateError(f"_read_message: {what}: short-read test is `{_src(shorts[0].test)}`")
        first = t.body[0]
        if _src(first) != f"nbytes = {call_src}":
            raise TranslateError(f"_read_message: {what}: try body does not start with the recv_into")
        return _disconnects(list(shorts[0].body), what + " short read"), \
            _disconnects(list(t.handlers[0].body), what + " ConnectionError")

    hdr_short_disc, hdr_reset_disc = recv_try("self._sock.recv_into(header, header.size, socket.MSG_WAITALL)", "header read")
    data_short_disc, data_reset_disc = recv_try("self._sock.recv_into(data, type_size, socket.MSG_WAITALL)", "payload read")

    # Client._drain(nbytes): try: raw = self._sock.recv(nbytes, socket.MSG_WAITALL) / except ConnectionError: ... /
    #                        [if len(raw) != nbytes: ...] / return raw
    dfn = find_func(tree, "_drain", "Client")
    if [a.arg for a in dfn.args.args] != ["self", "nbytes"] or dfn.decorator_list:
        raise TranslateError("Client._drain: signature changed")
    db = _body(dfn)
    if not (len(db) in (2, 3) and isinstance(db[0], ast.Try) and isinstance(db[-1], ast.Return)
            and _src(db[-1]) == "return raw"):
        raise TranslateError("Client._drain: unexpected shape")
    dt = db[0]
    if [_src(x) for x in dt.body] != ["raw = self._sock.recv(nbytes, socket.MSG_WAITALL)"] or dt.orelse or dt.finalbody \
            or len(dt.handlers) != 1 or _src(dt.handlers[0].type) != "ConnectionError":
        raise TranslateError("Client._drain: the drain is not `raw = self._sock.recv(nbytes, socket.MSG_WAITALL)` "
                             "inside try/except ConnectionError")
    drain_reset_disc = _disconnects(list(dt.handlers[0].body), "_drain ConnectionError")
    drain_short_checked, drain_short_disc = False, False
    if len(db) == 3:
        chk_ = db[1]
        if not (isinstance(chk_, ast.If) and not chk_.orelse and _src(chk_.test) == "len(raw) != nbytes"):
            raise TranslateError(f"Client._drain: unexpected statement `{_src(chk_)}`")
        drain_short_checked = True
        drain_short_disc = _disconnects(list(chk_.body), "_drain short read")

    def drain_of(stmts: List[ast.stmt], what: str) -> str:
        calls = []
        for s in stmts:
            for c in ast.walk(s):
                if isinstance(c, ast.Call) and isinstance(c.func, ast.Attribute) and c.func.attr in ("recv", "_drain", "recv_into"):
                    calls.append(c)
        if len(calls) != 1:
            raise TranslateError(f"_read_message: {what} branch has {len(calls)} drain calls")
        c = calls[0]
        if _src(c.func) != "self._drain" or len(c.args) != 1 or c.keywords:
            raise TranslateError(f"_read_message: {what} drain is not self._drain(<len>): {_src(c)}")
        if not isinstance(stmts[-1], ast.Raise):
            raise TranslateError(f"_read_message: {what} branch does not end in raise")
        first_recv = next(i for i, s in enumerate(stmts) if any(x is c for x in ast.walk(s)))
        if first_recv != len(stmts) - 2:
            raise TranslateError(f"_read_message: {what} branch: drain is not immediately before the raise")
        et = ExprTr({"header.num_data_bytes": "n", "type_size": "type_size"})
        return et.z(c.args[0])

    # unknown type: the except UnknownMessageType handler of the try around get_msg_cls
    trys = [t for t in fn.body if isinstance(t, ast.Try)]
    unk = [h for t in trys for h in t.handlers if h.type is not None and _src(h.type) == "UnknownMessageType"]
    if len(unk) != 1:
        raise TranslateError("_read_message: UnknownMessageType handler not found")
    d_unknown = drain_of(list(unk[0].body), "unknown-type")
    if_size = unique_if(fn, ["type_size", "num_data_bytes"])
    if_ver = unique_if(fn, ["sync_check", "version", "type_hash"])
    top_ifs = [s for s in fn.body if isinstance(s, ast.If)]
    if if_size not in top_ifs or if_ver not in top_ifs or top_ifs.index(if_size) > top_ifs.index(if_ver):
        raise TranslateError("_read_message: order/nesting of size and version checks changed")
    for i, what in ((if_size, "size-mismatch"), (if_ver, "version-mismatch")):
        if i.orelse:
            raise TranslateError(f"_read_message: {what} check has an else branch")
        e = i.body[-1].exc if isinstance(i.body[-1], ast.Raise) else None
        en = e.func if isinstance(e, ast.Call) else e
        if not (isinstance(en, ast.Name) and en.id == "InvalidMessageDefinition"):
            raise TranslateError(f"_read_message: {what} branch does not raise InvalidMessageDefinition")
    d_size = drain_of(list(if_size.body), "size-mismatch")
    d_ver = drain_of(list(if_ver.body), "version-mismatch")
    g_size = ExprTr({"type_size": "type_size", "header.num_data_bytes": "n"}).b(if_size.test)
    g_ver = ExprTr({"sync_check": "sync_check", "header.version": "ver", "data.type_hash": "type_hash"},
                   boolnames=["sync_check"]).b(if_ver.test)
    # payload read only when num_data_bytes is non-zero
    pay = [s for s in top_ifs if _src(s.test) == "header.num_data_bytes"]
    if len(pay) != 1 or top_ifs.index(pay[0]) < top_ifs.index(if_ver):
        raise TranslateError("_read_message: `if header.num_data_bytes:` payload read not found after the checks")
    # type_size fallback for v1 definitions
    fb = [s for s in top_ifs if _src(s.test) == "type_size == -1"]
    if len(fb) != 1 or _src(fb[0].body[0]) != "type_size = data.size":
        raise TranslateError("_read_message: v1 type_size fallback changed")

    lines = [
        "(* GENERATED by vlib/translate/client_sub.py from src/pyrtma/client.py (Client._read_message),",
        "   header.py and core_defs.py - do not edit. *)",
        "From Coq Require Import ZArith Bool.",
        "Open Scope Z_scope.",
        f"Definition MT_ACKNOWLEDGE : Z := {_zlit(cd.const('MT_ACKNOWLEDGE'))}.",
        f"Definition HEADER_SIZE : Z := {hsize}.",
        f"Definition OFF_MSG_TYPE : Z := {offs['msg_type'][0]}.",
        f"Definition OFF_NUM_DATA_BYTES : Z := {offs['num_data_bytes'][0]}.",
        f"Definition OFF_VERSION : Z := {offs['reserved'][0]}.",
        f"Definition OFF_RECV_TIME : Z := {offs['recv_time'][0]}.",
        f"Definition VERSION_SIGNED : bool := {'true' if offs['reserved'][2] == 'Int32' else 'false'}.",
        "(* `if type_size != header.num_data_bytes:` *)",
        f"Definition size_guard (type_size n : Z) : bool := {g_size}.",
        "(* `if sync_check and header.version != 0 and header.version != data.type_hash:` *)",
        f"Definition version_guard (sync_check : bool) (ver type_hash : Z) : bool := {g_ver}.",
        "(* length argument of the MSG_WAITALL drain in each error branch *)",
        f"Definition drain_len_unknown (n : Z) : Z := {d_unknown}.",
        f"Definition drain_len_size (type_size n : Z) : Z := {d_size}.",
        f"Definition drain_len_version (type_size n : Z) : Z := {d_ver}.",
        "(* does the path clear Client._connected before raising ConnectionLost? *)",
        f"Definition hdr_short_disconnects : bool := {str(hdr_short_disc).lower()}.",
        f"Definition hdr_reset_disconnects : bool := {str(hdr_reset_disc).lower()}.",
        f"Definition data_short_disconnects : bool := {str(data_short_disc).lower()}.",
        f"Definition data_reset_disconnects : bool := {str(data_reset_disc).lower()}.",
        "(* Client._drain: ConnectionError -> ConnectionLost; is a short drain checked (`len(raw) != nbytes`)? *)",
        f"Definition drain_reset_disconnects : bool := {str(drain_reset_disc).lower()}.",
        f"Definition drain_short_checked : bool := {str(drain_short_checked).lower()}.",
        f"Definition drain_short_disconnects : bool := {str(drain_short_disc).lower()}.",
    ]
    if offs["msg_type"][2] != "Int32" or offs["num_data_bytes"][2] != "Int32" or offs["reserved"][2] not in ("Uint32", "Int32"):
        raise TranslateError("MessageHeader: msg_type/num_data_bytes/reserved field types changed")
    return "\n".join(lines) + "\n"


# --------------------------------------------------------------------------

def render_client_sub() -> str:
    cd = CoreDefs()
    ct = ClientTr(cd)
    head = [
        "(* GENERATED by vlib/translate/client_sub.py from src/pyrtma/client.py",
        "   (Client._subscription_control, subscribe, unsubscribe, pause_subscription, resume_subscription,",
        "   unsubscribe_from_all, pause_all_subscriptions, resume_all_subscriptions) and core_defs.py - do not edit. *)",
        "From Coq Require Import ZArith List Bool String.",
        "From Cli Require Import Model.SubBase.",
        "Import ListNotations.",
        "Open Scope string_scope.",
        "Open Scope Z_scope.",
        "",
        f"Definition ALL_MESSAGE_TYPES : Z := {_zlit(cd.const('ALL_MESSAGE_TYPES'))}.",
        f"Definition MT_SUBSCRIBE : Z := {_zlit(cd.const('MT_SUBSCRIBE'))}.",
        f"Definition MT_UNSUBSCRIBE : Z := {_zlit(cd.const('MT_UNSUBSCRIBE'))}.",
        f"Definition MT_PAUSE_SUBSCRIPTION : Z := {_zlit(cd.const('MT_PAUSE_SUBSCRIPTION'))}.",
        f"Definition MT_RESUME_SUBSCRIPTION : Z := {_zlit(cd.const('MT_RESUME_SUBSCRIPTION'))}.",
        "",
    ]
    return "\n".join(head) + ct.sub_ctrl() + "\n" + ct.wrappers()


def render_mgr_sub() -> str:
    cd = CoreDefs()
    mt = ManagerTr(cd)
    head = [
        "(* GENERATED by vlib/translate/client_sub.py from src/pyrtma/manager.py",
        "   (MessageManager.add_subscription, remove_subscription, pause_subscription, resume_subscription,",
        "   process_message dispatch; Module.sub_all) - do not edit. *)",
        "From Coq Require Import ZArith List Bool.",
        "From Cli Require Import Model.SubBase Gen.ClientSub.",
        "Import ListNotations.",
        "Open Scope Z_scope.",
        "",
    ]
    parts = [mt.handler(n) for n in ("add_subscription", "remove_subscription", "pause_subscription",
                                     "resume_subscription")]
    return "\n".join(head) + "\n".join(parts) + "\n" + mt.dispatch()


def render_read_guards() -> str:
    return read_guards(CoreDefs())
