"""Regenerate coq/defs/Gen/Guards.v from /repo/src/pyrtma/parser.py (+ core_defs.py).

Translated (fail closed - any unexpected AST shape raises TranslateError):
  * the numeric guards of handle_host_id / handle_module_id / validate_msg_id / handle_reserve,
    with the exemption conditions of the host and module range checks;
  * MAX_MESSAGE_TYPES (core_defs.py) that parser.py imports;
  * the namespace tuples every handler passes to check_duplicate_name;
  * the order in which parse_text walks the sections;
  * a set of *skeleton checks*: statement order inside the handlers, which handlers call
    check_name / check_duplicate_name / validate_msg_id, the included_files test of parse_file,
    the generated reserved name format.  They emit nothing; they make the hand-written control
    skeleton of Model/Registry.v fail closed when the code's skeleton changes.
"""
from __future__ import annotations

import ast
from typing import List, Tuple

from .pyast import TranslateError, load, find_func, ExprTr, const_int, coq_string, dotted

RTMA = "RTMASyntaxError"


def _u(n: ast.AST) -> str:
    return ast.unparse(n)


def _raise_class(st: ast.stmt) -> str:
    if not isinstance(st, ast.Raise) or st.exc is None:
        raise TranslateError(f"expected raise, got {_u(st)[:80]}")
    e = st.exc
    if isinstance(e, ast.Call):
        e = e.func
    return dotted(e)


def _single_raise(body: List[ast.stmt], what: str) -> str:
    if len(body) != 1:
        raise TranslateError(f"{what}: expected a single raise, found {len(body)} statements")
    return _raise_class(body[0])


def _self_calls(fn: ast.FunctionDef) -> List[str]:
    """names of self.<method>(...) calls in source order"""
    calls = []
    for n in ast.walk(fn):
        if isinstance(n, ast.Call) and isinstance(n.func, ast.Attribute) and isinstance(n.func.value, ast.Name) \
                and n.func.value.id == "self":
            calls.append((n.lineno, n.col_offset, n.func.attr))
    return [c for _, _, c in sorted(calls)]


def _namespaces(fn: ast.FunctionDef) -> List[str]:
    hits = [n for n in ast.walk(fn) if isinstance(n, ast.Call) and isinstance(n.func, ast.Attribute)
            and n.func.attr == "check_duplicate_name"]
    if len(hits) != 1:
        raise TranslateError(f"{fn.name}: {len(hits)} calls of check_duplicate_name")
    c = hits[0]
    kws = {k.arg: k.value for k in c.keywords}
    if set(kws) != {"namespaces"} or len(c.args) != 2:
        raise TranslateError(f"{fn.name}: unexpected check_duplicate_name call {_u(c)}")
    if _u(c.args[1]) not in ("name", "alias"):
        raise TranslateError(f"{fn.name}: check_duplicate_name is not applied to the item name")
    t = kws["namespaces"]
    if not isinstance(t, ast.Tuple) or not all(isinstance(e, ast.Constant) and isinstance(e.value, str) for e in t.elts):
        raise TranslateError(f"{fn.name}: namespaces is not a tuple of string literals")
    return [e.value for e in t.elts]


def _core_file_name() -> str:
    """Parser.is_core_file(path): path.resolve() == <package dir>/core_defs/core_defs.yaml .resolve()"""
    fn = find_func(load("parser.py"), "is_core_file", "Parser")
    body = [s for s in fn.body if not (isinstance(s, ast.Expr) and isinstance(s.value, ast.Constant))]
    if len(body) != 2 or _u(body[1]) != "return path.resolve() == core.resolve()":
        raise TranslateError("is_core_file: not a comparison of resolved paths: " + " ; ".join(_u(b) for b in body))
    a = body[0]
    if not isinstance(a, ast.Assign) or _u(a.targets[0]) != "core":
        raise TranslateError("is_core_file: core path assignment changed")
    v = a.value            # ((pathlib.Path(os.path.realpath(__file__)).parent / 'core_defs') / 'core_defs.yaml')
    if not (isinstance(v, ast.BinOp) and isinstance(v.op, ast.Div) and isinstance(v.right, ast.Constant)
            and isinstance(v.left, ast.BinOp) and isinstance(v.left.op, ast.Div) and isinstance(v.left.right, ast.Constant)
            and _u(v.left.left) == "pathlib.Path(os.path.realpath(__file__)).parent"):
        raise TranslateError("is_core_file: core path is not <package dir>/<dir>/<file>: " + _u(v))
    # Parser.parse reads the same file first when import_coredefs
    pf = _u(find_func(load("parser.py"), "parse", "Parser"))
    if f"pkg_dir / '{v.left.right.value}/{v.right.value}'" not in pf:
        raise TranslateError("parse: the core file read first is not the one is_core_file names")
    return v.right.value


def _exempt(test: ast.expr, who: str) -> Tuple[str, str]:
    """translate `not self.is_core_file(self.current_file) [and value != 0] and self.import_coredefs`
    returns (coq bool expr over is_core_file import_coredefs value, core file name)"""
    if not (isinstance(test, ast.BoolOp) and isinstance(test.op, ast.And)):
        raise TranslateError(f"{who}: exemption test is not a conjunction: {_u(test)}")
    parts = []
    core = None
    seen_icd = False
    tr = ExprTr({"value": "value"})
    for c in test.values:
        if _u(c) == "not self.is_core_file(self.current_file)":
            core = _core_file_name()
            parts.append("(negb is_core_file)")
        elif _u(c) == "self.import_coredefs":
            seen_icd = True
            parts.append("import_coredefs")
        else:
            parts.append(tr.b(c))
    if core is None or not seen_icd:
        raise TranslateError(f"{who}: exemption test lost the core-file / import_coredefs conjunct: {_u(test)}")
    return "(" + " && ".join(parts) + ")", core


def _id_handler(fname: str, table: str, dup_exc: str):
    """handle_host_id / handle_module_id: returns (range test coq, exemption coq, core name, namespaces)"""
    tree = load("parser.py")
    fn = find_func(tree, fname, "Parser")
    body = [s for s in fn.body if not (isinstance(s, ast.Expr) and isinstance(s.value, ast.Constant))]
    kinds = [type(s).__name__ for s in body]
    if kinds != ["Expr", "Expr", "If", "If", "For", "Assign"]:
        raise TranslateError(f"{fname}: statement skeleton changed: {kinds}")
    if _u(body[0]) != "self.check_name(name)":
        raise TranslateError(f"{fname}: first statement is not check_name(name)")
    ns = _namespaces(fn)
    if not _u(body[1]).startswith("self.check_duplicate_name("):
        raise TranslateError(f"{fname}: second statement is not check_duplicate_name")
    if _u(body[2].test) != "not isinstance(value, int)" or _single_raise(body[2].body, fname) != "InvalidTypeError":
        raise TranslateError(f"{fname}: type check changed")
    rng = body[3]
    if rng.orelse or len(rng.body) != 1 or not isinstance(rng.body[0], ast.If) or rng.body[0].orelse:
        raise TranslateError(f"{fname}: range guard is not `if range: if exempt: raise`")
    if _single_raise(rng.body[0].body, fname) != RTMA:
        raise TranslateError(f"{fname}: range guard does not raise {RTMA}")
    rtest = ExprTr({"value": "value"}).b(rng.test)
    ex, core = _exempt(rng.body[0].test, fname)
    loop = body[4]
    if _u(loop.iter) != f"self.{table}.values()" or len(loop.body) != 1 or not isinstance(loop.body[0], ast.If):
        raise TranslateError(f"{fname}: duplicate-value loop changed")
    var = _u(loop.target)
    if _u(loop.body[0].test) != f"value == {var}.value" or _single_raise(loop.body[0].body, fname) != dup_exc:
        raise TranslateError(f"{fname}: duplicate-value test changed")
    if not _u(body[5]).startswith(f"self.{table}[name] = "):
        raise TranslateError(f"{fname}: registration changed")
    return rtest, ex, core, ns


def _msg_id():
    tree = load("parser.py")
    fn = find_func(tree, "validate_msg_id", "Parser")
    body = fn.body
    kinds = [type(s).__name__ for s in body]
    if kinds != ["If", "If", "For"]:
        raise TranslateError(f"validate_msg_id: statement skeleton changed: {kinds}")
    if _u(body[0].test) != "not isinstance(msg_id, int)":
        raise TranslateError("validate_msg_id: type check changed")
    if body[1].orelse or _single_raise(body[1].body, "validate_msg_id") != RTMA:
        raise TranslateError("validate_msg_id: range guard does not raise " + RTMA)
    rtest = ExprTr({"msg_id": "msg_id", "MAX_MESSAGE_TYPES": "max_message_types"}).b(body[1].test)
    loop = body[2]
    if _u(loop.iter) != "self.message_ids.values()" or len(loop.body) != 1 or not isinstance(loop.body[0], ast.If):
        raise TranslateError("validate_msg_id: duplicate loop changed")
    var = _u(loop.target)
    if _u(loop.body[0].test) != f"msg_id == {var}.value" or \
            _single_raise(loop.body[0].body, "validate_msg_id") != "MessageIDError":
        raise TranslateError("validate_msg_id: duplicate test changed")
    # MAX_MESSAGE_TYPES is the core_defs.py constant
    imp = [n for n in ast.walk(tree) if isinstance(n, ast.ImportFrom) and n.module == "core_defs"
           and any(a.name == "MAX_MESSAGE_TYPES" for a in n.names)]
    if len(imp) != 1:
        raise TranslateError("parser.py no longer imports MAX_MESSAGE_TYPES from .core_defs")
    cd = load("core_defs.py")
    vals = [n.value for n in cd.body if isinstance(n, ast.AnnAssign) and isinstance(n.target, ast.Name)
            and n.target.id == "MAX_MESSAGE_TYPES" and n.value is not None]
    vals += [n.value for n in cd.body if isinstance(n, ast.Assign) and len(n.targets) == 1
             and isinstance(n.targets[0], ast.Name) and n.targets[0].id == "MAX_MESSAGE_TYPES"]
    if len(vals) != 1:
        raise TranslateError(f"core_defs.py: MAX_MESSAGE_TYPES assigned {len(vals)} times")
    return rtest, const_int(vals[0])


def _reserve():
    tree = load("parser.py")
    fn = find_func(tree, "handle_reserve", "Parser")
    ifs = sorted([n for n in ast.walk(fn) if isinstance(n, ast.If)
                  and {"start", "end"} <= {x.id for x in ast.walk(n.test) if isinstance(x, ast.Name)}],
                 key=lambda n: n.lineno)
    if len(ifs) != 2:
        raise TranslateError(f"handle_reserve: {len(ifs)} guards over start/end")
    tr = ExprTr({"start": "start", "end": "end_"})
    out = []
    for i in ifs:
        if i.orelse or _single_raise(i.body, "handle_reserve") != RTMA:
            raise TranslateError("handle_reserve: range guard does not raise " + RTMA)
        out.append(tr.b(i.test))
    ext = [n for n in ast.walk(fn) if isinstance(n, ast.Call) and _u(n.func) == "reserved.extend"]
    if len(ext) != 1 or _u(ext[0]) != "reserved.extend(list(range(start, end + 1)))":
        raise TranslateError("handle_reserve: range expansion changed")
    if ext[0].lineno < ifs[1].lineno:
        raise TranslateError("handle_reserve: expansion precedes its guards")
    rx = [n for n in ast.walk(fn) if isinstance(n, ast.Call) and _u(n.func) == "re.search"]
    if len(rx) != 1 or not isinstance(rx[0].args[0], ast.Constant):
        raise TranslateError("handle_reserve: entry regex not found")
    # generated placeholder names and their registration through handle_signal, after the whole expansion
    loops = [n for n in fn.body if isinstance(n, ast.For)]
    if len(loops) != 3 or _u(loops[0].iter) != "mdf.keys()" or _u(loops[1].iter) != "mdf['id']" \
            or _u(loops[2].iter) != "reserved" or ext[0].lineno > loops[2].lineno:
        raise TranslateError("handle_reserve: expected section check, expansion loop, then the registration loop")
    b = loops[2].body
    if len(b) != 2 or _u(b[0]) != "name = f'_RESERVED_{id:06d}'" or \
            _u(b[1]) != "self.handle_signal(name, dict(id=id, fields=None))":
        raise TranslateError("handle_reserve: registration loop changed: " + " ; ".join(_u(x) for x in b))
    return out[0], out[1], rx[0].args[0].value


def _section_order() -> List[str]:
    tree = load("parser.py")
    fn = find_func(tree, "parse_text", "Parser")
    order = []
    for s in fn.body:
        if isinstance(s, ast.If) and isinstance(s.test, ast.Compare) and len(s.test.ops) == 1 \
                and isinstance(s.test.ops[0], ast.IsNot) and isinstance(s.test.left, ast.Call) \
                and _u(s.test.left.func) == "data.get" and len(s.test.left.args) == 1 \
                and isinstance(s.test.left.args[0], ast.Constant):
            order.append(s.test.left.args[0].value)
    if len(order) != len(set(order)) or not order:
        raise TranslateError(f"parse_text: section walk not recognised: {order}")
    handlers = {"imports": "handle_import", "constants": "handle_expression", "string_constants": "handle_string",
                "aliases": "handle_alias", "host_ids": "handle_host_id", "module_ids": "handle_module_id",
                "struct_defs": "handle_struct", "message_defs": "handle_message_def", "metadata": "handle_metadata"}
    calls = [c for c in _self_calls(fn) if c.startswith("handle_")]
    if calls != [handlers.get(s, "?") for s in order]:
        raise TranslateError(f"parse_text: handlers {calls} do not match sections {order}")
    # the YAML load precedes every section
    first_if = min(s.lineno for s in fn.body if isinstance(s, ast.If))
    loads = [n.lineno for n in ast.walk(fn) if isinstance(n, ast.Call) and _u(n.func) == "yaml.load"]
    if len(loads) != 1 or loads[0] > first_if:
        raise TranslateError("parse_text: yaml.load is not the first step")
    return order


def _skeleton_checks():
    tree = load("parser.py")
    # check_name
    fn = find_func(tree, "check_name", "Parser")
    ifs = [s for s in fn.body if isinstance(s, ast.If)]
    args = [a.arg for a in fn.args.args]
    dflt = [_u(d) for d in fn.args.defaults]
    if args != ["self", "name", "allow_reserved"] or dflt != ["False"]:
        raise TranslateError(f"check_name signature changed: {args} {dflt}")
    if len(ifs) != 2 or _u(ifs[0].test) != "allow_reserved and name == '_RESERVED_'" or not isinstance(ifs[0].body[0], ast.Return) \
            or _u(ifs[1].test) != "not name.startswith(tuple((c for c in string.ascii_letters)))" \
            or _single_raise(ifs[1].body, "check_name") != RTMA:
        raise TranslateError("check_name changed: " + " / ".join(_u(i.test) for i in ifs))
    # check_duplicate_name
    fn = find_func(tree, "check_duplicate_name", "Parser")
    ifs = [n for n in ast.walk(fn) if isinstance(n, ast.If)]
    if len(ifs) != 1 or _u(ifs[0].test) != "name == o.name" or \
            _single_raise(ifs[0].body, "check_duplicate_name") != "DuplicateNameError":
        raise TranslateError("check_duplicate_name changed")
    fors = [_u(n.iter) for n in ast.walk(fn) if isinstance(n, ast.For)]
    if sorted(fors) != ["namespaces", "ns.values()"]:
        raise TranslateError("check_duplicate_name loops changed")
    # handle_signal: no name check of its own, id validated, both tables written
    fn = find_func(tree, "handle_signal", "Parser")
    calls = _self_calls(fn)
    if [c for c in calls if c in ("check_name", "check_duplicate_name", "validate_msg_id")] != ["validate_msg_id"]:
        raise TranslateError(f"handle_signal: calls changed: {calls}")
    src = _u(fn)
    if "self.message_ids[name] = " not in src or "self.message_defs[name] = obj" not in src:
        raise TranslateError("handle_signal: registration changed")
    # handle_message_def: order of the checks
    fn = find_func(tree, "handle_message_def", "Parser")
    calls = [c for c in _self_calls(fn) if c in ("check_name", "check_duplicate_name", "handle_reserve",
                                                  "handle_signal", "validate_msg_id", "add_fields")]
    if calls != ["check_name", "check_duplicate_name", "handle_reserve", "handle_signal", "validate_msg_id", "add_fields"]:
        raise TranslateError(f"handle_message_def: order of checks changed: {calls}")
    cn = [_u(n) for n in ast.walk(fn) if isinstance(n, ast.Call) and _u(n.func) == "self.check_name"]
    if cn != ["self.check_name(name, allow_reserved=True)"]:
        raise TranslateError(f"handle_message_def: check_name call changed: {cn}")
    res = [s for s in fn.body if isinstance(s, ast.If) and _u(s.test) == "name == '_RESERVED_'"]
    if len(res) != 1 or not isinstance(res[0].body[-1], ast.Return):
        raise TranslateError("handle_message_def: _RESERVED_ dispatch changed")
    # the other shared-namespace handlers: check_name then check_duplicate_name come before registration
    for h, tab in (("handle_expression", "constants"), ("handle_string", "string_constants"),
                   ("handle_alias", "aliases"), ("handle_struct", "struct_defs")):
        fn = find_func(tree, h, "Parser")
        calls = [c for c in _self_calls(fn) if c in ("check_name", "check_duplicate_name")]
        if calls != ["check_name", "check_duplicate_name"]:
            raise TranslateError(f"{h}: name checks changed: {calls}")
        cn = [_u(n) for n in ast.walk(fn) if isinstance(n, ast.Call) and _u(n.func) == "self.check_name"]
        if cn not in (["self.check_name(name)"], ["self.check_name(alias)"]):
            raise TranslateError(f"{h}: check_name must not allow the reserved directive: {cn}")
        dup_line = [n.lineno for n in ast.walk(fn) if isinstance(n, ast.Call) and isinstance(n.func, ast.Attribute)
                    and n.func.attr == "check_duplicate_name"][0]
        regs = [n.lineno for n in ast.walk(fn) if isinstance(n, ast.Assign)
                and _u(n.targets[0]).startswith(f"self.{tab}[")]
        if not regs or min(regs) < dup_line:
            raise TranslateError(f"{h}: registration precedes the duplicate check")
    # parse_file: visited test, then append, then read, then parse_text
    fn = find_func(tree, "parse_file", "Parser")
    tests = [s for s in fn.body if isinstance(s, ast.If)]
    if len(tests) != 1 or _u(tests[0].test) != "any((msgdefs_path == f for f in self.included_files))" \
            or not isinstance(tests[0].body[-1], ast.Return):
        raise TranslateError("parse_file: visited test changed")
    app = [s.lineno for s in fn.body if _u(s) == "self.included_files.append(msgdefs_path)"]
    pt = [s.lineno for s in fn.body if _u(s) == "self.parse_text(text)"]
    if len(app) != 1 or len(pt) != 1 or not (tests[0].lineno < app[0] < pt[0]):
        raise TranslateError("parse_file: order visited-test / append / parse_text changed")
    if "(cwd / msgdefs_file).resolve()" not in _u(fn):
        raise TranslateError("parse_file: path identity is no longer pathlib resolve()")
    # parse: core defs first when import_coredefs
    fn = find_func(tree, "parse", "Parser")
    calls = [c for c in _self_calls(fn) if c == "parse_file"]
    if calls != ["parse_file", "parse_file"] or "if self.import_coredefs:" not in _u(fn):
        raise TranslateError("parse: root sequence changed")
    # handle_import: recursion into parse_file
    fn = find_func(tree, "handle_import", "Parser")
    if [c for c in _self_calls(fn) if c == "parse_file"] != ["parse_file"]:
        raise TranslateError("handle_import changed")


def _reserved_field_names() -> List[str]:
    fn = find_func(load("parser.py"), "add_fields", "Parser")
    hits = [n for n in ast.walk(fn) if isinstance(n, ast.Assign) and _u(n.targets[0]) == "reserved_field_names"]
    if len(hits) != 1 or not isinstance(hits[0].value, ast.Tuple) or \
            not all(isinstance(e, ast.Constant) and isinstance(e.value, str) for e in hits[0].value.elts):
        raise TranslateError("add_fields: reserved_field_names is not one tuple of string literals")
    tests = [n for n in ast.walk(fn) if isinstance(n, ast.If) and _u(n.test) == "fname in reserved_field_names"]
    if len(tests) != 1 or _single_raise(tests[0].body, "add_fields") != RTMA:
        raise TranslateError("add_fields: the reserved field name test changed")
    loop = [n for n in ast.walk(fn) if isinstance(n, ast.For) and _u(n.iter) == "fields.items()"]
    if len(loop) != 1 or loop[0].body[0] is not tests[0]:
        raise TranslateError("add_fields: the reserved field name test is not the first check of every field")
    return [e.value for e in hits[0].value.elts]


def _strlist(name: str, xs: List[str]) -> str:
    return f"Definition {name} : list string := [" + "; ".join(coq_string(x) for x in xs) + "]."


def render() -> str:
    h_rng, h_ex, core1, h_ns = _id_handler("handle_host_id", "host_ids", "HostIDError")
    m_rng, m_ex, core2, m_ns = _id_handler("handle_module_id", "module_ids", "ModuleIDError")
    if core1 != core2:
        raise TranslateError("host and module exemptions name different core files")
    msg_rng, maxmt = _msg_id()
    r_order, r_wide, r_regex = _reserve()
    order = _section_order()
    _skeleton_checks()
    tree = load("parser.py")
    out = ["(* GENERATED by vlib/translate/guards_defs.py from /repo/src/pyrtma/parser.py -- do not edit *)",
           "From Coq Require Import ZArith List String Bool.", "Import ListNotations.",
           "Open Scope string_scope.", "Open Scope bool_scope.", "",
           "(* handle_host_id: `if <out_of_range>: if <enforced>: raise RTMASyntaxError` *)",
           f"Definition host_id_out_of_range (value : Z) : bool := {h_rng}.",
           f"Definition host_id_range_enforced (is_core_file import_coredefs : bool) (value : Z) : bool := {h_ex}.",
           "(* handle_module_id *)",
           f"Definition module_id_out_of_range (value : Z) : bool := {m_rng}.",
           f"Definition module_id_range_enforced (is_core_file import_coredefs : bool) (value : Z) : bool := {m_ex}.",
           "(* is_core_file: the resolved path IS the core_defs.yaml shipped with the package (not: has that name) *)",
           f"Definition core_file_name : string := {coq_string(core1)}.",
           "(* validate_msg_id; MAX_MESSAGE_TYPES from core_defs.py *)",
           f"Definition max_message_types : Z := ({maxmt})%Z.",
           f"Definition msg_id_out_of_range (msg_id : Z) : bool := {msg_rng}.",
           "(* handle_reserve, entries written as ranges *)",
           f"Definition reserved_bad_order (start end_ : Z) : bool := {r_order}.",
           f"Definition reserved_too_wide (start end_ : Z) : bool := {r_wide}.",
           "(* namespaces each handler passes to check_duplicate_name *)"]
    for h in ("handle_expression", "handle_string", "handle_alias", "handle_struct", "handle_message_def"):
        out.append(_strlist("ns_" + h, _namespaces(find_func(tree, h, "Parser"))))
    out.append(_strlist("ns_handle_host_id", h_ns))
    out.append(_strlist("ns_handle_module_id", m_ns))
    out.append("(* add_fields: field names refused for every struct and message definition *)")
    out.append(_strlist("reserved_field_names", _reserved_field_names()))
    out.append("(* order in which parse_text walks the sections of one file *)")
    out.append(_strlist("section_order", order))
    return "\n".join(out) + "\n"


def reserved_regex() -> str:
    return _reserve()[2]
