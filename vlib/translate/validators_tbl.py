"""Regenerate coq/values/Gen/ValidatorTbl.v from /repo/src/pyrtma/validators.py.

Translated (fail closed, Python-ast):
  * per integer validator class (subclasses of IntValidatorBase, and Byte): _min, _max, _size, _unsigned
    (class-level constants, inherited from IntValidatorBase when a subclass omits one) and the ctypes type
    assigned to self._ctype in __init__;
  * Float / Double / Char / String: the ctypes type assigned to self._ctype (Char also self.len);
  * the range / length guards of validate_one / validate_many (the `if` tests that raise) as Gallina
    Z -> .. -> bool functions: guard = True means "raise".
Anything of an unexpected shape raises TranslateError (treated like a broken proof).
"""
from __future__ import annotations

import ast
from typing import Dict, List, Optional, Tuple

from .pyast import TranslateError, load, find_class, find_func, unique_if, const_int, dotted, ExprTr, names_in

# ctypes simple types -> (kind code, width).  kind: 0 signed int, 1 unsigned int, 2 float, 3 char
# (aliases share the pair exactly like the ctypes classes are shared on x86-64 Linux)
CTYPES = {
    "c_byte": (0, 1), "c_int8": (0, 1), "c_ubyte": (1, 1), "c_uint8": (1, 1),
    "c_short": (0, 2), "c_int16": (0, 2), "c_ushort": (1, 2), "c_uint16": (1, 2),
    "c_int": (0, 4), "c_int32": (0, 4), "c_uint": (1, 4), "c_uint32": (1, 4),
    "c_long": (0, 8), "c_longlong": (0, 8), "c_int64": (0, 8),
    "c_ulong": (1, 8), "c_ulonglong": (1, 8), "c_uint64": (1, 8),
    "c_float": (2, 4), "c_double": (2, 8), "c_char": (3, 1),
}

INT_CLASSES = ["Int8", "Int16", "Int32", "Int64", "Uint8", "Uint16", "Uint32", "Uint64"]
FLOAT_CLASSES = ["Float", "Double"]
ATTRS = ["_size", "_unsigned", "_min", "_max"]


def _bases(c: ast.ClassDef) -> List[str]:
    out = []
    for b in c.bases:
        if isinstance(b, ast.Subscript):
            b = b.value
        if isinstance(b, (ast.Name, ast.Attribute)):
            out.append(dotted(b))
    return out


def _class_consts(c: ast.ClassDef) -> Dict[str, ast.expr]:
    out: Dict[str, ast.expr] = {}
    for n in c.body:
        tgt, val = None, None
        if isinstance(n, ast.AnnAssign) and isinstance(n.target, ast.Name):
            tgt, val = n.target.id, n.value
        elif isinstance(n, ast.Assign) and len(n.targets) == 1 and isinstance(n.targets[0], ast.Name):
            tgt, val = n.targets[0].id, n.value
        if tgt in ATTRS:
            if tgt in out or val is None:
                raise TranslateError(f"{c.name}.{tgt}: duplicate or missing value")
            out[tgt] = val
    return out


def _const_bool(e: ast.expr) -> bool:
    if isinstance(e, ast.Constant) and isinstance(e.value, bool):
        return e.value
    raise TranslateError(f"not a bool constant: {ast.dump(e)}")


def _init_assigns(c: ast.ClassDef) -> Dict[str, ast.expr]:
    """self.<attr> = <expr> statements of __init__ (each attr at most once, straight-line only)."""
    inits = [n for n in c.body if isinstance(n, ast.FunctionDef) and n.name == "__init__"]
    if len(inits) != 1:
        raise TranslateError(f"{c.name}.__init__: found {len(inits)}")
    out: Dict[str, ast.expr] = {}
    for st in inits[0].body:
        if isinstance(st, ast.Expr) and isinstance(st.value, ast.Constant):
            continue  # docstring
        if isinstance(st, ast.Assert):
            continue
        tgt, val = None, None
        if isinstance(st, ast.AnnAssign):
            tgt, val = st.target, st.value
        elif isinstance(st, ast.Assign) and len(st.targets) == 1:
            tgt, val = st.targets[0], st.value
        else:
            raise TranslateError(f"{c.name}.__init__: unexpected statement {type(st).__name__}")
        if not (isinstance(tgt, ast.Attribute) and isinstance(tgt.value, ast.Name) and tgt.value.id == "self"):
            raise TranslateError(f"{c.name}.__init__: assignment target is not self.<attr>")
        if tgt.attr in out or val is None:
            raise TranslateError(f"{c.name}.__init__: {tgt.attr} assigned twice")
        out[tgt.attr] = val
    return out


def _ctype_of(e: ast.expr, what: str) -> Tuple[int, int]:
    d = dotted(e)
    if not d.startswith("ctypes."):
        raise TranslateError(f"{what}: _ctype is not ctypes.<name>: {d}")
    nm = d[len("ctypes."):]
    if nm not in CTYPES:
        raise TranslateError(f"{what}: unknown ctypes type {nm}")
    return CTYPES[nm]


class GuardTr(ExprTr):
    """ExprTr + int(x) (identity on ints), len/max/min of the parameter `value`."""

    def z(self, e: ast.AST) -> str:
        if isinstance(e, ast.Call) and isinstance(e.func, ast.Name) and len(e.args) == 1 and not e.keywords:
            f = e.func.id
            if f == "int":
                return self.z(e.args[0])
            if f in ("len", "max", "min") and isinstance(e.args[0], ast.Name) and e.args[0].id == "value":
                key = f"{f}(value)"
                if key in self.env:
                    return self.env[key]
            raise TranslateError(f"unsupported call in guard: {ast.dump(e)}")
        return super().z(e)


def _raising_if(func: ast.FunctionDef, mentions, exc: str) -> ast.If:
    node = unique_if(func, mentions)
    if node.orelse:
        raise TranslateError(f"{func.name}: guard {mentions} has an else branch")
    if not (len(node.body) == 1 and isinstance(node.body[0], ast.Raise) and isinstance(node.body[0].exc, ast.Call)
            and isinstance(node.body[0].exc.func, ast.Name) and node.body[0].exc.func.id == exc):
        raise TranslateError(f"{func.name}: guard {mentions} does not just raise {exc}")
    return node


def table():
    tree = load("validators.py")
    base = find_class(tree, "IntValidatorBase")
    base_c = _class_consts(base)
    if set(base_c) != set(ATTRS):
        raise TranslateError("IntValidatorBase: expected class constants " + ", ".join(ATTRS))
    # the set of integer validator classes must be exactly the known one
    found = [n.name for n in tree.body if isinstance(n, ast.ClassDef) and "IntValidatorBase" in _bases(n)]
    if sorted(found) != sorted(INT_CLASSES):
        raise TranslateError(f"subclasses of IntValidatorBase: {found}")
    found_f = [n.name for n in tree.body if isinstance(n, ast.ClassDef) and "FloatValidatorBase" in _bases(n)]
    if sorted(found_f) != sorted(FLOAT_CLASSES):
        raise TranslateError(f"subclasses of FloatValidatorBase: {found_f}")
    ints = []
    for nm in INT_CLASSES + ["Byte"]:
        c = find_class(tree, nm)
        cc = _class_consts(c)
        if nm == "Byte":
            if set(cc) != set(ATTRS):
                raise TranslateError("Byte: expected its own class constants")
            src = cc
        else:
            src = dict(base_c)
            src.update(cc)
        ia = _init_assigns(c)
        if set(ia) != {"_ctype"}:
            raise TranslateError(f"{nm}.__init__ assigns {sorted(ia)}")
        kind, width = _ctype_of(ia["_ctype"], nm)
        ints.append(dict(name=nm, min=const_int(src["_min"]), max=const_int(src["_max"]), size=const_int(src["_size"]),
                         unsigned=_const_bool(src["_unsigned"]), ckind=kind, cwidth=width))
    floats = []
    for nm in FLOAT_CLASSES:
        ia = _init_assigns(find_class(tree, nm))
        if set(ia) != {"_ctype"}:
            raise TranslateError(f"{nm}.__init__ assigns {sorted(ia)}")
        kind, width = _ctype_of(ia["_ctype"], nm)
        floats.append(dict(name=nm, ckind=kind, cwidth=width))
    ia = _init_assigns(find_class(tree, "Char"))
    if set(ia) != {"_ctype", "len"}:
        raise TranslateError(f"Char.__init__ assigns {sorted(ia)}")
    char = dict(ckind=_ctype_of(ia["_ctype"], "Char")[0], cwidth=_ctype_of(ia["_ctype"], "Char")[1], len=const_int(ia["len"]))
    ia = _init_assigns(find_class(tree, "String"))
    if set(ia) != {"_ctype", "len"}:
        raise TranslateError(f"String.__init__ assigns {sorted(ia)}")
    sc = ia["_ctype"]
    if not (isinstance(sc, ast.BinOp) and isinstance(sc.op, ast.Mult) and dotted(sc.left) == "ctypes.c_char"
            and isinstance(sc.right, ast.Name) and sc.right.id == "len"
            and isinstance(ia["len"], ast.Name) and ia["len"].id == "len"):
        raise TranslateError("String.__init__: expected self.len = len; self._ctype = ctypes.c_char * len")
    return dict(ints=ints, floats=floats, char=char)


def guards() -> Dict[str, Tuple[List[str], str]]:
    """name -> (parameter list, Gallina bool body); True = the code raises."""
    tree = load("validators.py")
    out: Dict[str, Tuple[List[str], str]] = {}
    env_rng = {"self._min": "vmin", "self._max": "vmax"}

    def tr(cls, fn, mentions, exc, env, params, name):
        node = _raising_if(find_func(tree, fn, cls), mentions, exc)
        out[name] = (params, GuardTr(env).b(node.test))

    tr("IntValidatorBase", "validate_one", ["_min", "_max"], "ValueError",
       dict(env_rng, value="v"), ["vmin", "vmax", "v"], "guard_int_one")
    tr("IntValidatorBase", "validate_many", ["_min", "_max"], "ValueError",
       dict(env_rng, **{"max(value)": "mx", "min(value)": "mn"}), ["vmin", "vmax", "mx", "mn"], "guard_int_many")
    tr("Byte", "validate_one", ["_min", "_max"], "ValueError",
       dict(env_rng, value="v"), ["vmin", "vmax", "v"], "guard_byte_one")
    tr("Byte", "validate_one", ["len"], "ValueError", {"len(value)": "l"}, ["l"], "guard_byte_len")
    tr("Byte", "validate_many", ["_min", "_max"], "ValueError",
       dict(env_rng, **{"max(value)": "mx", "min(value)": "mn"}), ["vmin", "vmax", "mx", "mn"], "guard_byte_many")
    tr("String", "validate_one", ["len"], "ValueError", {"len(value)": "l", "self.len": "slen"}, ["slen", "l"],
       "guard_string_len")
    tr("Char", "validate_one", ["len"], "ValueError", {"len(value)": "l", "self.len": "slen"}, ["slen", "l"],
       "guard_char_len")
    return out


def _z(n: int) -> str:
    return f"({n})" if n < 0 else str(n)


def render() -> str:
    t = table()
    g = guards()
    L = ["(* GENERATED by vlib/translate/validators_tbl.py from /repo/src/pyrtma/validators.py - do not edit *)",
         "From Coq Require Import ZArith List Bool String.",
         "Import ListNotations.",
         "Open Scope Z_scope.",
         "",
         "(* integer validator: _min, _max, _size, _unsigned; ctypes type of self._ctype as (kind, width):",
         "   kind 0 signed int, 1 unsigned int, 2 float, 3 char *)",
         "Record irec := mkIrec { v_min : Z; v_max : Z; v_size : Z; v_unsigned : bool; c_kind : Z; c_width : Z }.",
         ""]
    for r in t["ints"]:
        L.append(f"Definition v_{r['name']} : irec := mkIrec {_z(r['min'])} {_z(r['max'])} {_z(r['size'])} "
                 f"{'true' if r['unsigned'] else 'false'} {r['ckind']} {r['cwidth']}.")
    L.append("")
    L.append("Definition int_validators : list (string * irec) := [")
    L.append(";\n".join(f'  ("{r["name"]}"%string, v_{r["name"]})' for r in t["ints"] if r["name"] != "Byte"))
    L.append("].")
    L.append("")
    L.append("(* float validators: ctypes type as (kind, width) *)")
    for r in t["floats"]:
        L.append(f"Definition v_{r['name']} : Z * Z := ({r['ckind']}, {r['cwidth']}).")
    L.append("Definition float_validators : list (string * (Z * Z)) := [" +
             "; ".join(f'("{r["name"]}"%string, v_{r["name"]})' for r in t["floats"]) + "].")
    L.append("")
    c = t["char"]
    L.append(f"Definition char_ctype : Z * Z := ({c['ckind']}, {c['cwidth']}).")
    L.append(f"Definition char_len : Z := {c['len']}.")
    L.append("")
    L.append("(* guards: true = the validator raises *)")
    for name in ["guard_int_one", "guard_int_many", "guard_byte_one", "guard_byte_len", "guard_byte_many",
                 "guard_string_len", "guard_char_len"]:
        params, body = g[name]
        L.append(f"Definition {name} ({' '.join(params)} : Z) : bool := {body}.")
    return "\n".join(L) + "\n"


def render_codec() -> str:
    """Gen/CodecGuards.v: the version check of Message.from_json (message.py) as a Gallina bool (True = raise).

    Fail closed unless from_json is exactly the straight-line skeleton the model follows:
    header decoded, class looked up, the version guard as the ONLY branch (no return / raise / branch before it),
    the data decoded only after it."""
    tree = load("message.py")
    fn = find_func(tree, "from_json", "Message")
    body = [st for st in fn.body if not (isinstance(st, ast.Expr) and isinstance(st.value, ast.Constant))]
    expected = {0: "d = json.loads(s)", 1: "hdr_cls = get_header_cls()", 2: "hdr = hdr_cls.from_dict(d['header'])",
                3: "msg_cls = get_msg_cls(hdr.msg_type)", 5: "msg_data = msg_cls.from_dict(d['data'])",
                6: "obj = cls(hdr, msg_data)", 7: "return obj"}
    if len(body) != 8:
        raise TranslateError(f"Message.from_json: expected 8 statements, found {len(body)}")
    for i, text in expected.items():
        got = ast.unparse(body[i])
        if got != text:
            raise TranslateError(f"Message.from_json statement {i}: expected `{text}`, found `{got}`")
    node = body[4]
    if not isinstance(node, ast.If) or node.orelse or not (
            len(node.body) == 1 and isinstance(node.body[0], ast.Raise) and isinstance(node.body[0].exc, ast.Call)
            and isinstance(node.body[0].exc.func, ast.Name) and node.body[0].exc.func.id == "InvalidMessageDefinition"):
        raise TranslateError("Message.from_json: statement 4 is not `if <guard>: raise InvalidMessageDefinition(...)`")
    if not {"version", "type_hash"} <= names_in(node.test):
        raise TranslateError("Message.from_json: the guard does not mention version and type_hash")
    guard = ExprTr({"hdr.version": "version", "msg_cls.type_hash": "type_hash"}).b(node.test)
    return ("(* GENERATED by vlib/translate/validators_tbl.py from /repo/src/pyrtma/message.py - do not edit *)\n"
            "From Coq Require Import ZArith Bool.\nOpen Scope Z_scope.\n"
            "(* true = Message.from_json raises InvalidMessageDefinition; it is the only branch of from_json and sits\n"
            "   between the class lookup and the decoding of the data segment *)\n"
            f"Definition guard_version (version type_hash : Z) : bool := {guard}.\n")
