"""Gen/EmitGuards.v: how Parser.add_fields turns the evaluated array-length expression into Field.length, and
what expand_expression / handle_expression keep as the value of a constant (statement-shape checks, fail closed).

Model/Emit.v relies on exactly these facts:
  * expand_expression returns `eval(expr)` unconverted (int or float) and handle_expression stores that value:
    a constant written with a true division is a float (`HALF: WINDOW / 2` -> 8.0);
  * add_fields rejects `int(flen) < MIN` with RTMASyntaxError and stores `length=int(flen)`:
    the length of a field is the integer int() truncates the evaluated expression to.
"""
from __future__ import annotations

import ast

from .pyast import TranslateError, const_int, find_func, load


def _u(n: ast.AST) -> str:
    return ast.unparse(n)


def _raises(body, where: str) -> str:
    rs = [s for s in body if isinstance(s, ast.Raise)]
    if len(body) != 1 or len(rs) != 1 or not isinstance(rs[0].exc, ast.Call):
        raise TranslateError(f"{where}: expected a single raise, found: " + " ; ".join(_u(s) for s in body)[:200])
    return _u(rs[0].exc.func)


def length_facts():
    """-> (minimum accepted length, name of the evaluated-length variable)"""
    tree = load("parser.py")
    fn = find_func(tree, "add_fields", "Parser")
    blocks = [n for n in ast.walk(fn) if isinstance(n, ast.If) and _u(n.test) == "len_str"]
    if len(blocks) != 1:
        raise TranslateError(f"add_fields: {len(blocks)} `if len_str:` blocks")
    blk = blocks[0]
    if len(blk.body) != 3:
        raise TranslateError("add_fields: `if len_str:` block is not [evaluate, range test, build Field]: "
                             + " ; ".join(_u(s)[:60] for s in blk.body))
    ev, test, mk = blk.body
    # (expanded, flen) = self.expand_expression(..., len_str)
    if not (isinstance(ev, ast.Assign) and len(ev.targets) == 1 and isinstance(ev.targets[0], ast.Tuple)
            and len(ev.targets[0].elts) == 2 and all(isinstance(e, ast.Name) for e in ev.targets[0].elts)
            and isinstance(ev.value, ast.Call) and _u(ev.value.func) == "self.expand_expression"
            and len(ev.value.args) == 2 and _u(ev.value.args[1]) == "len_str"):
        raise TranslateError("add_fields: the length is not evaluated by `x, v = self.expand_expression(name, len_str)`: " + _u(ev)[:160])
    var = ev.targets[0].elts[1].id
    # if int(v) < MIN: raise RTMASyntaxError(...)
    if not (isinstance(test, ast.If) and not test.orelse and isinstance(test.test, ast.Compare) and len(test.test.ops) == 1
            and isinstance(test.test.ops[0], ast.Lt) and _u(test.test.left) == f"int({var})"):
        raise TranslateError(f"add_fields: range test is not `if int({var}) < N:` (the evaluated length must be converted "
                             f"with int() before it is compared): " + _u(test.test if isinstance(test, ast.If) else test)[:160])
    lo = const_int(test.test.comparators[0])
    if _raises(test.body, "add_fields length test") != "RTMASyntaxError":
        raise TranslateError("add_fields: a length below the minimum no longer raises RTMASyntaxError")
    # new_field = Field(..., length=int(v))
    if not (isinstance(mk, ast.Assign) and isinstance(mk.value, ast.Call) and _u(mk.value.func) == "Field"):
        raise TranslateError("add_fields: the array field is not built by `Field(...)`: " + _u(mk)[:160])
    kw = {k.arg: _u(k.value) for k in mk.value.keywords}
    if kw.get("length") != f"int({var})":
        raise TranslateError(f"add_fields: Field(length=...) is {kw.get('length')!r}, expected int({var}): the stored length "
                             "must be the int() of the evaluated expression")
    # the else branch builds a scalar field (no length)
    if len(blk.orelse) != 1 or not (isinstance(blk.orelse[0], ast.Assign) and isinstance(blk.orelse[0].value, ast.Call)
                                    and "length" not in {k.arg for k in blk.orelse[0].value.keywords}):
        raise TranslateError("add_fields: scalar branch changed")
    return lo, var


def constant_value_facts():
    """expand_expression returns eval(expr) as it is; handle_expression stores it as ConstantExpr.value"""
    tree = load("parser.py")
    fn = find_func(tree, "expand_expression", "Parser")
    # value = eval(expr), guarded only against a division by zero (turned into ExpressionExpansionError), returned as it is
    ev = fn.body[-2] if len(fn.body) >= 2 else None
    ok_eval = ev is not None and (
        _u(ev) == "value = eval(expr)" or
        (isinstance(ev, ast.Try) and len(ev.body) == 1 and _u(ev.body[0]) == "value = eval(expr)" and not ev.orelse
         and not ev.finalbody and len(ev.handlers) == 1 and _u(ev.handlers[0].type) == "ZeroDivisionError"
         and _raises(ev.handlers[0].body, "expand_expression: ZeroDivisionError handler") == "ExpressionExpansionError"))
    if not ok_eval or _u(fn.body[-1]) != "return (expanded, value)":
        raise TranslateError("expand_expression: does not end with `value = eval(expr)` (optionally inside "
                             "try/except ZeroDivisionError -> ExpressionExpansionError) / `return expanded, value`: "
                             + " ; ".join(_u(s) for s in fn.body[-2:])[:200])
    subs = [n for n in ast.walk(fn) if isinstance(n, ast.Call) and _u(n.func) == "re.sub"]
    if len(subs) != 1 or _u(subs[0].args[1]) != "str(c.value)":
        raise TranslateError("expand_expression: constants are no longer substituted as str(c.value)")
    fn = find_func(tree, "handle_expression", "Parser")
    calls = [n for n in ast.walk(fn) if isinstance(n, ast.Call) and _u(n.func) == "ConstantExpr"]
    vals = sorted({k.arg: _u(k.value) for k in c.keywords}.get("value", "?") for c in calls)
    if vals != ["expression", "value"]:
        raise TranslateError(f"handle_expression: ConstantExpr(value=...) is {vals}, expected the YAML number or the evaluated value unconverted")
    asg = [n for n in ast.walk(fn) if isinstance(n, ast.Assign) and isinstance(n.value, ast.Call)
           and _u(n.value.func) == "self.expand_expression"]
    if len(asg) != 1 or _u(asg[0].targets[0]) != "(expanded, value)":
        raise TranslateError("handle_expression: `expanded, value = self.expand_expression(name, expression)` changed")
    return True


def render() -> str:
    lo, var = length_facts()
    constant_value_facts()
    return "\n".join([
        "(* GENERATED by vlib/translate/emit_guards.py from src/pyrtma/parser.py - do not edit *)",
        "From Coq Require Import ZArith.",
        "Open Scope Z_scope.",
        f"(* Parser.add_fields: `if int({var}) < {lo}: raise RTMASyntaxError` and `Field(..., length=int({var}))`:",
        "   the length of an array field is int() of the evaluated length expression (truncation toward zero), and",
        "   lengths below this minimum are rejected *)",
        f"Definition add_fields_length_min : Z := {lo}.",
        "(* Parser.expand_expression returns eval(expr) unconverted and handle_expression stores it: a constant keeps the",
        "   Python type of its expression (int, or float as soon as a true division or a float takes part) *)",
        "Definition constants_keep_float : bool := true.",
        ""])
