"""Fail-closed translation of the option plumbing of the client's connection entry points.

Client.connect(server_name, logger_status, daemon_status, allow_multiple) and the module-level
client_context(...) pass their options down to Client._connect_helper, which writes them into the fields of
MDF_CONNECT_V2 / MDF_CONNECT.  Which option reaches which field is decided by how each call binds its
arguments (positionally or by keyword) to the callee's parameters.  This module follows those bindings
symbolically and renders the result as Gallina: Gen/ClientConnect.v (manager family).

Accepted shapes only; anything else raises TranslateError.
"""
from __future__ import annotations

import ast
from typing import Dict, List, Optional

from .pyast import TranslateError, find_func, load

SYM = str   # a Gallina term over the entry point's option variables


def _const(e: ast.expr) -> SYM:
    if isinstance(e, ast.Constant):
        if e.value is True:
            return "true"
        if e.value is False:
            return "false"
        if isinstance(e.value, int):
            return f"({e.value})%Z"
        if isinstance(e.value, str):
            return "STR"           # strings are not followed (names: checked by the probe only)
        if e.value is None:
            return "NONE"
    raise TranslateError(f"unsupported default/constant {ast.dump(e)}")


def bind_call(fn: ast.FunctionDef, call: ast.Call, ev, method: bool) -> Dict[str, SYM]:
    """parameter name -> symbolic argument, exactly as Python binds them"""
    a = fn.args
    if a.vararg or a.kwarg or a.posonlyargs or a.kwonlyargs:
        raise TranslateError(f"{fn.name}: signature uses */** or positional-only/keyword-only parameters")
    params = [p.arg for p in a.args]
    if method:
        if not params or params[0] != "self":
            raise TranslateError(f"{fn.name}: expected a method")
        params = params[1:]
    defaults = dict(zip(params[len(params) - len(a.defaults):], a.defaults))
    if any(isinstance(x, ast.Starred) for x in call.args) or any(k.arg is None for k in call.keywords):
        raise TranslateError(f"call of {fn.name}: uses * or **")
    if len(call.args) > len(params):
        raise TranslateError(f"call of {fn.name}: too many positional arguments")
    out: Dict[str, SYM] = {}
    for p, e in zip(params, call.args):
        out[p] = ev(e)
    for k in call.keywords:
        if k.arg not in params:
            raise TranslateError(f"call of {fn.name}: unknown keyword {k.arg}")
        if k.arg in out:
            raise TranslateError(f"call of {fn.name}: {k.arg} given twice")
        out[k.arg] = ev(k.value)
    for p in params:
        if p not in out:
            if p not in defaults:
                raise TranslateError(f"call of {fn.name}: parameter {p} not supplied")
            out[p] = _const(defaults[p])
    return out


def _calls(fn: ast.FunctionDef, pred) -> List[ast.Call]:
    return [n for n in ast.walk(fn) if isinstance(n, ast.Call) and pred(n)]


def _one(l, what):
    if len(l) != 1:
        raise TranslateError(f"{what}: found {len(l)}")
    return l[0]


def helper_fields(helper: ast.FunctionDef, env: Dict[str, SYM], module_id: SYM) -> Dict[str, SYM]:
    """msg / msg2 field := term, from the assignments of _connect_helper"""
    # which local is the CONNECT and which the CONNECT_V2 structure
    kinds: Dict[str, str] = {}
    for st in helper.body:
        if isinstance(st, ast.Assign) and len(st.targets) == 1 and isinstance(st.targets[0], ast.Name) \
                and isinstance(st.value, ast.Call) and isinstance(st.value.func, ast.Attribute) \
                and st.value.func.attr in ("MDF_CONNECT", "MDF_CONNECT_V2") and not st.value.args:
            kinds[st.targets[0].id] = "v1" if st.value.func.attr == "MDF_CONNECT" else "v2"
    if sorted(kinds.values()) != ["v1", "v2"]:
        raise TranslateError(f"_connect_helper: expected one MDF_CONNECT and one MDF_CONNECT_V2 local, found {kinds}")
    # the dynamic-id reset must be the statement form `if self._dynamic_id: self._module_id = 0`
    resets = [st for st in helper.body if isinstance(st, ast.If) and isinstance(st.test, ast.Attribute)
              and st.test.attr == "_dynamic_id"]
    ok_reset = (len(resets) == 1 and isinstance(resets[0].test, ast.Attribute) and resets[0].test.attr == "_dynamic_id"
                and len(resets[0].body) == 1 and not resets[0].orelse and isinstance(resets[0].body[0], ast.Assign)
                and isinstance(resets[0].body[0].targets[0], ast.Attribute) and resets[0].body[0].targets[0].attr == "_module_id"
                and isinstance(resets[0].body[0].value, ast.Constant) and resets[0].body[0].value.value == 0)
    if not ok_reset:
        raise TranslateError("_connect_helper: dynamic-id reset has unexpected shape")

    def ev(e: ast.expr) -> SYM:
        if isinstance(e, ast.Call) and isinstance(e.func, ast.Name) and e.func.id == "int" and len(e.args) == 1 \
                and isinstance(e.args[0], ast.Name):
            if e.args[0].id not in env:
                raise TranslateError(f"_connect_helper: int({e.args[0].id}) is not a parameter")
            return f"(b2z {env[e.args[0].id]})"
        if isinstance(e, ast.Attribute) and isinstance(e.value, ast.Name) and e.value.id == "self" and e.attr == "module_id":
            return f"(if ({module_id} =? 0)%Z then 0%Z else {module_id})"      # _dynamic_id := module_id == 0
        if isinstance(e, ast.Attribute) and isinstance(e.value, ast.Name) and e.value.id == "self" and e.attr == "name":
            return "NAME"
        if isinstance(e, ast.Call) and isinstance(e.func, ast.Attribute) and e.func.attr == "getpid":
            return "PID"
        raise TranslateError(f"_connect_helper: unsupported field value {ast.unparse(e)}")

    out: Dict[str, SYM] = {}
    for st in helper.body:
        if isinstance(st, ast.Assign) and len(st.targets) == 1 and isinstance(st.targets[0], ast.Attribute) \
                and isinstance(st.targets[0].value, ast.Name) and st.targets[0].value.id in kinds:
            key = kinds[st.targets[0].value.id] + "_" + st.targets[0].attr
            if key in out:
                raise TranslateError(f"_connect_helper: {key} assigned twice")
            out[key] = ev(st.value)
    want = {"v1_logger_status", "v1_daemon_status", "v2_logger_status", "v2_daemon_status", "v2_allow_multiple",
            "v2_pid", "v2_mod_id", "v2_name"}
    if set(out) != want:
        raise TranslateError(f"_connect_helper: fields written {sorted(out)} != {sorted(want)}")
    # both structures must actually be sent
    sent = [n.args[0].id for n in _calls(helper, lambda c: isinstance(c.func, ast.Attribute) and c.func.attr == "send_message")
            if n.args and isinstance(n.args[0], ast.Name)]
    if sorted(kinds[x] for x in sent if x in kinds) != ["v1", "v2"]:
        raise TranslateError(f"_connect_helper: send_message calls {sent}")
    return out


def render() -> str:
    tree = load("client.py")
    init = find_func(tree, "__init__", "Client")
    connect = find_func(tree, "connect", "Client")
    helper = find_func(tree, "_connect_helper", "Client")
    ctx = find_func(tree, "client_context")

    # Client.__init__: self._module_id = module_id ; self._dynamic_id = module_id == 0
    def init_module_id(args: Dict[str, SYM]) -> SYM:
        hits = [st for st in init.body if isinstance(st, ast.Assign) and isinstance(st.targets[0], ast.Attribute)
                and st.targets[0].attr == "_module_id"]
        st = _one(hits, "Client.__init__: assignment of _module_id")
        if not (isinstance(st.value, ast.Name) and st.value.id in args):
            raise TranslateError("Client.__init__: _module_id is not a parameter")
        dyn = [s for s in ast.walk(init) if isinstance(s, (ast.Assign, ast.AnnAssign))
               and isinstance((s.targets[0] if isinstance(s, ast.Assign) else s.target), ast.Attribute)
               and (s.targets[0] if isinstance(s, ast.Assign) else s.target).attr == "_dynamic_id"]
        d = _one(dyn, "Client.__init__: assignment of _dynamic_id")
        v = d.value
        if not (isinstance(v, ast.Compare) and isinstance(v.left, ast.Name) and v.left.id == st.value.id
                and len(v.ops) == 1 and isinstance(v.ops[0], ast.Eq) and isinstance(v.comparators[0], ast.Constant)
                and v.comparators[0].value == 0):
            raise TranslateError("Client.__init__: _dynamic_id is not `module_id == 0`")
        return args[st.value.id]

    # Client.connect: the single call of _connect_helper
    def via_connect(cargs: Dict[str, SYM], module_id: SYM) -> Dict[str, SYM]:
        call = _one(_calls(connect, lambda c: isinstance(c.func, ast.Attribute) and c.func.attr == "_connect_helper"),
                    "Client.connect: call of _connect_helper")

        def ev(e):
            if isinstance(e, ast.Name) and e.id in cargs:
                return cargs[e.id]
            return _const(e)
        return helper_fields(helper, bind_call(helper, call, ev, True), module_id)

    # entry point 1: Client(module_id).connect(server, logger_status, daemon_status, allow_multiple)
    sym = dict(server_name="SRV", logger_status="lg", daemon_status="dm", allow_multiple="am")
    f1 = via_connect(sym, "mid")

    # entry point 2: client_context(module_id, ..., logger_status, allow_multiple, name)
    cvars = {p.arg: p.arg for p in ctx.args.args}
    rename = dict(module_id="mid", logger_status="lg", allow_multiple="am")

    def cev(e):
        if isinstance(e, ast.Name) and e.id in cvars:
            return rename.get(e.id, "OTHER")
        return _const(e)
    ccall = _one(_calls(ctx, lambda c: isinstance(c.func, ast.Name) and c.func.id == "Client"), "client_context: Client(...)")
    iargs = bind_call(init, ccall, cev, True)
    mid2 = init_module_id(iargs)
    conn_call = _one(_calls(ctx, lambda c: isinstance(c.func, ast.Attribute) and c.func.attr == "connect"),
                     "client_context: .connect(...)")
    f2 = via_connect(bind_call(connect, conn_call, cev, True), mid2)

    def rec(f: Dict[str, SYM]) -> str:
        for k in ("v1_logger_status", "v1_daemon_status", "v2_logger_status", "v2_daemon_status", "v2_allow_multiple", "v2_mod_id"):
            if any(tok in f[k] for tok in ("STR", "NONE", "OTHER", "SRV", "NAME", "PID")):
                raise TranslateError(f"field {k} receives a non-option value: {f[k]}")
        return ("{| v2_logger := %s; v2_daemon := %s; v2_allow_multiple := %s; v2_mod_id := %s; v1_logger := %s; v1_daemon := %s |}"
                % (f["v2_logger_status"], f["v2_daemon_status"], f["v2_allow_multiple"], f["v2_mod_id"],
                   f["v1_logger_status"], f["v1_daemon_status"]))

    return f"""(* GENERATED by vlib/translate/client_connect.py from /repo/src/pyrtma/client.py - do not edit.
   Which option of Client.connect / client_context reaches which field of CONNECT_V2 / CONNECT, following the
   argument bindings of client_context -> Client(...) / .connect(...) -> _connect_helper(...). *)
From Coq Require Import ZArith Bool.
Open Scope Z_scope.
Definition b2z (b : bool) : Z := if b then 1 else 0.
Record cfields := {{ v2_logger : Z; v2_daemon : Z; v2_allow_multiple : Z; v2_mod_id : Z; v1_logger : Z; v1_daemon : Z }}.
(* Client(module_id=mid).connect(server, logger_status=lg, daemon_status=dm, allow_multiple=am) *)
Definition connect_fields (mid : Z) (lg dm am : bool) : cfields :=
  {rec(f1)}.
(* client_context(module_id=mid, logger_status=lg, allow_multiple=am, ...) - it has no daemon option *)
Definition context_fields (mid : Z) (lg am : bool) : cfields :=
  {rec(f2)}.
"""


if __name__ == "__main__":
    print(render())
