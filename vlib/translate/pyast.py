"""Fail-closed helpers: locate things in /repo's Python sources structurally and
render a small expression subset as Gallina over Z / bool.

Anything outside the accepted grammar raises TranslateError; callers treat that
exactly like a broken proof obligation.
"""
from __future__ import annotations

import ast
from pathlib import Path
from typing import Callable, Dict, List, Optional, Sequence, Set, Tuple

from ..framework import SRC


class TranslateError(Exception):
    pass


def load(relpath: str) -> ast.Module:
    p = SRC / "pyrtma" / relpath
    try:
        return ast.parse(p.read_text(), filename=str(p))
    except (OSError, SyntaxError) as e:
        raise TranslateError(f"cannot parse {p}: {e}")


def find_func(tree: ast.AST, name: str, cls: Optional[str] = None) -> ast.FunctionDef:
    scope: ast.AST = tree
    if cls is not None:
        cands = [n for n in ast.walk(tree) if isinstance(n, ast.ClassDef) and n.name == cls]
        if len(cands) != 1:
            raise TranslateError(f"class {cls}: found {len(cands)}")
        scope = cands[0]
    fs = [n for n in ast.walk(scope) if isinstance(n, ast.FunctionDef) and n.name == name]
    if len(fs) != 1:
        raise TranslateError(f"function {cls + '.' if cls else ''}{name}: found {len(fs)}")
    return fs[0]


def find_class(tree: ast.AST, name: str) -> ast.ClassDef:
    cands = [n for n in ast.walk(tree) if isinstance(n, ast.ClassDef) and n.name == name]
    if len(cands) != 1:
        raise TranslateError(f"class {name}: found {len(cands)}")
    return cands[0]


def module_assign(tree: ast.Module, name: str) -> ast.expr:
    hits = []
    for n in tree.body:
        if isinstance(n, ast.Assign) and len(n.targets) == 1 and isinstance(n.targets[0], ast.Name) \
                and n.targets[0].id == name:
            hits.append(n.value)
        if isinstance(n, ast.AnnAssign) and isinstance(n.target, ast.Name) and n.target.id == name and n.value:
            hits.append(n.value)
    if len(hits) != 1:
        raise TranslateError(f"module-level assignment {name}: found {len(hits)}")
    return hits[0]


def names_in(e: ast.AST) -> Set[str]:
    out = set()
    for n in ast.walk(e):
        if isinstance(n, ast.Name):
            out.add(n.id)
        elif isinstance(n, ast.Attribute):
            out.add(n.attr)
    return out


def dotted(e: ast.AST) -> str:
    if isinstance(e, ast.Name):
        return e.id
    if isinstance(e, ast.Attribute):
        return dotted(e.value) + "." + e.attr
    raise TranslateError(f"not a dotted name: {ast.dump(e)}")


def unique_if(func: ast.FunctionDef, mentions: Sequence[str]) -> ast.If:
    """The unique `if` in func whose test mentions all the given names/attrs."""
    hits = [n for n in ast.walk(func) if isinstance(n, ast.If) and set(mentions) <= names_in(n.test)]
    if len(hits) != 1:
        raise TranslateError(f"{func.name}: {len(hits)} ifs mention {list(mentions)}")
    return hits[0]


def const_int(e: ast.AST) -> int:
    """Integer constant expressions: literals, unary minus, + - * ** of such."""
    if isinstance(e, ast.Constant) and isinstance(e.value, int) and not isinstance(e.value, bool):
        return e.value
    if isinstance(e, ast.UnaryOp) and isinstance(e.op, ast.USub):
        return -const_int(e.operand)
    if isinstance(e, ast.BinOp):
        a, b = const_int(e.left), const_int(e.right)
        if isinstance(e.op, ast.Add):
            return a + b
        if isinstance(e.op, ast.Sub):
            return a - b
        if isinstance(e.op, ast.Mult):
            return a * b
        if isinstance(e.op, ast.Pow) and 0 <= b <= 80:
            return a ** b
    raise TranslateError(f"not an integer constant: {ast.dump(e)}")


class ExprTr:
    """Python int/bool expression -> Gallina (Z / bool).

    env maps dotted Python names to Coq terms of type Z (or, for names listed
    in boolnames, bool).
    """

    def __init__(self, env: Dict[str, str], boolnames: Sequence[str] = ()):
        self.env = env
        self.boolnames = set(boolnames)

    def z(self, e: ast.AST) -> str:
        if isinstance(e, ast.Constant) and isinstance(e.value, int) and not isinstance(e.value, bool):
            return f"({e.value})%Z"
        if isinstance(e, (ast.Name, ast.Attribute)):
            d = dotted(e)
            if d in self.env and d not in self.boolnames:
                return self.env[d]
            raise TranslateError(f"unknown integer name {d}")
        if isinstance(e, ast.UnaryOp) and isinstance(e.op, ast.USub):
            return f"(- {self.z(e.operand)})%Z"
        if isinstance(e, ast.BinOp):
            ops = {ast.Add: "+", ast.Sub: "-", ast.Mult: "*", ast.Mod: "mod", ast.FloorDiv: "/"}
            for k, v in ops.items():
                if isinstance(e.op, k):
                    return f"({self.z(e.left)} {v} {self.z(e.right)})%Z"
        raise TranslateError(f"unsupported integer expression {ast.dump(e)}")

    def b(self, e: ast.AST) -> str:
        if isinstance(e, ast.Constant) and isinstance(e.value, bool):
            return "true" if e.value else "false"
        if isinstance(e, (ast.Name, ast.Attribute)):
            d = dotted(e)
            if d in self.boolnames and d in self.env:
                return self.env[d]
            raise TranslateError(f"unknown boolean name {d}")
        if isinstance(e, ast.BoolOp):
            op = "||" if isinstance(e.op, ast.Or) else "&&"
            return "(" + f" {op} ".join(self.b(v) for v in e.values) + ")"
        if isinstance(e, ast.UnaryOp) and isinstance(e.op, ast.Not):
            return f"(negb {self.b(e.operand)})"
        if isinstance(e, ast.Compare):
            parts = []
            left = e.left
            for op, right in zip(e.ops, e.comparators):
                l, r = self.z(left), self.z(right)
                if isinstance(op, ast.Lt):
                    parts.append(f"({l} <? {r})%Z")
                elif isinstance(op, ast.LtE):
                    parts.append(f"({l} <=? {r})%Z")
                elif isinstance(op, ast.Gt):
                    parts.append(f"({r} <? {l})%Z")
                elif isinstance(op, ast.GtE):
                    parts.append(f"({r} <=? {l})%Z")
                elif isinstance(op, ast.Eq):
                    parts.append(f"({l} =? {r})%Z")
                elif isinstance(op, ast.NotEq):
                    parts.append(f"(negb ({l} =? {r})%Z)")
                else:
                    raise TranslateError(f"unsupported comparison {ast.dump(op)}")
                left = right
            return "(" + " && ".join(parts) + ")"
        raise TranslateError(f"unsupported boolean expression {ast.dump(e)}")


def coq_string(s: str) -> str:
    if any(ord(c) > 126 or ord(c) < 32 for c in s) or '"' in s:
        raise TranslateError(f"string not representable: {s!r}")
    return '"' + s + '"'
