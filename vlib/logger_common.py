"""Shared helpers of the logger family (C17): running the real code (logger_worker.py), schedule exploration,
the spec oracle on real files, and Coq term rendering for Model/Logger.v."""
from __future__ import annotations

import json
import subprocess
from concurrent.futures import ThreadPoolExecutor
from typing import Dict, List, Optional, Tuple

from .framework import VERIF, PY, NCPU, impl_env, CoqFamily

FAM = CoqFamily("logger", "Logr")
ALL_TYPES = 2147483647
FMT_COQ = {"raw": "FRaw", "json": "FJson", "quicklogger": "FQL"}


def run_impl(cases: List[dict], nproc: int = NCPU, timeout: int = 1800, src: Optional[str] = None) -> List[dict]:
    """Run the real DataCollection on the cases (subprocess workers, results in order).
    src: alternative source root (a patched copy of /repo/src) instead of the working tree."""
    if not cases:
        return []
    nproc = max(1, min(nproc, (len(cases) + 7) // 8))
    chunks = [cases[i::nproc] for i in range(nproc)]

    def work(ch):
        p = subprocess.run([PY, str(VERIF / "vlib" / "logger_worker.py")], input=json.dumps(ch),
                           capture_output=True, text=True,
                           env=impl_env(dict(PYTHONPATH=src) if src else None), timeout=timeout, cwd="/")
        if p.returncode != 0:
            raise RuntimeError("logger_worker failed: " + p.stderr[-1500:])
        return json.loads(p.stdout)

    with ThreadPoolExecutor(nproc) as ex:
        rs = list(ex.map(work, chunks))
    out: List[Optional[dict]] = [None] * len(cases)
    for k, r in enumerate(rs):
        for j, x in enumerate(r):
            out[k + j * nproc] = x
    return out  # type: ignore


def explore(base_case: dict, budget: int, max_depth: int = 10 ** 9, src: Optional[str] = None) -> Tuple[List[dict], List[dict], bool]:
    """Stateless exhaustive exploration of the schedules of one recorder program on the REAL code.

    Runs the case with a schedule prefix, reads back the executed trace and the decision indices at which
    both threads were enabled, and branches on each such index beyond the prefix.  Returns
    (cases, results, complete)."""
    cases: List[dict] = []
    results: List[dict] = []
    frontier: List[List[int]] = [[]]
    complete = True
    while frontier:
        if len(cases) >= budget:
            complete = False
            break
        batch = frontier[:max(1, min(len(frontier), budget - len(cases), 256))]
        frontier = frontier[len(batch):]
        bc = [dict(base_case, sched=p) for p in batch]
        rs = run_impl(bc, src=src)
        for p, c, r in zip(batch, bc, rs):
            c = dict(c, sched=r["trace"])     # the full executed trace IS the schedule
            cases.append(c)
            results.append(r)
            for i in r["both"]:
                if i >= len(p) and i < max_depth:
                    frontier.append(r["trace"][:i] + [1 - r["trace"][i]])
    return cases, results, complete


# ---- spec oracle, evaluated on what the real code wrote (independent of the Coq model) -------------------

def selected(ds: dict, mtype: int) -> bool:
    return (ALL_TYPES in ds["types"]) or (mtype in [t for t in ds["types"] if t > 0])


def oracle(case: dict, res: dict) -> Optional[Tuple[str, str]]:
    """None if the run satisfies C17, else (class, description)."""
    if res.get("crash"):
        c = res["crash"]
        who = {0: "recorder", 1: "writer"}.get(c["tid"], "harness")
        return ("exception-" + who, f"{c['exc']}: {c['msg']}")
    if res.get("deadlock"):
        return ("deadlock", "no thread enabled before the program finished")
    for ds in case["datasets"]:
        want = [(s, i) for s, i, t in res["arrivals"] if selected(ds, t)]
        got = []
        for f in res["files"].get(ds["name"], []):
            if f.get("err"):
                return ("unreadable", f"{ds['name']} s{f['session']} sub{f['sub']}: {f['err']}")
            if not f["content_ok"]:
                return ("content", f"{ds['name']} s{f['session']} sub{f['sub']}: a message read back differs from the one handed in")
            if ds["fmt"] == "quicklogger" and not f.get("ql_size_ok", True):
                return ("ql-total-bytes", f"{ds['name']}: total_bytes in the file header differs from the file size")
            got += [(f["session"], i) for i in f["ids"]]
        if got != want:
            sw, sg = set(want), set(got)
            if len(got) != len(set(got)):
                kind = "duplicate"
            elif sw - sg:
                kind = "loss"
            elif sg - sw:
                kind = "spurious"
            else:
                kind = "reorder"
            return (kind, f"{ds['name']} ({ds['fmt']}): wrote {got}, selected arrivals {want}")
    return None


# ---- Coq rendering ------------------------------------------------------------------------------------------

def coq_prog(prog: List[list]) -> str:
    out = []
    for op in prog:
        k = op[0]
        if k == "upd":
            out.append(f"Upd (Some (mkM {op[1]} {op[2]}))")
        elif k == "upd0":
            out.append("Upd None")
        elif k == "tick":
            out.append(f"Tick {op[1]}")
        else:
            out.append(dict(start="Start", stop="Stop", pause="Pause", resume="Resume")[k])
    return "[" + "; ".join(out) + "]"


def coq_cfgs(dss: List[dict]) -> str:
    out = []
    for d in dss:
        ts = "[" + "; ".join(str(t) if t >= 0 else f"({t})" for t in d["types"]) + "]"
        iv = d["interval"]
        out.append(f"mk_cfg {FMT_COQ[d['fmt']]} {iv if iv >= 0 else '(%d)' % iv} {ts}")
    return "[" + "; ".join(out) + "]"


def coq_sched(s: List[int]) -> str:
    return "[" + "; ".join("W" if t else "R" for t in s) + "]"


HEADER = """From Coq Require Import ZArith List Bool.
From Logr Require Import Gen.LoggerConsts Model.Formats Model.Logger.
Import ListNotations. Open Scope Z_scope.
Fixpoint zl_eqb (a b : list Z) : bool :=
  match a, b with [], [] => true | x :: r, y :: s => (x =? y) && zl_eqb r s | _, _ => false end.
Fixpoint tl_eqb (a b : list tid) : bool :=
  match a, b with [], [] => true | x :: r, y :: s => tid_eqb x y && tl_eqb r s | _, _ => false end.
Definition out_files (d : dstate) : list Z :=
  Z.of_nat (length (d_files d)) ::
  flat_map (fun f => [Z.of_nat (f_session f); Z.of_nat (f_sub f); Z.of_nat (length (f_msgs f))] ++ map m_id (f_msgs f)) (d_files d).
(* first element: the ghost flag g_stale (the harness recomputes it from the real run on its own) *)
Definition out (s : state) : list Z :=
  (if g_stale s then 1 else 0) ::
  match s_crash s with
  | Some R => [1] | Some W => [2]
  | None => [0; Z.of_nat (s_warn s)] ++ flat_map out_files (s_ds s)
  end.
(* case = (configs, program, the trace the real scheduler executed, the real observable output) *)
Definition check_case (c : list cfg * list op * list tid * list Z) : bool :=
  let '(cfgs, prog, sched, exp) := c in
  let s := run cfgs prog sched in
  zl_eqb (out s) exp && tl_eqb (trace cfgs prog sched) sched && (crashed s || finished s).
"""


def impl_flat(case: dict, res: dict) -> List[int]:
    """the observable output of a real run, in the layout of `out` above"""
    st = 1 if res.get("stale") else 0
    if res.get("crash"):
        return [st, 1 if res["crash"]["tid"] == 0 else 2]
    out = [st, 0, res["warnings"]]
    for d in case["datasets"]:
        fl = res["files"].get(d["name"], [])
        out.append(len(fl))
        for f in fl:
            out += [f["session"], f["sub"], len(f["ids"])] + list(f["ids"])
    return out


def coq_case(case: dict, res: dict) -> str:
    from .framework import coq_zlist
    return f"({coq_cfgs(case['datasets'])}, {coq_prog(case['prog'])}, {coq_sched(res['trace'])}, {coq_zlist(impl_flat(case, res))})"
