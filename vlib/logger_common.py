"""Shared helpers of the logger family (C17): running the real code (logger_worker.py), schedule exploration,
the spec oracle on real files, and Coq term rendering for Model/Logger.v."""
from __future__ import annotations

import json
import subprocess
from concurrent.futures import ThreadPoolExecutor
from typing import Dict, List, Optional, Tuple

from .framework import VERIF, PY, NCPU, impl_env, CoqFamily

FAM = CoqFamily("logger", "Logr")
ALL_TYPES = 2147483647
FMT_COQ = {"raw": "FRaw", "json": "FJson", "quicklogger": "FQL"}


def run_impl(cases: List[dict], nproc: int = NCPU, timeout: int = 1800, src: Optional[str] = None) -> List[dict]:
    """Run the real DataCollection on the cases (subprocess workers, results in order).
    src: alternative source root (a patched copy of /repo/src) instead of the working tree."""
    if not cases:
        return []
    nproc = max(1, min(nproc, (len(cases) + 7) // 8))
    chunks = [cases[i::nproc] for i in range(nproc)]

    def work(ch):
        p = subprocess.run([PY, str(VERIF / "vlib" / "logger_worker.py")], input=json.dumps(ch),
                           capture_output=True, text=True,
                           env=impl_env(dict(PYTHONPATH=src) if src else None), timeout=timeout, cwd="/")
        if p.returncode != 0:
            raise RuntimeError("logger_worker failed: " + p.stderr[-1500:])
        return json.loads(p.stdout)

    with ThreadPoolExecutor(nproc) as ex:
        rs = list(ex.map(work, chunks))
    out: List[Optional[dict]] = [None] * len(cases)
    for k, r in enumerate(rs):
        for j, x in enumerate(r):
            out[k + j * nproc] = x
    return out  # type: ignore


def explore_many(bases: List[dict], budget: int, src: Optional[str] = None,
                 timeout: int = 3000) -> List[Tuple[List[dict], List[dict], bool]]:
    """Stateless exhaustive exploration of the schedules of each recorder program on the REAL code (breadth first, up to
    `budget` runs per program): run with a schedule prefix, read back the executed trace and the decision indices at
    which both threads were enabled, branch on each such index beyond the prefix.  One worker process per program, in
    parallel.  Returns per program (cases, results, complete); each case carries the executed trace as its schedule."""
    def work(base):
        p = subprocess.run([PY, str(VERIF / "vlib" / "logger_worker.py")],
                           input=json.dumps([dict(mode="explore", base=base, budget=budget)]),
                           capture_output=True, text=True,
                           env=impl_env(dict(PYTHONPATH=src) if src else None), timeout=timeout, cwd="/")
        if p.returncode != 0:
            raise RuntimeError("logger_worker (explore) failed: " + p.stderr[-1500:])
        r = json.loads(p.stdout)[0]
        return [dict(base, sched=x["trace"]) for x in r["explored"]], r["explored"], r["complete"]

    if not bases:
        return []
    with ThreadPoolExecutor(min(NCPU, len(bases))) as ex:
        return list(ex.map(work, bases))


def explore(base_case: dict, budget: int, src: Optional[str] = None) -> Tuple[List[dict], List[dict], bool]:
    return explore_many([base_case], budget, src=src)[0]


# ---- spec oracle, evaluated on what the real code wrote (independent of the Coq model) -------------------

def selected(ds: dict, mtype: int) -> bool:
    return (ALL_TYPES in ds["types"]) or (mtype in [t for t in ds["types"] if t > 0])


def oracle(case: dict, res: dict) -> Optional[Tuple[str, str]]:
    """None if the run satisfies C17, else (class, description)."""
    if res.get("crash"):
        c = res["crash"]
        who = {0: "recorder", 1: "writer"}.get(c["tid"], "harness")
        return ("exception-" + who, f"{c['exc']}: {c['msg']}")
    if res.get("deadlock"):
        return ("deadlock", "no thread enabled before the program finished")
    for ds in case["datasets"]:
        want = [(s, i) for s, i, t in res["arrivals"] if selected(ds, t)]
        got = []
        for f in res["files"].get(ds["name"], []):
            if f.get("err"):
                return ("unreadable", f"{ds['name']} s{f['session']} sub{f['sub']}: {f['err']}")
            if not f["content_ok"]:
                return ("content", f"{ds['name']} s{f['session']} sub{f['sub']}: a message read back differs from the one handed in")
            if ds["fmt"] == "quicklogger" and not f.get("ql_size_ok", True):
                return ("ql-total-bytes", f"{ds['name']}: total_bytes in the file header differs from the file size")
            got += [(f["session"], i) for i in f["ids"]]
        if got != want:
            sw, sg = set(want), set(got)
            if len(got) != len(set(got)):
                kind = "duplicate"
            elif sw - sg:
                kind = "loss"
            elif sg - sw:
                kind = "spurious"
            else:
                kind = "reorder"
            return (kind, f"{ds['name']} ({ds['fmt']}): wrote {got}, selected arrivals {want}")
    return None


# ---- Coq rendering ------------------------------------------------------------------------------------------

def coq_prog(prog: List[list]) -> str:
    out = []
    for op in prog:
        k = op[0]
        if k == "upd":
            out.append(f"Upd (Some (mkM {op[1]} {op[2]}))")
        elif k == "upd0":
            out.append("Upd None")
        elif k == "tick":
            out.append(f"Tick {op[1]}")
        elif k == "readd":
            continue      # re-adding identical data sets while stopped: not an operation of the model (a no-op)
        else:
            out.append(dict(start="Start", stop="Stop", pause="Pause", resume="Resume")[k])
    return "[" + "; ".join(out) + "]"


def coq_cfgs(dss: List[dict]) -> str:
    out = []
    for d in dss:
        ts = "[" + "; ".join(str(t) if t >= 0 else f"({t})" for t in d["types"]) + "]"
        iv = d["interval"]
        out.append(f"mk_cfg {FMT_COQ[d['fmt']]} {iv if iv >= 0 else '(%d)' % iv} {ts}")
    return "[" + "; ".join(out) + "]"


def coq_sched(s: List[int]) -> str:
    return "[" + "; ".join("W" if t else "R" for t in s) + "]"


HEADER = """From Coq Require Import ZArith List Bool.
From Logr Require Import Gen.LoggerConsts Model.Formats Model.Logger Model.LoggerFixed.
Import ListNotations. Open Scope Z_scope.
Fixpoint zl_eqb (a b : list Z) : bool :=
  match a, b with [], [] => true | x :: r, y :: s => (x =? y) && zl_eqb r s | _, _ => false end.
Fixpoint tl_eqb (a b : list tid) : bool :=
  match a, b with [], [] => true | x :: r, y :: s => tid_eqb x y && tl_eqb r s | _, _ => false end.
Definition out_files (d : dstate) : list Z :=
  Z.of_nat (length (d_files d)) ::
  flat_map (fun f => [Z.of_nat (f_session f); Z.of_nat (f_sub f); Z.of_nat (length (f_msgs f))] ++ map m_id (f_msgs f)) (d_files d).
(* first element: the ghost flag g_stale = stale write_finished.set() (the defect fixed by 510a13f; proved impossible
   in the current model, recomputed from the real run by the harness on its own) *)
Definition out (s : state) : list Z :=
  (if g_stale s then 1 else 0) ::
  match s_crash s with
  | Some R => [1] | Some W => [2]
  | None => [0; Z.of_nat (s_warn s)] ++ flat_map out_files (s_ds s)
  end.
(* case = (configs, program, the trace the real scheduler executed, the real observable output) *)
Definition check_case (c : list cfg * list op * list tid * list Z) : bool :=
  let '(cfgs, prog, sched, exp) := c in
  let s := runF cfgs prog sched in
  zl_eqb (out s) exp && tl_eqb (traceF cfgs prog sched) sched && (crashed s || finished s).
"""


def impl_flat(case: dict, res: dict) -> List[int]:
    """the observable output of a real run, in the layout of `out` above"""
    st = 1 if res.get("stale") else 0
    if res.get("crash"):
        return [st, 1 if res["crash"]["tid"] == 0 else 2]
    out = [st, 0, res["warnings"]]
    for d in case["datasets"]:
        fl = res["files"].get(d["name"], [])
        out.append(len(fl))
        for f in fl:
            out += [f["session"], f["sub"], len(f["ids"])] + list(f["ids"])
    return out


def coq_case(case: dict, res: dict) -> str:
    from .framework import coq_zlist
    return f"({coq_cfgs(case['datasets'])}, {coq_prog(case['prog'])}, {coq_sched(res['trace'])}, {coq_zlist(impl_flat(case, res))})"
