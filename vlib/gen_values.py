"""Regenerate coq/values/Gen/*.v from /repo (write-if-changed)."""
from .framework import COQ, write_if_changed
from .translate import validators_tbl, validators_skel


def regen():
    """returns list of (file, error) for translators that failed closed"""
    errs = []
    d = COQ / "values" / "Gen"
    d.mkdir(parents=True, exist_ok=True)
    try:
        write_if_changed(d / "ValidatorTbl.v", validators_tbl.render())
    except Exception as e:  # TranslateError or anything else: fail closed
        errs.append(("ValidatorTbl.v", f"{type(e).__name__}: {e}"))
    try:
        validators_skel.check()
    except Exception as e:
        errs.append(("(statement skeleton of validators.py)", f"{type(e).__name__}: {e}"))
    try:
        write_if_changed(d / "CodecGuards.v", validators_tbl.render_codec())
    except Exception as e:
        errs.append(("CodecGuards.v", f"{type(e).__name__}: {e}"))
    return errs
