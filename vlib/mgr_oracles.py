"""Spec-level oracles for the manager properties, evaluated on what the real manager
wrote to its (fake) sockets.  Independent of the Coq model: a small simulator of
the *specification* (abstract subscriptions, module identities, departures)
driven by the scripted history, plus per-property checkers.

Histories checked by these oracles are produced by gen_monitored(): connection 1
is a logger subscribed to ALL_MESSAGE_TYPES (a logger is waited for, never
skipped), so its stream is a complete, ordered record of everything the manager
forwarded.
"""
from __future__ import annotations

import random
from typing import Dict, List, Optional, Set, Tuple

from . import mgr_wire as W
from .mgr_common import History, ALL, MT, TYPES

CONTROL = {MT[k] for k in ("CONNECT", "CONNECT_V2", "DISCONNECT", "SUBSCRIBE", "UNSUBSCRIBE", "PAUSE_SUBSCRIPTION",
                           "RESUME_SUBSCRIPTION", "CLIENT_SET_NAME", "MODULE_READY")}
MAX_MODULES, DYN_START, MAX_HOSTS = 200, 100, 5   # protocol constants (core_defs.yaml), not read from the code


class Conn:
    def __init__(self, cid):
        self.cid = cid
        self.gone = False
        self.connected = False
        self.mod_id = 0
        self.dynamic = False
        self.logger = False
        self.unique = True
        self.name = b""
        self.pid = 0
        self.sub = set()      # or "ALL"
        self.will_fail = False    # a send-fault plan with n=0 is armed

    def wants(self, t):
        return self.sub == "ALL" or t in self.sub


class Expect:
    def __init__(self):
        self.deliveries: List[dict] = []     # per publish
        self.acks: Dict[int, List[dict]] = {}
        self.departures: List[dict] = []
        self.connect_decisions: List[dict] = []
        self.notices: List[dict] = []


def simulate(hs: History, dyn_ids: Optional[Dict[int, int]] = None) -> Tuple[Dict[int, Conn], Expect]:
    dyn_ids = dyn_ids or {}
    conns: Dict[int, Conn] = {}
    ex = Expect()
    wl: List[int] = []
    ncid = 0
    for ev in hs.meta:
        if ev["kind"] == "fault":
            c = conns.get(ev["c"])
            if c is not None and ev["n"] == 0:
                c.will_fail = True
            elif c is not None:
                c.will_fail = None  # uncertain
            continue
        if ev["accept"]:
            ncid += 1
            conns[ncid] = Conn(ncid)
        ready = [(c, h, j) for c, h, j in ev["ready"] if c in conns and not conns[c].gone]
        if ready:
            wl = [c for c in ev["writable"]]
        elif ev["accept"]:
            wl = []
        for cid, h, j in ready:
            c = conns[cid]
            if c.gone:
                continue
            kind = j["t"]
            if kind in ("eof", "reset", "eofdata", "resetdata"):
                depart(c, conns, ex, "read-" + kind)
                continue
            t = h["type"]
            if h["nbytes"] < 0 or h["nbytes"] > 2 ** 20:
                depart(c, conns, ex, "bad-size")
                continue
            pl = bytes.fromhex(j.get("payload", ""))
            need = {MT["CONNECT"]: 4, MT["CONNECT_V2"]: 44, MT["SUBSCRIBE"]: 4, MT["UNSUBSCRIBE"]: 4,
                    MT["PAUSE_SUBSCRIPTION"]: 4, MT["RESUME_SUBSCRIPTION"]: 4, MT["MODULE_READY"]: 4,
                    MT["CLIENT_SET_NAME"]: 32}.get(t, 0)
            if len(pl) < need:
                c.will_fail = None     # decoded from stale buffer contents: outside the oracle
                continue
            if t in (MT["CONNECT"], MT["CONNECT_V2"]):
                if c.connected:
                    continue
                if t == MT["CONNECT_V2"]:
                    lg, dm, am, mid, pid, name = W.CONNECT_V2.unpack(pl[:44])
                    name = W.cstr(name)
                    uniq = am == 0
                else:
                    lg, dm = W.CONNECT.unpack(pl[:4])
                    mid, pid, name, uniq = h["src_mod"], c.pid, c.name, c.unique
                decision = "accept"
                if any(b >= 128 for b in name):
                    decision = "refuse-name"
                elif mid != 0:
                    if mid < 1 or mid > DYN_START:
                        decision = "refuse-range"
                    else:
                        for d in list(conns.values()) + [None]:
                            if d is None:
                                dn, did, du, dlive = b"message_manager", 0, True, True
                            else:
                                if d is c or d.gone:
                                    continue
                                dn, did, du, dlive = d.name, d.mod_id, d.unique, True
                            if did == mid and (du or uniq):
                                decision = "refuse-id"
                                break
                            if name and (du or uniq) and dn == name:
                                decision = "refuse-name-clash"
                                break
                c.mod_id, c.pid, c.name, c.unique = mid, pid, name, uniq
                if not decision.startswith("refuse-name") or decision == "refuse-name-clash":
                    c.logger = lg == 1
                ex.connect_decisions.append(dict(cid=cid, decision=decision, requested=mid, unique=uniq, name=name))
                if decision != "accept":
                    depart(c, conns, ex, decision)
                    continue
                c.connected = True
                c.dynamic = mid == 0
                if c.dynamic:
                    c.mod_id = dyn_ids.get(cid, 0)
                ex.acks.setdefault(cid, []).append(dict(kind="connect", dynamic=c.dynamic, dest=mid))
            elif t == MT["DISCONNECT"]:
                depart(c, conns, ex, "disconnect")
            elif t in (MT["SUBSCRIBE"], MT["RESUME_SUBSCRIPTION"]):
                mt = W.SUB.unpack(pl[:4])[0]
                if mt == ALL:
                    c.sub = "ALL"
                elif c.sub != "ALL":
                    c.sub.add(mt)
                ex.acks.setdefault(cid, []).append(dict(kind="sub", dest=None))
                if c.will_fail is True:
                    depart(c, conns, ex, "write-failure-own-ack")     # the acknowledgement is the write that fails
            elif t in (MT["UNSUBSCRIBE"], MT["PAUSE_SUBSCRIPTION"]):
                mt = W.SUB.unpack(pl[:4])[0]
                if mt == ALL:
                    c.sub = set()
                elif c.sub != "ALL":
                    c.sub.discard(mt)
                ex.acks.setdefault(cid, []).append(dict(kind="sub", dest=None))
                if c.will_fail is True:
                    depart(c, conns, ex, "write-failure-own-ack")
            elif t == MT["MODULE_READY"]:
                c.pid = W.READY.unpack(pl[:4])[0]
            elif t == MT["CLIENT_SET_NAME"]:
                nm = W.cstr(pl[:32])
                if all(b < 128 for b in nm):
                    c.name = nm
            else:
                # a published message
                dm, dh = h["dst_mod"], h["dst_host"]
                valid = 0 <= dm <= MAX_MODULES and 0 <= dh <= MAX_HOSTS
                elig, recips, unw = [], [], []
                if valid:
                    for d in conns.values():
                        if d.gone or not d.wants(t):
                            continue
                        addressed = dm == 0 or d.mod_id == dm or d.logger
                        if d.cid in wl or d.logger:
                            if addressed:
                                elig.append(d.cid)
                        elif addressed:
                            unw.append(d.cid)
                # recipients whose armed fault fires depart instead of receiving
                failed = [x for x in elig if conns[x].will_fail]
                recips = [x for x in elig if not conns[x].will_fail]
                uncertain = any(conns[x].will_fail is None for x in elig + unw)
                ex.deliveries.append(dict(src=cid, hdr=h, payload=pl, recips=sorted(recips), failed=failed,
                                          unwritable=sorted(unw), valid=valid, uncertain=uncertain,
                                          pid=hs.it.pay(pl), xid=hs.it.ext(h["x"])))
                for x in failed:
                    depart(conns[x], conns, ex, "write-failure")
        for c in conns.values():
            if c.will_fail is True and not c.gone:
                c.will_fail = None        # armed but not consumed by this round: some later write kills it
    return conns, ex


def depart(c: Conn, conns, ex: Expect, why: str):
    c.gone = True
    ex.departures.append(dict(cid=c.cid, why=why, mod_id=c.mod_id, logger=c.logger, unique=c.unique,
                              name=c.name, dynamic=c.dynamic))


# ------------------------------------------------------------------ observations

class Obs:
    """frames per connection, decoded; from the worker's item list"""

    def __init__(self, res: dict, hs: History):
        self.crash = res["crash"]
        self.tables = res.get("tables")
        self.frames: Dict[int, List[dict]] = {}
        self.partial: Dict[int, dict] = {}
        self.order: List[Tuple[int, dict]] = []
        pend: Dict[int, dict] = {}
        for it in res["items"]:
            cid = it[0]
            if it[1] == "H":
                if cid in pend:
                    self.partial[cid] = pend[cid]
                pend[cid] = dict(h=it[2], p=None)
            else:
                f = pend.pop(cid, None)
                if f is None:
                    self.partial[cid] = dict(h=None, p=it)
                    continue
                f["p"] = dict(hex=it[2], len=it[3], sha=it[4], dec=it[5])
                f["pid"] = hs.it.payload.get(it[4], 0 if it[3] == 0 else -1)
                x = tuple(f["h"]["x"])
                f["xid"] = hs.it.extra.get(x[:5], 0)
                self.frames.setdefault(cid, []).append(f)
                self.order.append((cid, f))
        for cid, f in pend.items():
            self.partial[cid] = f
        # module ids as told to each client by its first acknowledgement
        self.first_ack: Dict[int, int] = {}
        for cid, fs in self.frames.items():
            for f in fs:
                # (control frames sent before the handshake are acknowledged to module id 0: not the id being told)
                if f["h"]["type"] == MT["ACKNOWLEDGE"] and f["xid"] == 0 and f["h"]["src_mod"] == 0 and f["h"]["dst_mod"] != 0:
                    self.first_ack[cid] = f["h"]["dst_mod"]
                    break


def is_mgr(f) -> bool:
    return f["xid"] == 0 and f["h"]["src_mod"] == 0


# ------------------------------------------------------------------ checkers
# each returns a list of (key, description)

def check_C01(hs: History, conns, ex: Expect, ob: Obs):
    if ob.crash:
        return []      # the manager died: reported under C03
    out = []
    for d in ex.deliveries:
        if d["uncertain"] or d["hdr"]["type"] == ALL:
            continue
        got = []
        for cid, fs in ob.frames.items():
            for f in fs:
                if f["xid"] == d["xid"] and f["xid"] != 0:
                    got.append((cid, f))
        got_c = sorted(c for c, _ in got)
        want = d["recips"]
        h = d["hdr"]
        if got_c != want:
            extra = sorted(set(got_c) - set(want))
            missing = sorted(set(want) - set(got_c))
            dup = sorted({c for c in got_c if got_c.count(c) > 1})
            kind = "duplicate" if dup else ("extra-recipient" if extra else "missing-recipient")
            out.append((f"routing:{kind}", f"publish type={h['type']} dst_mod={h['dst_mod']} dst_host={h['dst_host']} from conn {d['src']}: "
                        f"delivered to {got_c}, specification says {want} (valid_dest={d['valid']})"))
            continue
        for cid, f in got:
            g = f["h"]
            same = all(g[k] == h[k] for k in ("type", "src_host", "src_mod", "dst_host", "dst_mod", "nbytes"))
            if not same or f["pid"] != d["pid"] or f["p"]["len"] != len(d["payload"]):
                out.append(("routing:modified", f"frame delivered to conn {cid} differs from the published one: {g} vs {h}"))
            x = tuple(g["x"])
            if hs.timecode and (x[5], x[6]) != (h["x"].get("utc_s", 0), h["x"].get("utc_f", 0)):
                out.append(("routing:modified-timecode", f"timecode fields changed for conn {cid}"))
    return out


def check_C05(hs: History, conns, ex: Expect, ob: Obs):
    if ob.crash:
        return []      # the manager died: reported under C03
    out = []
    for cid, fs in ob.frames.items():
        for i, f in enumerate(fs):
            if f["h"]["count"] != i + 1:
                out.append(("seq:gap", f"conn {cid}: frame #{i + 1} carries msg_count {f['h']['count']}"))
                break
            if f["p"]["len"] != f["h"]["nbytes"]:
                out.append(("frame:length", f"conn {cid}: frame #{i + 1} type {f['h']['type']} declares {f['h']['nbytes']} bytes, {f['p']['len']} written"))
                break
    for cid, f in ob.partial.items():
        c = conns.get(cid)
        if c is not None and not c.gone and not (c.will_fail or c.will_fail is None):
            out.append(("frame:partial", f"conn {cid}: a header without payload was written to a connection that stays open"))
    # order: forwarded client frames appear on every receiver in publish order (global order of xids)
    for cid, fs in ob.frames.items():
        xs = [f["xid"] for f in fs if f["xid"] > 0]
        if xs != sorted(xs):
            out.append(("order:reordered", f"conn {cid}: forwarded frames out of publish order {xs[:12]}"))
    return out


def check_C19(hs: History, conns, ex: Expect, ob: Obs):
    if ob.crash:
        return []      # the manager died: reported under C03
    out = []
    loggers_now = None
    for cid, c in conns.items():
        acks = [f for f in ob.frames.get(cid, []) if f["h"]["type"] == MT["ACKNOWLEDGE"] and is_mgr(f)]
        want = ex.acks.get(cid, [])
        # own acks are those addressed to own module id; copies of other modules' acks reach loggers
        own = [f for f in acks if not c.logger] if not c.logger else None
        if c.logger:
            continue   # logger streams are checked through the monitor below
        if c.will_fail or c.will_fail is None:
            continue
        if len(acks) != len(want):
            out.append(("ack:count", f"conn {cid}: {len(acks)} ACKNOWLEDGE frames for {len(want)} acknowledgeable control frames"))
            continue
        for f, w in zip(acks, want):
            d = f["h"]["dst_mod"]
            if w["kind"] == "connect" and not w["dynamic"] and d != w["dest"]:
                out.append(("ack:dest", f"conn {cid}: connect ACK addressed to {d}, module id is {w['dest']}"))
            if w["kind"] == "connect" and w["dynamic"] and not (DYN_START <= d < MAX_MODULES):
                out.append(("ack:dynamic-range", f"conn {cid}: dynamic id {d} outside [{DYN_START},{MAX_MODULES})"))
    # the monitor (conn 1, logger) gets a copy of every ack
    if 1 in conns and conns[1].logger and conns[1].connected and not conns[1].gone:
        total = sum(len(v) for k, v in ex.acks.items())
        seen = [f for f in ob.frames.get(1, []) if f["h"]["type"] == MT["ACKNOWLEDGE"] and is_mgr(f)]
        # acks issued before the monitor was connected are not copied to it; its own acks count once as own + once as copy
        n_before = 0
        if len(seen) < total - n_before:
            out.append(("ack:logger-copy", f"logger saw {len(seen)} ACKNOWLEDGE frames, {total} control frames were acknowledgeable"))
        # every other logger module - whatever it is subscribed to - gets the same copies as the monitor from the moment
        # it is connected: per acknowledged module id (other than its own and the monitor's, whose direct ACKs share
        # the stream), the ACKs it sees = the ACKs the monitor sees after this logger's own connect ACK
        mon_id = ob.first_ack.get(1)
        mon = ob.frames.get(1, [])
        for cid, c in conns.items():
            if cid == 1 or not c.logger or not c.connected or c.gone or c.will_fail or c.will_fail is None:
                continue
            my = ob.first_ack.get(cid)
            if my is None or my == mon_id or any(d is not c and d.connected and d.mod_id == my for d in conns.values()):
                continue
            start = next((i for i, f in enumerate(mon) if f["h"]["type"] == MT["ACKNOWLEDGE"] and is_mgr(f) and f["h"]["dst_mod"] == my), None)
            if start is None:
                continue
            cnt_mon: Dict[int, int] = {}
            for f in mon[start:]:
                if f["h"]["type"] == MT["ACKNOWLEDGE"] and is_mgr(f) and f["h"]["dst_mod"] not in (my, mon_id):
                    cnt_mon[f["h"]["dst_mod"]] = cnt_mon.get(f["h"]["dst_mod"], 0) + 1
            cnt_me: Dict[int, int] = {}
            for f in ob.frames.get(cid, []):
                if f["h"]["type"] == MT["ACKNOWLEDGE"] and is_mgr(f) and f["h"]["dst_mod"] not in (my, mon_id):
                    cnt_me[f["h"]["dst_mod"]] = cnt_me.get(f["h"]["dst_mod"], 0) + 1
            if cnt_me != cnt_mon:
                diff = {k: (cnt_me.get(k, 0), cnt_mon.get(k, 0)) for k in set(cnt_me) | set(cnt_mon) if cnt_me.get(k, 0) != cnt_mon.get(k, 0)}
                out.append(("ack:logger-copy", f"logger conn {cid} (module {my}, subscribed to {c.sub if c.sub == 'ALL' else sorted(c.sub)}): "
                            f"ACK copies per acknowledged module (seen here, seen by the ALL-subscribed logger since this one connected) differ: {dict(list(diff.items())[:5])}"))
    return out


def check_C07(hs: History, conns, ex: Expect, ob: Obs):
    if ob.crash:
        return []      # the manager died: reported under C03
    out = []
    mon = ob.frames.get(1, [])
    closed = [f for f in mon if f["h"]["type"] == MT["CLIENT_CLOSED"] and is_mgr(f) and f["p"]["dec"]]
    by_uid: Dict[int, list] = {}
    for f in closed:
        by_uid.setdefault(f["p"]["dec"][2], []).append(f["p"]["dec"])
    # "leaves no trace": the manager's own tables after the history (module table, type -> subscriber index, logger
    # set; read by the harness once run() has returned).  Whoever is in the index or the logger set must be in the
    # module table (needs no simulation, holds on every history), and a connection the specification says has left
    # must be in none of the three.
    tb = ob.tables
    if tb and "error" not in tb:
        live = set(tb["modules"])
        for t, cs in tb["subs"].items():
            stale = sorted(set(cs) - live)
            if stale:
                out.append(("trace:index", f"subscriptions[{t}] still holds connection(s) {stale} that are not in the module table {sorted(live)}"))
                break
        stale = sorted(set(tb["loggers"]) - live)
        if stale:
            out.append(("trace:loggers", f"logger_modules still holds connection(s) {stale} that are not in the module table"))
        for d in ex.departures:
            c = conns.get(d["cid"])
            if c is not None and d["cid"] in live and c.will_fail is not None:
                out.append(("trace:table", f"conn {d['cid']} left ({d['why']}) but is still in the module table"))
    if not (1 in conns and conns[1].logger and conns[1].connected and not conns[1].gone):
        return out
    for d in ex.departures:
        got = by_uid.get(d["cid"], [])
        if len(got) != 1:
            out.append((f"closed:count", f"conn {d['cid']} left ({d['why']}): {len(got)} CLIENT_CLOSED notices"))
            continue
        g = got[0]
        if d["dynamic"] is False and g[4] != d["mod_id"] and d["why"] not in ("refuse-name",):
            out.append(("closed:fields", f"CLIENT_CLOSED for conn {d['cid']} reports mod_id {g[4]}, expected {d['mod_id']}"))
        if (g[5] != int(d["logger"]) or g[6] != int(d["unique"])) and not d["why"].startswith("refuse-name"):
            out.append(("closed:fields", f"CLIENT_CLOSED for conn {d['cid']} reports logger/unique {g[5]}/{g[6]}, expected {int(d['logger'])}/{int(d['unique'])}"))
    # "stops treating it as a recipient at once": once the departure of a module has been published, the only failure
    # notice that may still name it is the one for the message whose delivery discovered the departure (it is sent
    # right after the removal).  A second one means the manager tried to deliver to it again.  The module id may be
    # taken by a new connection later (its CLIENT_INFO appears on the monitor): counting stops there.
    gone_mod: Dict[int, list] = {}      # mod_id -> [uid, notices seen since its CLIENT_CLOSED]
    for f in mon:
        if not (is_mgr(f) and f["p"]["dec"]):
            continue
        t, dec = f["h"]["type"], f["p"]["dec"]
        if t == MT["CLIENT_CLOSED"]:
            gone_mod[dec[4]] = [dec[2], 0]
        elif t == MT["CLIENT_INFO"] and dec[4] in gone_mod and dec[2] != gone_mod[dec[4]][0]:
            del gone_mod[dec[4]]
        elif t == MT["FAILED_MESSAGE"] and dec[1] in gone_mod:
            gone_mod[dec[1]][1] += 1
            if gone_mod[dec[1]][1] == 2:
                out.append(("closed:still-recipient", f"module id {dec[1]} (conn {gone_mod[dec[1]][0]}) is named by a second "
                            f"FAILED_MESSAGE (for a message of type {dec[2]['type']}) after its CLIENT_CLOSED was published"))
    for uid, l in by_uid.items():
        if uid in conns and conns[uid].will_fail is None:
            if len(l) > 1:
                out.append(("closed:count", f"conn {uid}: {len(l)} CLIENT_CLOSED notices"))
            continue
        if uid not in {d["cid"] for d in ex.departures}:
            out.append(("closed:spurious", f"CLIENT_CLOSED for conn {uid} which did not leave"))
    return out


def check_C14(hs: History, conns, ex: Expect, ob: Obs):
    if ob.crash:
        return []      # the manager died: reported under C03
    out = []
    # the monitor is connection 1: a logger subscribed to everything (waited for, never skipped), or - in histories
    # that say so - an ordinary module subscribed to everything that the history keeps writable in every round
    if not (1 in conns and conns[1].connected and not conns[1].gone and
            (conns[1].logger or (getattr(hs, "plain_monitor", False) and conns[1].sub == "ALL"))):
        return out
    mon = ob.frames.get(1, [])
    notices = [f["p"]["dec"] for f in mon if f["h"]["type"] == MT["FAILED_MESSAGE"] and is_mgr(f) and f["p"]["dec"]]
    nolist = {MT[k] for k in ("FAILED_MESSAGE", "RTMA_LOG", "RTMA_LOG_CRITICAL", "RTMA_LOG_ERROR", "RTMA_LOG_WARNING",
                              "RTMA_LOG_INFO", "RTMA_LOG_DEBUG")}
    # one failed delivery, one notice: the same (named module, embedded header incl. its stamped count and times) can
    # not be reported twice to one subscriber - a repeated notice means a notice object was reused while in flight
    seen_n = set()
    for n in notices:
        e = n[2]
        k = (n[1], e["type"], e["count"], e["src_mod"], e["dst_mod"], e["nbytes"], tuple(e["x"]))
        if k in seen_n and e["x"][0] >= 1000.0:
            # (client frames of the harness carry a unique send_time >= 1000; two manager-originated messages of one
            # round - e.g. two CLIENT_CLOSED - have identical headers, so notices about them may legitimately coincide)
            out.append(("notice:duplicate", f"the same FAILED_MESSAGE (module {n[1]}, embedded type {e['type']} count {e['count']}) "
                                            f"was delivered twice to the monitor"))
        seen_n.add(k)
    for d in ex.deliveries:
        if d["uncertain"] or not d["valid"]:
            continue
        h = d["hdr"]
        # a victim that also listens to FAILED_MESSAGE / CLIENT_CLOSED may already die while the notice or the
        # CLIENT_CLOSED caused by ANOTHER undeliverable recipient of the same message is delivered to it
        tolerant = [x for x in d["failed"] if len(d["failed"]) + len(d["unwritable"]) > 1 and
                    (conns[x].wants(MT["CLIENT_CLOSED"]) or conns[x].wants(MT["FAILED_MESSAGE"])
                     or conns[x].wants(MT["RTMA_LOG_ERROR"]))]
        want = [] if h["type"] in nolist else [conns[x].mod_id for x in d["unwritable"] + d["failed"]
                                              if (not conns[x].logger or x in d["failed"]) and x not in tolerant]
        got = [n[1] for n in notices if n[2]["type"] == h["type"] and tuple(n[2]["x"])[:5] ==
               (h["x"]["send_time"], h["x"]["recv_time"], h["x"]["remaining"], h["x"]["is_dynamic"], h["x"]["reserved"])]
        for n in notices:
            e = n[2]
            if tuple(e["x"])[:1] == (h["x"]["send_time"],) and (e["type"], e["src_mod"], e["dst_mod"]) != (h["type"], h["src_mod"], h["dst_mod"]):
                out.append(("notice:fields", f"FAILED_MESSAGE embeds {e['type']}/{e['src_mod']}/{e['dst_mod']} for original {h['type']}/{h['src_mod']}/{h['dst_mod']}"))
        if h["type"] in nolist and got:
            out.append(("notice:cascade", f"a notice was produced for an undeliverable message of type {h['type']}"))
            continue
        # "a logger module is waited for instead of being skipped": a logger recipient that the round found not writable
        # still gets the message (and is therefore not named by a notice)
        for x in d["recips"]:
            if conns[x].logger and not any(f["xid"] == d["xid"] for f in ob.frames.get(x, [])) and d["xid"] != 0:
                out.append(("logger:skipped", f"publish type={h['type']} dst_mod={h['dst_mod']}: logger conn {x} (module {conns[x].mod_id}) "
                                              f"did not receive it" + (" and is named by a FAILED_MESSAGE" if conns[x].mod_id in got else "")))
        missing = [m for m in want if want.count(m) > got.count(m)]
        if missing:
            out.append(("notice:missing", f"publish type={h['type']} dst_mod={h['dst_mod']}: undeliverable to modules {sorted(want)} but notices name {sorted(got)}"))
    return out


def check_C06(hs: History, conns, ex: Expect, ob: Obs):
    if ob.crash:
        return []      # the manager died: reported under C03
    out = []
    # ids learned from connect ACKs
    live: Dict[int, Tuple[int, bool]] = {}
    dec = {d["cid"]: d for d in ex.connect_decisions}
    for cid, c in conns.items():
        acks = [f for f in ob.frames.get(cid, []) if f["h"]["type"] == MT["ACKNOWLEDGE"] and is_mgr(f)]
        want = ex.acks.get(cid, [])
        d = dec.get(cid)
        if d is None:
            continue
        refused_obs = not acks or (want and want[0]["kind"] != "connect")
        if d["decision"] == "accept":
            # the connect ACK is the one at the position of the connect request among the acknowledgeable control
            # frames of this connection (control frames sent before the handshake are acknowledged too)
            pos = next((i for i, w in enumerate(want) if w["kind"] == "connect"), 0)
            if len(acks) <= pos:
                if not (c.will_fail or c.will_fail is None):
                    out.append(("connect:not-acked", f"conn {cid}: connect request (id {d['requested']}) should be accepted but got no ACK"))
                continue
            got = acks[pos]["h"]["dst_mod"]
            if d["requested"] != 0 and got != d["requested"]:
                out.append(("connect:wrong-id", f"conn {cid}: requested id {d['requested']}, ACK says {got}"))
            if d["requested"] == 0 and not (DYN_START <= got < MAX_MODULES):
                out.append(("connect:dynamic-range", f"conn {cid}: dynamic id {got} outside [{DYN_START},{MAX_MODULES})"))
            if not c.gone:
                live[cid] = (got, d["unique"])
        else:
            if acks and acks[0]["h"]["dst_mod"] == d["requested"] and d["requested"] != 0 or \
                    (acks and d["decision"] != "accept" and len(acks) > len([w for w in want if w["kind"] == "sub"])):
                out.append(("connect:not-refused", f"conn {cid}: connect request {d} should be refused ({d['decision']}) but was acknowledged"))
    ids: Dict[int, List[Tuple[int, bool]]] = {}
    for cid, (mid, uq) in live.items():
        ids.setdefault(mid, []).append((cid, uq))
    for mid, l in ids.items():
        if len(l) > 1 and any(uq for _, uq in l):
            out.append(("identity:duplicate", f"module id {mid} held by connections {l} (conn, unique)"))
    return out


def check_C18(hs: History, conns, ex: Expect, ob: Obs):
    if ob.crash:
        return []      # the manager died: reported under C03
    """the monitor stream is the ordered record of everything forwarded with a valid destination"""
    out = []
    ps = getattr(hs, "plain_stats", None)
    if ps:
        # a listener that hears ONLY the statistics (an ordinary module, kept writable whenever a report is due): what
        # the clients published is known from the history; every report interval is closed by the history, so per
        # type the reported counts add up to the published ones - whether or not anybody is subscribed to the type
        tot_traffic: Dict[int, int] = {}
        tot_timing: Dict[int, int] = {}
        for f in ob.frames.get(1, []):
            if not (is_mgr(f) and f["p"]["dec"]):
                continue
            if f["h"]["type"] == MT["MESSAGE_TRAFFIC"]:
                _, seq, sub, ty, ct = f["p"]["dec"][:5]
                for a, b in zip(ty, ct):
                    if a == -1:
                        break
                    tot_traffic[a] = tot_traffic.get(a, 0) + b
            elif f["h"]["type"] == MT["TIMING_MESSAGE"]:
                for a, b in dict(f["p"]["dec"][1]).items():
                    tot_timing[a] = tot_timing.get(a, 0) + b
        exp = {int(k): v for k, v in ps["expected"].items()}
        got = {k: v for k, v in tot_traffic.items() if k >= 300}
        if got != exp:
            diff = {k: (got.get(k, 0), exp.get(k, 0)) for k in set(got) | set(exp) if got.get(k, 0) != exp.get(k, 0)}
            out.append(("traffic:totals", f"MESSAGE_TRAFFIC over the whole history (reported, published) differ for types {dict(list(sorted(diff.items()))[:6])}"))
        if hs.timing:
            gott = {k: v for k, v in tot_timing.items() if k >= 300}
            expt = {k: v for k, v in exp.items() if k < 10000}
            if gott != expt:
                diff = {k: (gott.get(k, 0), expt.get(k, 0)) for k in set(gott) | set(expt) if gott.get(k, 0) != expt.get(k, 0)}
                out.append(("timing:totals", f"TIMING_MESSAGE over the whole history (reported, published) differ for types {dict(list(sorted(diff.items()))[:6])}"))
        return out
    if not (1 in conns and conns[1].logger and conns[1].connected and not conns[1].gone):
        return out
    mon = ob.frames.get(1, [])
    if getattr(hs, "check_final_pids", False):
        # "... and for every connected module with a non-zero id its process id": the last report of a history that
        # ends with every pid settled lists exactly the pids the modules last declared (CONNECT_V2 or MODULE_READY)
        last = [f for f in mon if f["h"]["type"] == MT["TIMING_MESSAGE"] and is_mgr(f) and f["p"]["dec"]]
        if last:
            got = {k: v for k, v in dict(last[-1]["p"]["dec"][2]).items() if k != 0}     # (slot 0 is the manager's own)
            want = {c.mod_id: c.pid for c in conns.values() if c.connected and not c.gone and c.mod_id > 0 and c.pid}
            if got != want:
                diff = {k: (got.get(k, 0), want.get(k, 0)) for k in set(got) | set(want) if got.get(k, 0) != want.get(k, 0)}
                out.append(("timing:pids", f"TIMING_MESSAGE process ids (reported, last declared) differ for module ids {diff}"))
    tcount: Dict[int, int] = {}
    fcount: Dict[int, int] = {}
    seen_since_connect = False
    reports: Dict[int, List[tuple]] = {}
    stat = (MT["TIMING_MESSAGE"], MT["MESSAGE_TRAFFIC"])
    first_timing = first_traffic = True
    ccount: Dict[int, int] = {}          # frames published by clients (not by the manager), per type
    last_snap: Dict[int, int] = {}       # ... as of the last MESSAGE_TRAFFIC sub-message seen
    for f in mon:
        t = f["h"]["type"]
        mgr = is_mgr(f)
        if t == MT["ACKNOWLEDGE"] and mgr:
            continue    # acknowledgements are written directly, not forwarded
        if t == MT["TIMING_MESSAGE"] and mgr and f["p"]["dec"]:
            rep = dict(f["p"]["dec"][1])
            if not first_timing:
                exp = {k: v % 65536 for k, v in tcount.items() if 0 <= k < 10000 and v % 65536}
                if rep != exp:
                    diff = {k: (rep.get(k, 0), exp.get(k, 0)) for k in set(rep) | set(exp) if rep.get(k, 0) != exp.get(k, 0)}
                    out.append(("timing:counts", f"TIMING_MESSAGE (reported, forwarded) differ for types {dict(list(diff.items())[:6])}"))
            first_timing = False
            tcount = {}
            continue
        if t == MT["MESSAGE_TRAFFIC"] and mgr and f["p"]["dec"]:
            _, seq, sub, ty, ct = f["p"]["dec"][:5]
            reports.setdefault(seq, []).append((sub, ty, ct, dict(fcount)))
            last_snap = dict(ccount)
            continue
        if f["xid"] > 0:
            ccount[t] = ccount.get(t, 0) + 1
        tcount[t] = tcount.get(t, 0) + 1
        fcount[t] = fcount.get(t, 0) + 1
    # a history that ends with quiet rounds spanning more than a reporting interval: whatever clients published before
    # them has been reported by then (with or without TIMING_MESSAGE enabled) - an interval with traffic and no report
    # at all is a report with wrong counts
    if getattr(hs, "quiet_end", False):
        unrep = {t: n - last_snap.get(t, 0) for t, n in ccount.items() if n - last_snap.get(t, 0)}
        if unrep:
            out.append(("traffic:unreported", f"messages forwarded and never reported although more than one reporting interval "
                        f"elapsed afterwards (timing messages {'on' if hs.timing else 'off'}): type -> count {dict(list(sorted(unrep.items()))[:6])}"))
    # traffic: group consecutive sub-messages of one seqno; the interval is what was forwarded since the
    # previous report (the monitor sees the sub-messages right after the interval ends)
    prev_snapshot: Dict[int, int] = {}
    first = True
    for seq in sorted(reports):
        subs = reports[seq]
        snap = subs[0][3]
        interval = {k: snap.get(k, 0) - prev_snapshot.get(k, 0) for k in snap if snap.get(k, 0) - prev_snapshot.get(k, 0)}
        prev_snapshot = snap
        entries: List[Tuple[int, int]] = []
        for sub, ty, ct, _ in subs:
            for a, b in zip(ty, ct):
                if a == -1:
                    break
                entries.append((a, b))
        if first:
            first = False
            continue   # the first interval started before the monitor connected
        types = [a for a, _ in entries]
        if len(types) != len(set(types)):
            out.append(("traffic:duplicate", f"MESSAGE_TRAFFIC seq {seq}: a type is listed more than once: {sorted(t for t in set(types) if types.count(t) > 1)[:5]}"))
            continue
        rep = {a: b for a, b in entries}
        exp = {k: v % 65536 for k, v in interval.items()}
        if rep != exp:
            diff = {k: (rep.get(k), exp.get(k)) for k in set(rep) | set(exp) if rep.get(k) != exp.get(k)}
            out.append(("traffic:counts", f"MESSAGE_TRAFFIC seq {seq}: (reported, forwarded) differ for {dict(list(diff.items())[:6])}"))
    return out


def check_C03(hs: History, conns, ex: Expect, ob: Obs):
    out = []
    if ob.crash:
        cls = ob.crash.split(":")[0]
        out.append((f"crash:{cls}", f"the manager died with {ob.crash}"))
    return out


CHECKERS = dict(C01=check_C01, C03=check_C03, C05=check_C05, C06=check_C06, C07=check_C07, C14=check_C14,
                C18=check_C18, C19=check_C19)


# ---------------------------------------------------------------- generator ----

def gen_monitored(rng: random.Random, flavor: str, nrounds: int = 16) -> History:
    """histories with connection 1 as logger+ALL monitor and well-separated module ids, so that the
    specification's verdict is unambiguous.  flavor: routing | acks | ids | depart | drops | stats"""
    # stats: the manager may be started without TIMING_MESSAGE (-T); the traffic report must be exact all the same
    hs = History(loglevel=rng.choice([60, 40]) if flavor == "drops" else rng.choice([60, 60, 60, 40, 20]),
                 timing=not (flavor == "stats" and rng.random() < 0.3),
                 timecode=rng.random() < 0.15, tag="mon-" + flavor)
    now = 0
    hs.round([], [], now, accept=True)
    # shared: nobody is a logger (connection 1 is an ordinary module subscribed to everything and always writable) and
    # module ids are shared between instances that allow it - routing is judged on every connection's own stream
    hs.plain_monitor = flavor == "shared"
    hs.round([(1, hs.connect_v2(logger=0 if flavor == "shared" else 1, mod_id=0, pid=11))], [1], now)
    hs.round([(1, hs.sub("sub", ALL))], [1], now)
    nmax = rng.choice([3, 4, 5, 6])
    idpool = [10, 11, 12, 13, 14, 15, 16, 17]
    rng.shuffle(idpool)
    shared_ids = [rng.choice([20, 21]), rng.choice([20, 22])]
    st: Dict[int, dict] = {1: dict(connected=True, gone=False, mid=100, sub="ALL")}
    pending_faults: List[int] = []
    for r in range(nrounds):
        live = [c for c in st if c != 1 and not st[c]["gone"]]
        accept = hs.nclients < nmax and (not live or rng.random() < 0.3)
        if accept:
            st[hs.nclients + 1] = dict(connected=False, gone=False, mid=0, sub=set())
        k = rng.choice([1, 1, 2, 2, 3])
        chosen = rng.sample(live, min(k, len(live)))
        ready = []
        for c in chosen:
            s = st[c]
            if not s["connected"]:
                if flavor == "ids" and rng.random() < 0.5:
                    mid = rng.choice([0, 0, 10, 10, 11, 100, 101, -1, 1])
                    nm = rng.choice([b"", b"", b"A", b"B"])
                    am = rng.choice([0, 0, 1])
                elif flavor == "shared" and rng.random() < 0.75:
                    mid, nm, am = rng.choice(shared_ids), b"", 1
                else:
                    mid = rng.choice([0, idpool.pop()]) if idpool else 0
                    nm, am = b"", 0
                s["mid"] = mid
                s["connected"] = True     # (maybe refused: the simulator decides)
                if rng.random() < 0.6 or am:
                    ready.append((c, hs.connect_v2(logger=1 if (flavor in ("routing", "drops", "acks") and rng.random() < (0.3 if flavor == "acks" else 0.15)) else 0,
                                                   allow_multiple=am, mod_id=mid, pid=500 + c, name=nm)))
                else:
                    ready.append((c, hs.connect_v1(src_mod=mid if mid >= -32768 else 0)))
                continue
            w = dict(sub=5, unsub=2, pause=1, resume=1, publish=7, disconnect=0.3, eof=0.2, reset=0.15)
            if flavor == "acks":
                w.update(sub=8, unsub=4, pause=3, resume=3, publish=4)
            if flavor == "depart":
                w.update(disconnect=1.5, eof=1.2, reset=1.0)
            if flavor == "ids":
                w.update(disconnect=2.0, eof=1.0, publish=2)
            if flavor == "stats":
                w.update(publish=16, sub=2, disconnect=0, eof=0, reset=0)
            op = rng.choices(list(w), weights=list(w.values()))[0]
            my = s["mid"] if s["mid"] > 0 else 0
            if op in ("sub", "unsub", "pause", "resume"):
                pool = TYPES * 5 + [ALL, MT["FAILED_MESSAGE"], MT["CLIENT_CLOSED"], 5000]
                if flavor in ("routing", "shared", "acks"):
                    pool += [9999, 10000, 20000, 20000]      # ids with no definition, beyond the statistics table too
                tt = rng.choice(pool)
                if op in ("sub", "resume"):
                    if tt == ALL:
                        s["sub"] = "ALL"
                    elif s["sub"] != "ALL":
                        s["sub"].add(tt)
                else:
                    if tt == ALL:
                        s["sub"] = set()
                    elif s["sub"] != "ALL":
                        s["sub"].discard(tt)
                ready.append((c, hs.sub(op, tt, src_mod=my)))
            elif op == "publish":
                tp = TYPES * 6 + [5000, 9999, 10000, 20000, 20000]
                if flavor == "stats":
                    tp = list(range(300, 300 + rng.choice([1, 2, 63, 64, 65, 130]))) + TYPES + [0, 0, 10000] + \
                         [4999, 5000, 5001, 7321, 9998, 9999] * 2      # both halves of the TIMING array
                t = rng.choice(tp)
                others = [st[x]["mid"] for x in live if st[x]["mid"] > 0]
                dm = rng.choice([0] * 6 + others * 3 + [50, 200, 201, -1])
                dh = rng.choice([0] * 12 + [5, 6, -1])
                if flavor == "stats":
                    dm, dh = 0, 0
                n = rng.choice([0, 1, 8, 64] + ([65535] if rng.random() < 0.03 else []))
                if flavor == "drops" and rng.random() < 0.45:
                    # a write failure at a known moment: the victims' next send is this very message
                    vs = [v for v in live if v != c and not st[v]["gone"] and (st[v]["sub"] == "ALL" or t in st[v]["sub"])]
                    if vs:
                        dm, dh = 0, 0
                        pending_faults = rng.sample(vs, min(len(vs), rng.choice([1, 1, 2])))
                        ready = []
                        chosen_done = True
                        ready.append((c, hs.publish(t, bytes(rng.getrandbits(8) for _ in range(n)), src_mod=my, dst_mod=0, dst_host=0)))
                        break
                ready.append((c, hs.publish(t, bytes(rng.getrandbits(8) for _ in range(n)), src_mod=my, src_host=rng.choice([0, 2]),
                                            dst_mod=dm, dst_host=dh)))
            elif op == "disconnect":
                s["gone"] = True
                ready.append((c, hs.disconnect(src_mod=my)))
            elif op == "eof":
                s["gone"] = True
                ready.append((c, hs.eof(bytes(rng.randrange(0, 40)))))
            else:
                s["gone"] = True
                ready.append((c, hs.reset()))
        allc = list(range(1, hs.nclients + (2 if accept else 1)))
        p_unw = 0.35 if flavor == "drops" else (0.12 if flavor in ("routing", "shared") else (0.0 if flavor == "stats" else 0.03))
        writable = [c for c in allc if c == 1 or rng.random() >= p_unw]
        if pending_faults:
            accept_now = False
            for v in pending_faults:
                hs.fault(v, 0)
                st[v]["gone"] = True
                if v not in writable:
                    writable.append(v)
            pending_faults = []
            if accept:
                # keep this round free of anything else the manager might write to the victims
                del st[hs.nclients + 1]
                accept = False
        now += rng.choice([0, 0, 1, 1, 2]) if flavor != "stats" else rng.choice([0, 1, 2, 5])
        if ready or accept:
            hs.round(ready, writable, now, accept=accept)
        else:
            hs.round([], [], now)
    if flavor == "stats" or rng.random() < 0.3:
        hs.round([], [], now + rng.choice([5, 6]))
        hs.round([], [], now + 12)
        hs.quiet_end = True
    return hs
