"""Shared helpers for the client family (C02 C08): Coq family handle, worker runner, regen."""
from __future__ import annotations

import json
import subprocess
from concurrent.futures import ThreadPoolExecutor
from typing import Dict, List, Optional

from .framework import VERIF, PY, NCPU, impl_env, CoqFamily
from . import gen_client

FAM = CoqFamily("client", "Cli")


def regen_or_report(chk) -> bool:
    errs = gen_client.regen()
    for f, e in errs:
        chk.broken_obligation(f"translator failed closed for Gen/{f}", e)
    return not errs


def _run_one(job: dict, timeout: int):
    p = subprocess.run([PY, str(VERIF / "vlib" / "client_worker.py")], input=json.dumps(job),
                       capture_output=True, text=True, env=impl_env(), timeout=timeout, cwd="/")
    if p.returncode != 0:
        raise RuntimeError("client_worker failed: " + p.stderr[-2000:])
    return json.loads(p.stdout)


def run_worker(mode: str, cases: List[dict], extra: Dict, nproc: int = NCPU, timeout: int = 900, _retry: bool = True):
    """Run the real code on the cases, split round-robin over worker processes, results in order.
    returns (results, meta) where meta is the non-list part of the first worker's answer (c08: table)."""
    if not cases:
        return [], {}
    nproc = max(1, min(nproc, (len(cases) + 19) // 20))
    chunks = [cases[i::nproc] for i in range(nproc)]
    run_worker.last_nproc = nproc  # cases i and i - nproc ran back to back in the same worker

    def work(ch):
        job = dict(mode=mode, cases=ch)
        job.update(extra)
        return _run_one(job, timeout)

    with ThreadPoolExecutor(nproc) as ex:
        rs = list(ex.map(work, chunks))
    out: List[Optional[dict]] = [None] * len(cases)
    meta = {}
    for k, r in enumerate(rs):
        if isinstance(r, dict):
            if not meta:
                meta = {a: b for a, b in r.items() if a != "results"}
            r = r["results"]
        for j, x in enumerate(r):
            out[k + j * nproc] = x
    if _retry:
        # a case whose run failed in the HARNESS (not in the code under test) is run once more, alone in a fresh worker:
        # only a failure that repeats is reported (real TCP on a loaded machine: a lost race is not a finding)
        again = [i for i, x in enumerate(out) if x is None or ("harness_error" in x and not x.get("manager_died"))]
        if again and len(again) <= 20:
            for i in again:
                r2, _ = run_worker(mode, [cases[i]], extra, nproc=1, timeout=timeout, _retry=False)
                if r2 and r2[0] is not None and "harness_error" not in r2[0]:
                    out[i] = r2[0]
    return out, meta
